"""Tie T for C01 (shared model R): the literal tables that decide where a column value ends up.

Extracted on every run from /repo's working tree (stdlib `ast` only) -> lean/SparkxVerif/Gen/Tables.lean:

  Particle.__initialize_from_array   the `attribute_mapping` dict literal (format -> attribute -> [slot, column]),
                                     the ASCII mapping construction, the column-count condition, the float-cast
                                     and int-cast attribute lists and the `else` cast, the JETSCAPE derived
                                     assignments (`self.mass = …`, `self.charge = …`)
  Particle.<property> getters        slot and kind (`return self.data_[k]` | nan-guarded `int(self.data_[k])` | bool)
  Particle.<property> setters        slot written; the `charge` setter's tripling rule
  Particle.mass_from_energy_momentum the `massless_pdg` list
  Particle.charge_from_pdg           shape (nan for invalid / charge-less codes, else PDGID charge)
  OscarLoader._set_custom_attr_list  `attr_map`
  OscarLoader.set_oscar_format       the if/elif chain on the first header line (order matters)
  Oscar/Jetscape._particle_as_list   column order and casts of `particle_list()`

Every region is compared with the shape the extractor understands; anything else raises `Untranslatable`
(reported as "tie T broken", never skipped).
"""
import ast

from . import pyexpr
from .pyexpr import Untranslatable


def _norm(src):
    return ast.dump(ast.parse(src).body[0])


def _same(node, template, what):
    if ast.dump(node) != _norm(template):
        raise Untranslatable(f"{what}: statement has not the expected shape: {ast.unparse(node)[:120]!r}")


def _strip_doc(body):
    if body and isinstance(body[0], ast.Expr) and isinstance(body[0].value, ast.Constant) and isinstance(body[0].value.value, str):
        return body[1:]
    return body


def _str_list(node, what):
    if not isinstance(node, ast.List) or not all(isinstance(e, ast.Constant) and isinstance(e.value, str) for e in node.elts):
        raise Untranslatable(f"{what}: not a list of string literals")
    return [e.value for e in node.elts]


def _int_const(node, what):
    if isinstance(node, ast.UnaryOp) and isinstance(node.op, ast.USub):
        return -_int_const(node.operand, what)
    if isinstance(node, ast.Constant) and isinstance(node.value, int) and not isinstance(node.value, bool):
        return node.value
    raise Untranslatable(f"{what}: not an int literal")


# ----------------------------------------------------------------------------- Particle.__initialize_from_array
ASCII_BLOCK = '''
if input_format == "ASCII":
    mapping_dict = {}
    for attr in attribute_list:
        mapping_dict[attr] = [
            attribute_mapping["Allfields"][attr][0],
            list(attribute_list).index(attr),
        ]
    attribute_mapping["ASCII"] = mapping_dict
'''

SKIP_SHORT = '''
if len(particle_array) <= (index[1]):
    continue
'''
ASCII_SUFFIX = '''
if input_format == "ASCII":
    attribute = attribute + "_"
'''
PDG_VALID_BLOCK = '''
if np.isnan(self.pdg):
    self.pdg_valid = False
else:
    self.pdg_valid = PDGID(self.pdg).is_valid
'''


def _cast_of(stmts, what):
    """`self.data_[index[0]] = <cast>(particle_array[index[1]])` -> cast name"""
    if len(stmts) != 1:
        raise Untranslatable(f"{what}: expected one assignment")
    for c in ("float", "int"):
        if ast.dump(stmts[0]) == _norm(f"self.data_[index[0]] = {c}(particle_array[index[1]])"):
            return c
    raise Untranslatable(f"{what}: not `self.data_[index[0]] = float|int(particle_array[index[1]])`")


def extract_init(tree, source):
    f = pyexpr.find_function(tree, "__initialize_from_array", "Particle")
    if f is None:
        raise Untranslatable("Particle.__initialize_from_array not found")
    body = _strip_doc(f.body)
    if len(body) != 4:
        raise Untranslatable(f"__initialize_from_array: expected 4 top-level statements, found {len(body)}")
    am, ascii_blk, main_if, _warn = body
    # --- attribute_mapping
    if not (isinstance(am, ast.Assign) and len(am.targets) == 1 and isinstance(am.targets[0], ast.Name)
            and am.targets[0].id == "attribute_mapping" and isinstance(am.value, ast.Dict)):
        raise Untranslatable("attribute_mapping is not a dict literal")
    mapping = []
    for k, v in zip(am.value.keys, am.value.values):
        if not (isinstance(k, ast.Constant) and isinstance(k.value, str) and isinstance(v, ast.Dict)):
            raise Untranslatable("attribute_mapping: entry is not str -> dict")
        rows = []
        seen = set()
        for ak, av in zip(v.keys, v.values):
            if not (isinstance(ak, ast.Constant) and isinstance(ak.value, str) and isinstance(av, ast.List) and len(av.elts) == 2):
                raise Untranslatable(f"attribute_mapping[{k.value}]: entry is not str -> [slot, column]")
            if ak.value in seen:
                raise Untranslatable(f"attribute_mapping[{k.value}]: duplicate key {ak.value} (later one wins in Python)")
            seen.add(ak.value)
            rows.append((ak.value, _int_const(av.elts[0], "slot"), _int_const(av.elts[1], "column")))
        mapping.append((k.value, rows))
    # --- ASCII mapping construction
    _same(ascii_blk, ASCII_BLOCK, "ASCII mapping block")
    # --- the main if: format known -> length condition -> loop
    if not (isinstance(main_if, ast.If) and ast.dump(main_if.test) == ast.dump(ast.parse(
            'input_format in attribute_mapping or input_format == "ASCII"').body[0].value)):
        raise Untranslatable("format test has not the expected shape")
    if not (len(main_if.orelse) == 1 and isinstance(main_if.orelse[0], ast.Raise)):
        raise Untranslatable("unsupported-format branch is not a raise")
    if len(main_if.body) != 1 or not isinstance(main_if.body[0], ast.If):
        raise Untranslatable("length test missing")
    len_if = main_if.body[0]
    t = len_if.test
    ok = (isinstance(t, ast.BoolOp) and isinstance(t.op, ast.Or) and len(t.values) == 3
          and ast.dump(t.values[0]) == ast.dump(ast.parse('input_format == "ASCII"').body[0].value)
          and ast.dump(t.values[1]) == ast.dump(ast.parse('len(particle_array) == len(attribute_mapping[input_format])').body[0].value))
    if not ok:
        raise Untranslatable("length condition: first two disjuncts changed")
    third = t.values[2]
    if not (isinstance(third, ast.BoolOp) and isinstance(third.op, ast.And) and len(third.values) == 3
            and isinstance(third.values[0], ast.Compare) and isinstance(third.values[0].ops[0], ast.In)
            and ast.dump(third.values[0].left) == ast.dump(ast.Name("input_format", ast.Load()))
            and ast.dump(third.values[1]) == ast.dump(ast.parse(
                'len(particle_array) <= len(attribute_mapping[input_format])').body[0].value)):
        raise Untranslatable("length condition: slack disjunct changed")
    slack_formats = _str_list(third.values[0].comparators[0], "slack formats")
    lo = third.values[2]
    if not (isinstance(lo, ast.Compare) and isinstance(lo.ops[0], ast.GtE)
            and ast.dump(lo.left) == ast.dump(ast.parse('len(particle_array)').body[0].value)
            and isinstance(lo.comparators[0], ast.BinOp) and isinstance(lo.comparators[0].op, ast.Sub)
            and ast.dump(lo.comparators[0].left) == ast.dump(ast.parse('len(attribute_mapping[input_format])').body[0].value)):
        raise Untranslatable("length condition: lower bound changed")
    slack = _int_const(lo.comparators[0].right, "slack")
    if not (len(len_if.orelse) == 1 and isinstance(len_if.orelse[0], ast.Raise)):
        raise Untranslatable("wrong-column-count branch is not a raise")
    lb = len_if.body
    if len(lb) != 3 or not isinstance(lb[0], ast.For):
        raise Untranslatable("loop / pdg_valid / JETSCAPE block layout changed")
    loop = lb[0]
    if ast.dump(loop.target) != ast.dump(ast.parse("attribute, index = 0").body[0].targets[0]) or \
            ast.dump(loop.iter) != ast.dump(ast.parse("attribute_mapping[input_format].items()").body[0].value):
        raise Untranslatable("loop header changed")
    if len(loop.body) != 3:
        raise Untranslatable("loop body: expected skip / suffix / cast chain")
    _same(loop.body[0], SKIP_SHORT, "short-line skip")
    _same(loop.body[1], ASCII_SUFFIX, "ASCII attribute suffix")
    chain = pyexpr.if_chain(loop.body[2])
    if len(chain) != 3 or chain[2][0] is not None:
        raise Untranslatable("cast chain: expected if / elif / else")
    casts = []
    for test, stmts in chain[:2]:
        if not (isinstance(test, ast.Compare) and isinstance(test.ops[0], ast.In)
                and isinstance(test.left, ast.Name) and test.left.id == "attribute"):
            raise Untranslatable("cast chain: test is not `attribute in [...]`")
        casts.append((_str_list(test.comparators[0], "cast list"), _cast_of(stmts, "cast chain")))
    else_cast = _cast_of(chain[2][1], "cast chain else")
    _same(lb[1], PDG_VALID_BLOCK, "pdg_valid block")
    jb = lb[2]
    if not (isinstance(jb, ast.If) and ast.dump(jb.test) == ast.dump(ast.parse('input_format == "JETSCAPE"').body[0].value)):
        raise Untranslatable("JETSCAPE derived block missing")
    derived = []
    for st in jb.body[:2]:
        if not (isinstance(st, ast.Assign) and isinstance(st.targets[0], ast.Attribute) and isinstance(st.value, ast.Call)
                and isinstance(st.value.func, ast.Attribute) and not st.value.args
                and ast.dump(st.value.func.value) == ast.dump(ast.Name("self", ast.Load()))):
            raise Untranslatable("JETSCAPE derived assignment changed")
        derived.append((st.targets[0].attr, st.value.func.attr))
    if len(jb.body) != 3 or not isinstance(jb.body[2], ast.If):
        raise Untranslatable("JETSCAPE block: expected mass, charge, warning")
    return dict(mapping=mapping, casts=casts, else_cast=else_cast, slack_formats=slack_formats, slack=slack,
                derived=derived), dict(file="Particle.py", region=f.name, sha=pyexpr.src_hash(source, f))


# ----------------------------------------------------------------------------- properties
def _slot_of(node):
    """`self.data_[k]` -> k"""
    if isinstance(node, ast.Subscript) and ast.dump(node.value) == ast.dump(ast.parse("self.data_").body[0].value):
        return _int_const(node.slice, "slot")
    raise Untranslatable("not self.data_[k]: " + ast.unparse(node)[:60])


CHARGE_SETTERS = {
    "abs_lt_1": '''
if np.abs(value) < 1:
    value *= 3
''',
    "non_integral": '''
if value % 1 != 0:
    value *= 3
''',
}


def extract_properties(tree, source):
    cls = next((n for n in ast.walk(tree) if isinstance(n, ast.ClassDef) and n.name == "Particle"), None)
    if cls is None:
        raise Untranslatable("class Particle not found")
    getters, setters = [], []
    charge_rule = None
    shas = []
    for fn in cls.body:
        if not isinstance(fn, ast.FunctionDef) or not fn.decorator_list:
            continue
        d = fn.decorator_list[0]
        body = _strip_doc(fn.body)
        if isinstance(d, ast.Name) and d.id == "property":
            shas.append(pyexpr.src_hash(source, fn))
            if len(body) == 1 and isinstance(body[0], ast.Return):
                v = body[0].value
                if isinstance(v, ast.Call) and isinstance(v.func, ast.Name) and v.func.id == "bool" and len(v.args) == 1:
                    getters.append((fn.name, _slot_of(v.args[0]), "bool"))
                else:
                    getters.append((fn.name, _slot_of(v), "raw"))
            elif len(body) == 2 and isinstance(body[0], ast.If) and isinstance(body[1], ast.Return):
                v = body[1].value
                if not (isinstance(v, ast.Call) and isinstance(v.func, ast.Name) and v.func.id == "int" and len(v.args) == 1):
                    raise Untranslatable(f"getter {fn.name}: second statement is not `return int(self.data_[k])`")
                k = _slot_of(v.args[0])
                _same(body[0], f"if np.isnan(self.data_[{k}]):\n    return np.nan\n", f"getter {fn.name} nan guard")
                getters.append((fn.name, k, "int"))
            else:
                raise Untranslatable(f"getter {fn.name}: body has not a known shape")
        elif isinstance(d, ast.Attribute) and d.attr == "setter":
            shas.append(pyexpr.src_hash(source, fn))
            # the (first) assignment to self.data_[k]
            asg = [s for s in body if isinstance(s, ast.Assign) and isinstance(s.targets[0], ast.Subscript)
                   and ast.dump(s.targets[0].value) == ast.dump(ast.parse("self.data_").body[0].value)]
            if len(asg) != 1:
                raise Untranslatable(f"setter {fn.name}: expected exactly one write to self.data_")
            k = _slot_of(asg[0].targets[0])
            if fn.name == "charge":
                if len(body) != 2 or body[1] is not asg[0] or ast.dump(asg[0].value) != ast.dump(ast.Name("value", ast.Load())):
                    raise Untranslatable("charge setter: expected `if …: value *= 3` then `self.data_[12] = value`")
                for name, tmpl in CHARGE_SETTERS.items():
                    if ast.dump(body[0]) == _norm(tmpl):
                        charge_rule = name
                if charge_rule is None:
                    raise Untranslatable("charge setter: tripling rule has not a known shape: " + ast.unparse(body[0])[:80])
            elif fn.name == "pdg_valid":
                pass
            elif fn.name == "pdg":
                if body[0] is not asg[0] or ast.dump(asg[0].value) != ast.dump(ast.Name("value", ast.Load())):
                    raise Untranslatable("pdg setter: first statement is not the slot write")
            else:
                if len(body) != 1 or ast.dump(asg[0].value) != ast.dump(ast.Name("value", ast.Load())):
                    raise Untranslatable(f"setter {fn.name}: not `self.data_[k] = value`")
            setters.append((fn.name, k))
    if charge_rule is None:
        raise Untranslatable("charge setter not found")
    import hashlib
    sha = hashlib.sha256("".join(shas).encode()).hexdigest()[:16]
    return dict(getters=getters, setters=setters, charge_rule=charge_rule), \
        dict(file="Particle.py", region="property getters/setters", sha=sha)


CHARGE_FROM_PDG = {
    "nan_if_invalid": '''
def charge_from_pdg(self) -> float:
    if not self.pdg_valid:
        return np.nan
    return PDGID(self.pdg).charge
''',
    "nan_if_invalid_or_none": '''
def charge_from_pdg(self) -> float:
    if not self.pdg_valid:
        return np.nan
    charge = PDGID(self.pdg).charge
    if charge is None:
        return np.nan
    return charge
''',
}


def extract_derived(tree, source):
    f = pyexpr.find_function(tree, "mass_from_energy_momentum", "Particle")
    if f is None:
        raise Untranslatable("mass_from_energy_momentum not found")
    ml = [s for s in f.body if isinstance(s, ast.Assign) and isinstance(s.targets[0], ast.Name) and s.targets[0].id == "massless_pdg"]
    if len(ml) != 1 or not isinstance(ml[0].value, ast.List):
        raise Untranslatable("massless_pdg list not found")
    massless = [_int_const(e, "massless_pdg") for e in ml[0].value.elts]
    g = pyexpr.find_function(tree, "charge_from_pdg", "Particle")
    if g is None:
        raise Untranslatable("charge_from_pdg not found")
    gb = ast.FunctionDef(name=g.name, args=g.args, body=_strip_doc(g.body), decorator_list=[], returns=g.returns,
                         type_comment=None, type_params=[])
    shape = None
    for name, tmpl in CHARGE_FROM_PDG.items():
        if ast.dump(gb) == _norm(tmpl):
            shape = name
    if shape is None:
        raise Untranslatable("charge_from_pdg has not a known shape")
    return dict(massless=massless, charge_from_pdg=shape), [
        dict(file="Particle.py", region=f.name + " (massless list)", sha=pyexpr.src_hash(source, ml[0])),
        dict(file="Particle.py", region=g.name, sha=pyexpr.src_hash(source, g))]


# ----------------------------------------------------------------------------- OscarLoader
def extract_loader(tree, source):
    f = pyexpr.find_function(tree, "_set_custom_attr_list", "OscarLoader")
    if f is None:
        raise Untranslatable("_set_custom_attr_list not found")
    am = [s for s in f.body if isinstance(s, ast.Assign) and isinstance(s.targets[0], ast.Name) and s.targets[0].id == "attr_map"]
    if len(am) != 1 or not isinstance(am[0].value, ast.Dict):
        raise Untranslatable("attr_map dict literal not found")
    attr_map = []
    for k, v in zip(am[0].value.keys, am[0].value.values):
        if not (isinstance(k, ast.Constant) and isinstance(v, ast.Constant) and isinstance(k.value, str) and isinstance(v.value, str)):
            raise Untranslatable("attr_map: entry is not str -> str")
        attr_map.append((k.value, v.value))
    rest = [s for s in _strip_doc(f.body) if s is not am[0]]
    tmpl = '''
def g():
    self.custom_attr_list = []
    for i in range(0, len(header_line)):
        attr_name = attr_map.get(header_line[i])
        if attr_name is not None:
            self.custom_attr_list.append(attr_name)
    return self.custom_attr_list
'''
    if [ast.dump(s) for s in rest] != [ast.dump(s) for s in ast.parse(tmpl).body[0].body]:
        raise Untranslatable("_set_custom_attr_list: loop changed")
    # set_oscar_format: the chain
    g = pyexpr.find_function(tree, "set_oscar_format", "OscarLoader")
    if g is None:
        raise Untranslatable("set_oscar_format not found")
    body = _strip_doc(g.body)
    if len(body) != 2 or not isinstance(body[1], ast.If):
        raise Untranslatable("set_oscar_format: expected `with open…` + if chain")
    _same(body[0], '''
with open(self.PATH_OSCAR_, "r") as file:
    first_line = file.readline()
    first_line_list = first_line.replace("\\n", "").split(" ")
''', "set_oscar_format: first line read")
    chain = []
    for test, stmts in pyexpr.if_chain(body[1]):
        if test is None:
            if not (len(stmts) == 1 and isinstance(stmts[0], ast.Raise)):
                raise Untranslatable("set_oscar_format: else is not a raise")
            continue
        cond = _fmt_cond(test)
        if not (isinstance(stmts[0], ast.Assign) and ast.dump(stmts[0].targets[0]) == ast.dump(ast.parse("self.oscar_format_ = 0").body[0].targets[0])
                and isinstance(stmts[0].value, ast.Constant)):
            raise Untranslatable("set_oscar_format: branch does not start with the format assignment")
        fmt = stmts[0].value.value
        if fmt == "ASCII":
            if [ast.dump(s) for s in stmts[1:]] != [ast.dump(s) for s in ast.parse(
                    "value_line = first_line_list[2:]\nself.custom_attr_list = self._set_custom_attr_list(value_line)").body]:
                raise Untranslatable("set_oscar_format: ASCII branch changed")
        elif len(stmts) != 1:
            raise Untranslatable("set_oscar_format: extra statements in branch " + fmt)
        chain.append((cond, fmt))
    return dict(attr_map=attr_map, format_chain=chain), [
        dict(file="loader/OscarLoader.py", region=f.name, sha=pyexpr.src_hash(source, f)),
        dict(file="loader/OscarLoader.py", region=g.name, sha=pyexpr.src_hash(source, g))]


def _fmt_atom(node):
    """`len(first_line_list) == n` -> ("len", n) ; `first_line_list[i] == "s"` -> ("tok", i, s)"""
    if isinstance(node, ast.Compare) and len(node.ops) == 1 and isinstance(node.ops[0], ast.Eq):
        l, r = node.left, node.comparators[0]
        if ast.dump(l) == ast.dump(ast.parse("len(first_line_list)").body[0].value):
            return ("len", _int_const(r, "length"))
        if isinstance(l, ast.Subscript) and isinstance(l.value, ast.Name) and l.value.id == "first_line_list" \
                and isinstance(r, ast.Constant) and isinstance(r.value, str):
            return ("tok", _int_const(l.slice, "token index"), r.value)
    raise Untranslatable("set_oscar_format: unknown atom " + ast.unparse(node)[:80])


def _fmt_cond(node):
    if isinstance(node, ast.BoolOp):
        return ("or" if isinstance(node.op, ast.Or) else "and", [_fmt_cond(v) for v in node.values])
    return _fmt_atom(node)


# ----------------------------------------------------------------------------- _particle_as_list
def extract_as_list(otree, osrc, jtree, jsrc):
    f = pyexpr.find_function(otree, "_particle_as_list", "Oscar")
    g = pyexpr.find_function(jtree, "_particle_as_list", "Jetscape")
    if f is None or g is None:
        raise Untranslatable("_particle_as_list not found")

    def appends(stmts):
        out = []
        for s in stmts:
            if isinstance(s, ast.Expr) and isinstance(s.value, ast.Call) and isinstance(s.value.func, ast.Attribute) \
                    and s.value.func.attr == "append" and len(s.value.args) == 1:
                a = s.value.args[0]
                if isinstance(a, ast.Call) and isinstance(a.func, ast.Name) and a.func.id in ("int", "float") \
                        and isinstance(a.args[0], ast.Attribute) and isinstance(a.args[0].value, ast.Name) \
                        and a.args[0].value.id == "particle":
                    out.append((a.func.id, a.args[0].attr))
                    continue
            break
        return out

    if not (len(f.body) == 2 and isinstance(f.body[1], ast.If)):
        raise Untranslatable("Oscar._particle_as_list: layout changed")
    top = f.body[1]
    _same(ast.If(test=top.test, body=top.body, orelse=[]), '''
if self.oscar_format_ == "ASCII":
    for attr in self.custom_attr_list:
        particle_list.append(getattr(particle, attr))
    return particle_list
''', "Oscar._particle_as_list ASCII branch")
    els = top.orelse
    base = appends(els)
    if len(base) != 12 or not isinstance(els[12], ast.If):
        raise Untranslatable("Oscar._particle_as_list: expected 12 appends then the Extended block")
    ext_if = els[12]
    ext = appends(ext_if.body)
    if len(ext) != 8 or not isinstance(ext_if.body[8], ast.If):
        raise Untranslatable("Oscar._particle_as_list: expected 8 Extended appends then the optional columns")
    opt = []
    for s in ext_if.body[8].body:
        if not (isinstance(s, ast.If) and len(s.body) == 1):
            raise Untranslatable("Oscar._particle_as_list: optional column block changed")
        a = appends(s.body)
        if len(a) != 1:
            raise Untranslatable("Oscar._particle_as_list: optional column block changed")
        if ast.dump(s.test) != ast.dump(ast.parse(f"not np.isnan(particle.{a[0][1]})").body[0].value):
            raise Untranslatable("Oscar._particle_as_list: optional column guard changed")
        opt.append(a[0])
    jl = []
    for s in g.body:
        if isinstance(s, ast.Assign) and isinstance(s.targets[0], ast.Subscript) and isinstance(s.targets[0].value, ast.Name) \
                and s.targets[0].value.id == "particle_list" and isinstance(s.value, ast.Call) and isinstance(s.value.func, ast.Name) \
                and s.value.func.id in ("int", "float") and isinstance(s.value.args[0], ast.Attribute):
            jl.append((_int_const(s.targets[0].slice, "index"), s.value.func.id, s.value.args[0].attr))
    if sorted(i for i, _, _ in jl) != list(range(7)):
        raise Untranslatable("Jetscape._particle_as_list: expected 7 indexed assignments")
    jl.sort()
    return dict(oscar_base=base, oscar_ext=ext, oscar_opt=opt, jetscape=[(c, a) for _, c, a in jl]), [
        dict(file="Oscar.py", region=f.name, sha=pyexpr.src_hash(osrc, f)),
        dict(file="Jetscape.py", region=g.name, sha=pyexpr.src_hash(jsrc, g))]


# ----------------------------------------------------------------------------- rendering
def _s(x):
    return '"' + x.replace("\\", "\\\\").replace('"', '\\"') + '"'


def _lst(xs):
    return "[" + ", ".join(xs) + "]"


def _cond(c):
    if c[0] == "len":
        return f".len {c[1]}"
    if c[0] == "tok":
        return f".tok {c[1]} {_s(c[2])}"
    return f".{c[0]}s {_lst(['(' + _cond(x) + ')' for x in c[1]])}"


def render(particle_src, loader_src, oscar_src, jetscape_src):
    pt = ast.parse(particle_src)
    lt = ast.parse(loader_src)
    init, r1 = extract_init(pt, particle_src)
    props, r2 = extract_properties(pt, particle_src)
    der, r3 = extract_derived(pt, particle_src)
    ldr, r4 = extract_loader(lt, loader_src)
    asl, r5 = extract_as_list(ast.parse(oscar_src), oscar_src, ast.parse(jetscape_src), jetscape_src)
    if init["derived"] != [("mass", "mass_from_energy_momentum"), ("charge", "charge_from_pdg")]:
        raise Untranslatable(f"JETSCAPE derived assignments changed: {init['derived']}")
    if len(init["casts"]) != 2 or init["casts"][0][1] != "float" or init["casts"][1][1] != "int":
        raise Untranslatable("cast chain is not float-list / int-list / else")
    L = ["-- GENERATED by harness/translate/tables.py from src/sparkx/Particle.py, loader/OscarLoader.py, Oscar.py, Jetscape.py -- do not edit",
         "namespace SparkxVerif.Gen.Tables", "",
         "/-- `attribute_mapping` of `Particle.__initialize_from_array`: format ↦ [(attribute key, `data_` slot, column)] -/",
         "def mapping : List (String × List (String × Nat × Nat)) := ["]
    L.append(",\n".join("  (" + _s(k) + ", " + _lst([f"({_s(a)}, {s}, {c})" for a, s, c in rows]) + ")" for k, rows in init["mapping"]))
    L.append("]")
    L += ["", "/-- attributes written with `float(tok)` -/",
          "def floatCast : List String := " + _lst([_s(x) for x in init["casts"][0][0]]),
          "/-- attributes written with `int(tok)` (explicit list) -/",
          "def intCast : List String := " + _lst([_s(x) for x in init["casts"][1][0]]),
          "/-- cast of the final `else` branch: `true` = float, `false` = int -/",
          f"def elseCastIsFloat : Bool := {'true' if init['else_cast'] == 'float' else 'false'}",
          "/-- formats that may have up to `lenSlack` trailing columns missing -/",
          "def slackFormats : List String := " + _lst([_s(x) for x in init["slack_formats"]]),
          f"def lenSlack : Nat := {init['slack']}",
          "", "/-- property getters: (name, slot, kind) with kind 0 = `return self.data_[k]`, 1 = nan-guarded `int(self.data_[k])`, 2 = `bool(self.data_[k])` -/",
          "def getters : List (String × Nat × Nat) := " + _lst(
              [f"({_s(n)}, {k}, {dict(raw=0, int=1, bool=2)[kind]})" for n, k, kind in props["getters"]]),
          "/-- property setters: (name, slot written) -/",
          "def setters : List (String × Nat) := " + _lst([f"({_s(n)}, {k})" for n, k in props["setters"]]),
          "", "/-- `OscarLoader._set_custom_attr_list.attr_map` -/",
          "def attrMap : List (String × String) := " + _lst([f"({_s(a)}, {_s(b)})" for a, b in ldr["attr_map"]]),
          "", "/-- conditions of `OscarLoader.set_oscar_format` on the token list of the first line -/",
          "inductive FCond | len (n : Nat) | tok (i : Nat) (s : String) | ors (cs : List FCond) | ands (cs : List FCond)",
          "/-- the if/elif chain, in source order: (condition, format assigned) -/",
          "def formatChain : List (FCond × String) := " + _lst([f"({_cond(c)}, {_s(f)})" for c, f in ldr["format_chain"]]),
          "", "/-- `massless_pdg` of `Particle.mass_from_energy_momentum` -/",
          "def massless : List Int := " + _lst([str(x) if x >= 0 else f"({x})" for x in der["massless"]]),
          "/-- JETSCAPE derived assignments: (attribute set, method called) -/",
          "def jetscapeDerived : List (String × String) := " + _lst([f"({_s(a)}, {_s(b)})" for a, b in init["derived"]]),
          f"/-- `charge_from_pdg` returns nan also when PDGID knows no charge for a valid code ({der['charge_from_pdg']}) -/",
          f"def chargeNoneIsNan : Bool := {'true' if der['charge_from_pdg'] == 'nan_if_invalid_or_none' else 'false'}",
          "", f"/-- the `charge` setter on a value given in thirds (`value = v3/3`), result in thirds; source rule: {props['charge_rule']} -/"]
    if props["charge_rule"] == "abs_lt_1":
        L.append("def chargeSetter3 (v3 : Int) : Int := if v3.natAbs < 3 * 1 then 3 * v3 else v3")
    else:
        L.append("def chargeSetter3 (v3 : Int) : Int := if v3 % 3 ≠ 0 then 3 * v3 else v3")
    L += ["", "/-- `Oscar._particle_as_list` (non-ASCII): (isFloat, attribute) in column order; ASCII uses `custom_attr_list` -/",
          "def oscarAsListBase : List (Bool × String) := " + _lst([f"({'true' if c == 'float' else 'false'}, {_s(a)})" for c, a in asl["oscar_base"]]),
          "def oscarAsListExt : List (Bool × String) := " + _lst([f"({'true' if c == 'float' else 'false'}, {_s(a)})" for c, a in asl["oscar_ext"]]),
          "/-- appended only when set (not nan) -/",
          "def oscarAsListOpt : List (Bool × String) := " + _lst([f"({'true' if c == 'float' else 'false'}, {_s(a)})" for c, a in asl["oscar_opt"]]),
          "/-- `Jetscape._particle_as_list` -/",
          "def jetscapeAsList : List (Bool × String) := " + _lst([f"({'true' if c == 'float' else 'false'}, {_s(a)})" for c, a in asl["jetscape"]]),
          "", "end SparkxVerif.Gen.Tables", ""]
    info = dict(charge_rule=props["charge_rule"], charge_from_pdg=der["charge_from_pdg"],
                formats=[k for k, _ in init["mapping"]], n_getters=len(props["getters"]),
                format_chain=[f for _, f in ldr["format_chain"]])
    return "\n".join(L), [r1, r2] + r3 + r4 + r5, info
