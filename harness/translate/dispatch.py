"""Tie T for C05: the three hand-copied constructor dispatch tables and the storer method wrappers
-> lean/SparkxVerif/Gen/Dispatch.lean

Extracted on every run from the tree under test:

  * `__apply_kwargs_filters` of OscarLoader / JetscapeLoader / ParticleObjectLoader: the guard that returns the
    event unchanged for a non-dict / empty dict, the `for i in filters_dict.keys()` loop, and for every
    `if/elif i == "<key>"` branch
      - which Filter function is called,
      - which dictionary entry the branch consults (`filters_dict["<valKey>"]`, normally the branch's own key),
      - how the value is used:   switch  (`if filters_dict[k]: event = f(event)`),
                                 value   (`event = f(event, filters_dict[k])`),
                                 unpack  (`event = f(event, filters_dict[k][0], filters_dict[k][1])`, with or
                                          without the preceding `isinstance(..., list)` check that raises),
    and whether the final `else` raises;
  * the shape of every call site of `__apply_kwargs_filters` in `set_particle_list`
    (`X = self.__apply_kwargs_filters([X], kwargs["filters"])[0]`);
  * the filter methods of `BaseStorer` (`self.particle_list_ = f(self.particle_list_, <params>)`,
    `self._update_num_output_per_event_after_filter()`, `return self`): method name, Filter function, the
    method's parameters and the arguments passed on, whether it recounts and returns `self`;
  * the overrides in `Oscar`, `Jetscape`, `ParticleObjectStorer`: either `raise NotImplementedError`, another
    wrapper of the same shape, or a *delegating override*: exactly one `super().<same name>(<own parameters in
    order>)`, `return self`, and otherwise only local assignments and calls of private helpers of the class that
    never assign `particle_list_` / `num_output_per_event_` / `num_events_` (metadata only) — recorded with
    `delegates := true` and the Filter function / argument passing of the `BaseStorer` wrapper it delegates to.

Anything that does not have one of these shapes raises Untranslatable ("tie T broken"), never skipped silently.
"""
import ast
import hashlib

from .pyexpr import Untranslatable

LOADERS = [
    ("oscar", "loader/OscarLoader.py", "OscarLoader"),
    ("jetscape", "loader/JetscapeLoader.py", "JetscapeLoader"),
    ("obj", "loader/ParticleObjectLoader.py", "ParticleObjectLoader"),
]
STORERS = [
    ("oscar", "Oscar.py", "Oscar"),
    ("jetscape", "Jetscape.py", "Jetscape"),
    ("obj", "ParticleObjectStorer.py", "ParticleObjectStorer"),
]
APPLY = "__apply_kwargs_filters"
UPDATE = "_update_num_output_per_event_after_filter"


def lstr(s):
    if not all(32 <= ord(c) < 127 and c not in '"\\' for c in s):
        raise Untranslatable(f"string literal {s!r} outside printable ASCII")
    return '"' + s + '"'


def sha(node):
    return hashlib.sha256(ast.dump(node).encode()).hexdigest()[:16]


def _strip_doc(body):
    if body and isinstance(body[0], ast.Expr) and isinstance(getattr(body[0], "value", None), ast.Constant) \
            and isinstance(body[0].value.value, str):
        return body[1:]
    return body


def _class(tree, name):
    for n in tree.body:
        if isinstance(n, ast.ClassDef) and n.name == name:
            return n
    raise Untranslatable(f"class {name} not found")


def _method(cls, name):
    for n in cls.body:
        if isinstance(n, ast.FunctionDef) and n.name == name:
            return n
    raise Untranslatable(f"{cls.name}.{name} not found")


# ------------------------------------------------------------------ constructor tables
def _is_name(n, ident):
    return isinstance(n, ast.Name) and n.id == ident


def _dict_get(n, dname):
    """`filters_dict["k"]` -> "k" ; else None"""
    if isinstance(n, ast.Subscript) and _is_name(n.value, dname) and isinstance(n.slice, ast.Constant) \
            and isinstance(n.slice.value, str):
        return n.slice.value
    return None


def _dict_get_idx(n, dname):
    """`filters_dict["k"][j]` -> ("k", j)"""
    if isinstance(n, ast.Subscript) and isinstance(n.slice, ast.Constant) and isinstance(n.slice.value, int):
        k = _dict_get(n.value, dname)
        if k is not None:
            return k, n.slice.value
    return None


def _raises(stmt, exc=None):
    if not isinstance(stmt, ast.Raise) or stmt.exc is None:
        return None
    e = stmt.exc
    name = e.func.id if isinstance(e, ast.Call) and isinstance(e.func, ast.Name) else (e.id if isinstance(e, ast.Name) else None)
    if name is None:
        raise Untranslatable("raise of something that is not an exception class: " + ast.unparse(stmt)[:60])
    return name


def _assign_call(stmt, ev):
    """`event = f(event, a1, ...)` -> (f, [a1, ...])"""
    if isinstance(stmt, ast.Assign) and len(stmt.targets) == 1 and _is_name(stmt.targets[0], ev) \
            and isinstance(stmt.value, ast.Call) and isinstance(stmt.value.func, ast.Name) \
            and not stmt.value.keywords and stmt.value.args and _is_name(stmt.value.args[0], ev):
        return stmt.value.func.id, stmt.value.args[1:]
    return None


def _branch(key, body, ev, dname):
    """one `if i == key:` body -> (fn, valKey, mode)"""
    where = f"branch {key!r}"
    if len(body) == 1 and isinstance(body[0], ast.If) and not body[0].orelse:
        k = _dict_get(body[0].test, dname)
        inner = body[0].body
        if k is not None and len(inner) == 1:
            ac = _assign_call(inner[0], ev)
            if ac and not ac[1]:
                return ac[0], k, "switch"
        raise Untranslatable(f"{where}: unexpected switch shape: {ast.unparse(body[0])[:80]}")
    check = False
    stmts = list(body)
    chk_key = None
    if len(stmts) == 2 and isinstance(stmts[0], ast.If) and not stmts[0].orelse:
        t = stmts[0].test
        # if not isinstance(filters_dict[k], list): raise ValueError
        if isinstance(t, ast.UnaryOp) and isinstance(t.op, ast.Not) and isinstance(t.operand, ast.Call) \
                and _is_name(t.operand.func, "isinstance") and len(t.operand.args) == 2 \
                and _is_name(t.operand.args[1], "list") and len(stmts[0].body) == 1 \
                and _raises(stmts[0].body[0]) == "ValueError":
            chk_key = _dict_get(t.operand.args[0], dname)
            if chk_key is None:
                raise Untranslatable(f"{where}: isinstance check of something else")
            check = True
            stmts = stmts[1:]
        else:
            raise Untranslatable(f"{where}: unexpected guard {ast.unparse(stmts[0])[:80]}")
    if len(stmts) != 1:
        raise Untranslatable(f"{where}: unexpected body")
    ac = _assign_call(stmts[0], ev)
    if not ac:
        raise Untranslatable(f"{where}: not `event = f(event, ...)`: {ast.unparse(stmts[0])[:80]}")
    fn, args = ac
    if len(args) == 1:
        k = _dict_get(args[0], dname)
        if k is None:
            raise Untranslatable(f"{where}: argument is not filters_dict[...]")
        if check:
            raise Untranslatable(f"{where}: list check on a value filter")
        return fn, k, "value"
    if len(args) == 2:
        a0, a1 = _dict_get_idx(args[0], dname), _dict_get_idx(args[1], dname)
        if not a0 or not a1 or a0[0] != a1[0] or (a0[1], a1[1]) != (0, 1):
            raise Untranslatable(f"{where}: arguments are not filters_dict[k][0], filters_dict[k][1]")
        if check and chk_key != a0[0]:
            raise Untranslatable(f"{where}: list check looks at another key")
        return fn, a0[0], ("unpack true" if check else "unpack false")
    raise Untranslatable(f"{where}: {len(args)} arguments")


def ctor_table(fn):
    args = [a.arg for a in fn.args.args]
    if len(args) != 3 or args[0] != "self":
        raise Untranslatable(f"{APPLY}: unexpected parameters {args}")
    ev, dname = args[1], args[2]
    body = _strip_doc(fn.body)
    empty_returns = False
    if body and isinstance(body[0], ast.If):
        g = body[0]
        want = f"not isinstance({dname}, dict) or len({dname}.keys()) == 0"
        if ast.unparse(g.test) == want and len(g.body) == 1 and isinstance(g.body[0], ast.Return) \
                and _is_name(g.body[0].value, ev) and not g.orelse:
            empty_returns = True
            body = body[1:]
        else:
            raise Untranslatable(f"{APPLY}: unexpected leading guard {ast.unparse(g.test)[:80]}")
    if len(body) != 2 or not isinstance(body[0], ast.For) or not isinstance(body[1], ast.Return) \
            or not _is_name(body[1].value, ev):
        raise Untranslatable(f"{APPLY}: body is not `for ...: if/elif chain` + `return event`")
    loop = body[0]
    if ast.unparse(loop.iter) not in (f"{dname}.keys()", dname) or not isinstance(loop.target, ast.Name) or loop.orelse:
        raise Untranslatable(f"{APPLY}: loop is not over the dictionary keys")
    var = loop.target.id
    if len(loop.body) != 1 or not isinstance(loop.body[0], ast.If):
        raise Untranslatable(f"{APPLY}: loop body is not a single if/elif chain")
    entries = []
    cur = loop.body[0]
    else_raises = None
    while True:
        t = cur.test
        if not (isinstance(t, ast.Compare) and _is_name(t.left, var) and len(t.ops) == 1 and isinstance(t.ops[0], ast.Eq)
                and isinstance(t.comparators[0], ast.Constant) and isinstance(t.comparators[0].value, str)):
            raise Untranslatable(f"{APPLY}: branch test is not `{var} == \"...\"`: {ast.unparse(t)[:60]}")
        key = t.comparators[0].value
        f, vk, mode = _branch(key, cur.body, ev, dname)
        entries.append((key, vk, f, mode))
        if len(cur.orelse) == 1 and isinstance(cur.orelse[0], ast.If):
            cur = cur.orelse[0]
            continue
        if not cur.orelse:
            else_raises = None
        elif len(cur.orelse) == 1 and _raises(cur.orelse[0]):
            else_raises = _raises(cur.orelse[0])
        else:
            raise Untranslatable(f"{APPLY}: unexpected else branch {ast.unparse(cur.orelse[0])[:60]}")
        break
    return entries, else_raises, empty_returns


def call_sites(cls):
    """shapes of the uses of __apply_kwargs_filters outside its definition"""
    sites = []
    for n in ast.walk(cls):
        if isinstance(n, ast.Call) and isinstance(n.func, ast.Attribute) and n.func.attr == APPLY:
            sites.append(n)
    shapes = []
    parents = {}
    for p in ast.walk(cls):
        for c in ast.iter_child_nodes(p):
            parents[id(c)] = p
    for c in sites:
        ok = (len(c.args) == 2 and isinstance(c.args[0], ast.List) and len(c.args[0].elts) == 1
              and isinstance(c.args[0].elts[0], ast.Name) and ast.unparse(c.args[1]) == "kwargs['filters']")
        par = parents.get(id(c))
        ok = ok and isinstance(par, ast.Subscript) and isinstance(par.slice, ast.Constant) and par.slice.value == 0
        if not ok:
            raise Untranslatable(f"{cls.name}: call site of {APPLY} is not `self.{APPLY}([x], kwargs['filters'])[0]`: "
                                 + ast.unparse(par if par is not None else c)[:100])
        shapes.append(c.args[0].elts[0].id)
    if not shapes:
        raise Untranslatable(f"{cls.name}: {APPLY} is never called")
    return shapes


# ------------------------------------------------------------------ method wrappers
def wrapper(fn):
    """filter-method shape -> (fn name, params, passed, recount, returns_self) | 'notimpl' | None"""
    body = _strip_doc(fn.body)
    params = [a.arg for a in fn.args.args][1:]
    if fn.args.vararg or fn.args.kwarg or fn.args.kwonlyargs:
        params = params + ["*"]
    if len(body) == 1 and _raises(body[0]) == "NotImplementedError":
        return "notimpl"
    if not body:
        return None
    st = body[0]
    if not (isinstance(st, ast.Assign) and len(st.targets) == 1 and ast.unparse(st.targets[0]) == "self.particle_list_"
            and isinstance(st.value, ast.Call) and isinstance(st.value.func, ast.Name) and st.value.args
            and ast.unparse(st.value.args[0]) == "self.particle_list_"):
        return None
    if st.value.keywords:
        raise Untranslatable(f"{fn.name}: keyword arguments in the filter call")
    passed = []
    for a in st.value.args[1:]:
        if not isinstance(a, ast.Name):
            raise Untranslatable(f"{fn.name}: passes `{ast.unparse(a)[:40]}` instead of a parameter")
        passed.append(a.id)
    rest = body[1:]
    recount = any(isinstance(s, ast.Expr) and ast.unparse(s.value) == f"self.{UPDATE}()" for s in rest)
    returns_self = bool(rest) and isinstance(rest[-1], ast.Return) and _is_name(rest[-1].value, "self")
    others = [s for s in rest if not (isinstance(s, ast.Expr) and ast.unparse(s.value) == f"self.{UPDATE}()")
              and not (isinstance(s, ast.Return))]
    if others:
        raise Untranslatable(f"{fn.name}: extra statements in a filter method: {ast.unparse(others[0])[:60]}")
    return st.value.func.id, params, passed, recount, returns_self


HELD_STATE = {"particle_list_", "num_output_per_event_", "num_events_"}


def _assigns_held_state(node):
    for n in ast.walk(node):
        targets = []
        if isinstance(n, ast.Assign):
            targets = n.targets
        elif isinstance(n, (ast.AugAssign, ast.AnnAssign)):
            targets = [n.target]
        elif isinstance(n, ast.Delete):
            targets = n.targets
        for t in targets:
            for m in ast.walk(t):
                if isinstance(m, ast.Attribute) and isinstance(m.value, ast.Name) and m.value.id == "self" \
                        and m.attr in HELD_STATE:
                    return True
    return False


def delegating(cls, fn):
    """delegating override -> (params, returns_self) | None; Untranslatable if it calls super() in any other way"""
    body = _strip_doc(fn.body)
    params = [a.arg for a in fn.args.args][1:]
    if fn.args.vararg or fn.args.kwarg or fn.args.kwonlyargs:
        return None
    supers = [n for n in ast.walk(fn) if isinstance(n, ast.Call) and isinstance(n.func, ast.Attribute)
              and isinstance(n.func.value, ast.Call) and _is_name(n.func.value.func, "super")]
    if not supers:
        return None
    where = f"{cls.name}.{fn.name}"
    if len(supers) != 1:
        raise Untranslatable(f"{where}: more than one super() call")
    sc = supers[0]
    if sc.func.attr != fn.name or sc.func.value.args or sc.keywords \
            or [ast.unparse(a) for a in sc.args] != params:
        raise Untranslatable(f"{where}: super() call is not `super().{fn.name}({', '.join(params)})`")
    helpers = {n.name: n for n in cls.body if isinstance(n, ast.FunctionDef)}
    seen_super = False
    for st in body[:-1]:
        if isinstance(st, ast.Expr) and st.value is sc:
            seen_super = True
        elif isinstance(st, ast.Assign) and all(isinstance(t, ast.Name) for t in st.targets) \
                and not any(isinstance(n, ast.Call) for n in ast.walk(st.value)):
            pass  # a local name bound to a value read from the object
        elif isinstance(st, ast.Expr) and isinstance(st.value, ast.Call) and isinstance(st.value.func, ast.Attribute) \
                and _is_name(st.value.func.value, "self") and st.value.func.attr.startswith("_") \
                and st.value.func.attr in helpers and st.value.func.attr != UPDATE:
            h = helpers[st.value.func.attr]
            if _assigns_held_state(h) or any(isinstance(n, ast.Call) and isinstance(n.func, ast.Attribute)
                                             and _is_name(n.func.value, "self") for n in ast.walk(h)):
                raise Untranslatable(f"{where}: helper {h.name} touches the held events / counts or calls other methods")
        else:
            raise Untranslatable(f"{where}: statement outside the delegating shape: {ast.unparse(st)[:60]}")
    if not seen_super or _assigns_held_state(fn):
        raise Untranslatable(f"{where}: super() call is not a statement of its own / held state assigned")
    last = body[-1]
    returns_self = isinstance(last, ast.Return) and _is_name(last.value, "self")
    if not returns_self:
        raise Untranslatable(f"{where}: delegating override does not end with `return self`")
    return params, returns_self


def extract(read_src):
    regions = []
    tables = {}
    for tag, rel, cname in LOADERS:
        tree = ast.parse(read_src(rel))
        cls = _class(tree, cname)
        fn = _method(cls, APPLY)
        entries, else_raises, empty_returns = ctor_table(fn)
        sites = call_sites(cls)
        tables[tag] = dict(entries=entries, else_raises=else_raises, empty_returns=empty_returns, sites=sites)
        f2 = ast.parse(ast.unparse(fn)).body[0]
        f2.body = _strip_doc(f2.body)
        regions.append(dict(file=rel, region=f"{cname}.{APPLY}", sha=sha(f2)))
        regions.append(dict(file=rel, region=f"{cname}.set_particle_list (reader model R, tie C)",
                            sha=sha(_method(cls, "set_particle_list"))))
    base_tree = ast.parse(read_src("BaseStorer.py"))
    base = _class(base_tree, "BaseStorer")
    base_methods = []
    for n in base.body:
        if isinstance(n, ast.FunctionDef) and not n.name.startswith("_"):
            w = wrapper(n)
            if w is not None and w != "notimpl":
                base_methods.append((n.name,) + w + (False,))
    if not base_methods:
        raise Untranslatable("no filter methods found in BaseStorer")
    regions.append(dict(file="BaseStorer.py", region="filter method wrappers",
                        sha=hashlib.sha256(repr(base_methods).encode()).hexdigest()[:16]))
    regions.append(dict(file="BaseStorer.py", region=f"BaseStorer.{UPDATE} (hand-modelled recount, tie C)",
                        sha=sha(_method(base, UPDATE))))
    base_names = {m[0] for m in base_methods}
    storers = {}
    for tag, rel, cname in STORERS:
        tree = ast.parse(read_src(rel))
        cls = _class(tree, cname)
        notimpl, overrides = [], []
        for n in cls.body:
            if isinstance(n, ast.FunctionDef) and not n.name.startswith("_"):
                w = wrapper(n)
                if w == "notimpl":
                    if n.name in base_names:
                        notimpl.append(n.name)
                elif w is not None:
                    overrides.append((n.name,) + w + (False,))
                elif n.name in base_names:
                    dg = delegating(cls, n)
                    if dg is None:
                        raise Untranslatable(f"{cname}.{n.name} overrides a filter method with an unknown shape")
                    params, rs = dg
                    b = next(m for m in base_methods if m[0] == n.name)
                    if len(b[2]) != len(params):
                        raise Untranslatable(f"{cname}.{n.name}: parameters differ from BaseStorer.{n.name}")
                    ren = dict(zip(b[2], params))
                    if any(p not in ren for p in b[3]):
                        raise Untranslatable(f"BaseStorer.{n.name} passes something that is not a parameter")
                    overrides.append((n.name, b[1], params, [ren[p] for p in b[3]], b[4], rs, True))
        storers[tag] = dict(notimpl=notimpl, overrides=overrides)
        regions.append(dict(file=rel, region=f"{cname} filter-method overrides",
                            sha=hashlib.sha256(repr((notimpl, overrides)).encode()).hexdigest()[:16]))
    return tables, base_methods, storers, regions


def _lean_list(items):
    return "[" + ", ".join(items) + "]"


def _method_term(m):
    name, fn, params, passed, recount, rs, dg = m
    return ("{ name := %s, fn := %s, params := %s, passed := %s, recount := %s, returnsSelf := %s, delegates := %s }"
            % (lstr(name), lstr(fn), _lean_list([lstr(p) for p in params]), _lean_list([lstr(p) for p in passed]),
               "true" if recount else "false", "true" if rs else "false", "true" if dg else "false"))


def render(read_src):
    tables, base_methods, storers, regions = extract(read_src)
    L = ["-- GENERATED by harness/translate/dispatch.py from src/sparkx/loader/{OscarLoader,JetscapeLoader,ParticleObjectLoader}.py,",
         "-- BaseStorer.py, Oscar.py, Jetscape.py, ParticleObjectStorer.py -- do not edit",
         "", "namespace SparkxVerif.Gen.Dispatch", "",
         "/-- how a branch of `__apply_kwargs_filters` uses the dictionary value -/",
         "inductive Mode | switch | value | unpack (checksList : Bool)",
         "deriving DecidableEq, Repr", "",
         "structure CtorEntry where",
         "  key : String      -- `i == \"<key>\"`",
         "  valKey : String   -- `filters_dict[\"<valKey>\"]` consulted in the branch",
         "  fn : String       -- Filter function called",
         "  mode : Mode",
         "deriving DecidableEq, Repr", "",
         "structure CtorTable where",
         "  entries : List CtorEntry",
         "  elseRaises : Option String   -- exception class raised by the final `else`",
         "  emptyReturns : Bool          -- non-dict / empty dict returns the event unchanged",
         "  callSites : Nat              -- uses `self.__apply_kwargs_filters([x], kwargs[\"filters\"])[0]`",
         "deriving Repr", "",
         "structure MethodEntry where",
         "  name : String",
         "  fn : String",
         "  params : List String   -- parameters of the method (without self)",
         "  passed : List String   -- arguments handed to the Filter function after the particle list",
         "  recount : Bool         -- calls `_update_num_output_per_event_after_filter`",
         "  returnsSelf : Bool",
         "  delegates : Bool       -- override that calls `super().<same name>(<same parameters>)` once and otherwise only",
         "                         -- touches metadata: fn / passed / recount are those of the BaseStorer wrapper",
         "deriving DecidableEq, Repr", ""]
    for tag in ("oscar", "jetscape", "obj"):
        t = tables[tag]
        L.append(f"def {tag}Ctor : CtorTable :=")
        L.append("  { entries := [")
        rows = []
        for key, vk, fn, mode in t["entries"]:
            m = {"switch": ".switch", "value": ".value", "unpack true": ".unpack true", "unpack false": ".unpack false"}[mode]
            rows.append(f"      ⟨{lstr(key)}, {lstr(vk)}, {lstr(fn)}, {m}⟩")
        L.append(",\n".join(rows) + "],")
        er = "none" if t["else_raises"] is None else f"some {lstr(t['else_raises'])}"
        L.append(f"    elseRaises := {er}, emptyReturns := {'true' if t['empty_returns'] else 'false'}, "
                 f"callSites := {len(t['sites'])} }}")
        L.append("")
    L.append("def baseMethods : List MethodEntry := [")
    L.append(",\n".join("  " + _method_term(m) for m in base_methods) + "]")
    L.append("")
    for tag in ("oscar", "jetscape", "obj"):
        s = storers[tag]
        L.append(f"def {tag}NotImpl : List String := {_lean_list([lstr(n) for n in s['notimpl']])}")
        L.append(f"def {tag}Overrides : List MethodEntry := [" + ",\n".join("  " + _method_term(m) for m in s["overrides"]) + "]")
        L.append("")
    L.append("end SparkxVerif.Gen.Dispatch")
    return "\n".join(L) + "\n", regions
