"""Tie T for C12: src/sparkx/flow/*.py -> Gen/FlowSelectors.lean.

Extracted on every run from the tree under test, for the six estimators
(ReactionPlaneFlow, EventPlaneFlow, ScalarProductFlow, QCumulantFlow, LeeYangZeroFlow, PCAFlow):

  * every keyword parameter (parameter with a default) of `__init__`, `integrated_flow`,
    `differential_flow`, its default literal, and for every `raise` of that function whose guard
    mentions the parameter the path condition under which the `raise` is reached;
  * the selector sites: the list in `flow_as_function_of not in [...]` (and `weight not in [...]`)
    together with the `== "<name>"` dispatch chain that later interprets the string
    (`val = particle.pT_abs()` ...), in source order.

Anything outside the small fragment raises Untranslatable ("tie T broken"), never skipped silently,
as soon as it concerns a parameter with a default or a selector.
"""
import ast
from fractions import Fraction

from . import pyexpr
from .pyexpr import Untranslatable

CLASSES = [
    ("ReactionPlaneFlow.py", "ReactionPlaneFlow"),
    ("EventPlaneFlow.py", "EventPlaneFlow"),
    ("ScalarProductFlow.py", "ScalarProductFlow"),
    ("QCumulantFlow.py", "QCumulantFlow"),
    ("LeeYangZeroFlow.py", "LeeYangZeroFlow"),
    ("PCAFlow.py", "PCAFlow"),
]
FUNCS = ["__init__", "integrated_flow", "differential_flow"]
WEIGHT_CLASSES = {"EventPlaneFlow", "ScalarProductFlow"}


# ------------------------------------------------------------------ Lean rendering helpers
def lstr(s):
    if not all(32 <= ord(c) < 127 and c not in '"\\' for c in s):
        raise Untranslatable(f"string literal {s!r} outside printable ASCII")
    return '"' + s + '"'


def pyval(node):
    """ast literal -> Lean PyVal term"""
    if isinstance(node, ast.UnaryOp) and isinstance(node.op, ast.USub) and isinstance(node.operand, ast.Constant) \
            and isinstance(node.operand.value, (int, float)) and not isinstance(node.operand.value, bool):
        return pyval_of(-node.operand.value)
    if isinstance(node, ast.Constant):
        return pyval_of(node.value)
    raise Untranslatable("default / constant is not a literal: " + ast.dump(node)[:80])


def pyval_of(v):
    if v is None:
        return "PyVal.none"
    if isinstance(v, bool):
        return f"(PyVal.bool {'true' if v else 'false'})"
    if isinstance(v, int):
        return f"(PyVal.int ({v}))"
    if isinstance(v, float):
        if v != v or v in (float("inf"), float("-inf")):
            raise Untranslatable("non-finite float literal")
        f = Fraction(v)
        return f"(PyVal.float ({f.numerator}) {f.denominator})"
    if isinstance(v, str):
        return f"(PyVal.str {lstr(v)})"
    raise Untranslatable(f"literal {v!r}")


def names_in(node):
    out = set()
    for n in ast.walk(node):
        if isinstance(n, ast.Name):
            out.add(n.id)
        elif isinstance(n, ast.Attribute) and isinstance(n.value, ast.Name) and n.value.id == "self":
            out.add("self." + n.attr)
    return out


def type_names(node):
    if isinstance(node, ast.Tuple):
        out = []
        for e in node.elts:
            out += type_names(e)
        return out
    if isinstance(node, ast.Name):
        return [node.id]
    if isinstance(node, ast.Attribute):
        return [node.attr]
    raise Untranslatable("isinstance type " + ast.dump(node)[:60])


FLIP = {"<": ">", "<=": ">=", ">": "<", ">=": "<=", "==": "==", "!=": "!="}
OPS = {ast.Lt: "<", ast.LtE: "<=", ast.Gt: ">", ast.GtE: ">=", ast.Eq: "==", ast.NotEq: "!="}


def cond(node, p):
    """condition mentioning only parameter p -> list of Lean Cond terms (a conjunction)"""
    if isinstance(node, ast.BoolOp) and isinstance(node.op, ast.And):
        out = []
        for v in node.values:
            out += cond(v, p)
        return out
    if isinstance(node, ast.UnaryOp) and isinstance(node.op, ast.Not):
        inner = cond(node.operand, p)
        if len(inner) != 1:
            raise Untranslatable("`not` of a conjunction")
        return [f"(Cond.not {inner[0]})"]
    if isinstance(node, ast.Call) and isinstance(node.func, ast.Name) and node.func.id == "isinstance" \
            and len(node.args) == 2 and isinstance(node.args[0], ast.Name) and node.args[0].id == p:
        return ["(Cond.isInstance [" + ", ".join(lstr(t) for t in type_names(node.args[1])) + "])"]
    if isinstance(node, ast.Compare) and len(node.ops) == 1:
        op, l, r = node.ops[0], node.left, node.comparators[0]
        isp = lambda x: isinstance(x, ast.Name) and x.id == p  # noqa: E731
        if type(op) in OPS:
            if isp(l):
                return [f"(Cond.cmp {lstr(OPS[type(op)])} {pyval(r)})"]
            if isp(r):
                return [f"(Cond.cmp {lstr(FLIP[OPS[type(op)]])} {pyval(l)})"]
        if isinstance(op, (ast.In, ast.NotIn)) and isp(l) and isinstance(r, (ast.List, ast.Tuple)):
            t = "(Cond.isIn [" + ", ".join(pyval(e) for e in r.elts) + "])"
            return [t if isinstance(op, ast.In) else f"(Cond.not {t})"]
        if isinstance(op, (ast.Is, ast.IsNot)) and isp(l) and isinstance(r, ast.Constant) and r.value is None:
            return ["Cond.isNone" if isinstance(op, ast.Is) else "(Cond.not Cond.isNone)"]
    raise Untranslatable(f"condition on `{p}` outside the fragment: {ast.unparse(node)[:80]}")


def negate(c):
    return f"(Cond.not {c})"


# ------------------------------------------------------------------ raise paths
def raise_paths(stmts, path, out):
    """path = list of (ast test, positive?)"""
    for st in stmts:
        if isinstance(st, ast.Raise):
            out.append(list(path))
        elif isinstance(st, ast.If):
            neg = []
            for test, body in pyexpr.if_chain(st):
                if test is None:
                    raise_paths(body, path + neg, out)
                else:
                    raise_paths(body, path + neg + [(test, True)], out)
                    neg = neg + [(test, False)]
        elif isinstance(st, (ast.For, ast.While)):
            raise_paths(st.body, path, out)
            raise_paths(st.orelse, path, out)
        elif isinstance(st, ast.With):
            raise_paths(st.body, path, out)
        elif isinstance(st, ast.Try):
            raise_paths(st.body, path, out)
            for h in st.handlers:
                raise_paths(h.body, path, out)
            raise_paths(st.orelse, path, out)
            raise_paths(st.finalbody, path, out)
        # nested defs / classes: their raises belong to other calls


def defaults_of(f):
    a = f.args
    pos = a.posonlyargs + a.args
    out = []
    for arg, d in zip(pos[len(pos) - len(a.defaults):], a.defaults):
        out.append((arg.arg, d))
    for arg, d in zip(a.kwonlyargs, a.kw_defaults):
        if d is not None:
            out.append((arg.arg, d))
    return out


def params_of(cls_node, cname):
    res = []
    for fname in FUNCS:
        f = next((n for n in cls_node.body if isinstance(n, ast.FunctionDef) and n.name == fname), None)
        if f is None:
            if fname == "integrated_flow" or fname == "differential_flow":
                raise Untranslatable(f"{cname}.{fname} not found")
            continue
        dfl = defaults_of(f)
        if not dfl:
            continue
        paths = []
        raise_paths(f.body, [], paths)
        for p, dnode in dfl:
            lean_paths = []
            for path in paths:
                conds = []
                mentions = False
                for test, positive in path:
                    ns = names_in(test)
                    if p not in ns:
                        continue  # a guard on something else: assumed satisfiable (conservative)
                    others = {n for n in ns if n != p and n not in ("isinstance", "int", "float", "str", "bool",
                                                                    "list", "tuple", "np", "None")}
                    if others:
                        # a relation between this parameter and something else cannot be decided from the default alone
                        raise Untranslatable(f"{cname}.{fname}: guard relates `{p}` to {sorted(others)}: "
                                             f"{ast.unparse(test)[:80]}")
                    mentions = True
                    cs = cond(test, p)
                    if positive:
                        conds += cs
                    else:
                        if len(cs) != 1:
                            raise Untranslatable("negated conjunction in an elif chain")
                        conds.append(negate(cs[0]))
                if mentions:
                    lean_paths.append("[" + ", ".join(conds) + "]")
            res.append(dict(func=fname, name=p, default=pyval(dnode), raises=lean_paths,
                            default_src=ast.unparse(dnode)))
    return res


# ------------------------------------------------------------------ selector sites
def attr_of(expr):
    def method(e):
        if isinstance(e, ast.Call) and not e.args and not e.keywords and isinstance(e.func, ast.Attribute) \
                and isinstance(e.func.value, ast.Name):
            return e.func.attr
        return None
    m = method(expr)
    if m == "pT_abs":
        return "Attr.pT"
    if m == "rapidity":
        return "Attr.y"
    if m == "pseudorapidity":
        return "Attr.eta"
    if isinstance(expr, ast.BinOp) and isinstance(expr.op, ast.Pow) and method(expr.left) == "pT_abs":
        e = expr.right
        if isinstance(e, ast.Constant) and isinstance(e.value, (int, float)) and not isinstance(e.value, bool) \
                and e.value == int(e.value) and e.value >= 0:
            return f"(Attr.pTpow {int(e.value)})"
        if isinstance(e, ast.Attribute) and isinstance(e.value, ast.Name) and e.value.id == "self" and e.attr == "n_":
            return "Attr.pTpowN"
    raise Untranslatable("dispatch branch assigns something unknown: " + ast.unparse(expr)[:80])


def is_sel_test(test, var):
    """`<var> == "<str>"` where var is a Name or `self.<attr>`; returns the string or None"""
    if not (isinstance(test, ast.Compare) and len(test.ops) == 1 and isinstance(test.ops[0], ast.Eq)):
        return None
    l, r = test.left, test.comparators[0]
    if var.startswith("self."):
        okl = isinstance(l, ast.Attribute) and isinstance(l.value, ast.Name) and l.value.id == "self" \
            and l.attr == var[5:]
    else:
        okl = isinstance(l, ast.Name) and l.id == var
    if okl and isinstance(r, ast.Constant) and isinstance(r.value, str):
        return r.value
    return None


def chains(cls_node, var, target):
    """all if/elif chains in the class dispatching on `var == "<s>"`; each branch must be `target = <expr>`"""
    found = []
    inner = set()
    for node in ast.walk(cls_node):
        if isinstance(node, ast.If) and id(node) not in inner and is_sel_test(node.test, var) is not None:
            ch = []
            cur = node
            for test, body in pyexpr.if_chain(node):
                if test is None:
                    raise Untranslatable(f"dispatch on {var}: unexpected else branch")
                s = is_sel_test(test, var)
                if s is None:
                    raise Untranslatable(f"dispatch on {var}: mixed test {ast.unparse(test)[:60]}")
                if not (len(body) == 1 and isinstance(body[0], ast.Assign) and len(body[0].targets) == 1
                        and isinstance(body[0].targets[0], ast.Name) and body[0].targets[0].id == target):
                    raise Untranslatable(f"dispatch on {var} == {s!r}: branch is not `{target} = <expr>`")
                ch.append((s, attr_of(body[0].value)))
            # mark the nested elif-Ifs so that they are not taken as chains of their own
            while len(cur.orelse) == 1 and isinstance(cur.orelse[0], ast.If):
                cur = cur.orelse[0]
                inner.add(id(cur))
            found.append(ch)
    return found


def accepted_list(fnode, var):
    """the list of `<var> not in [...]` guarding a raise in fnode"""
    hits = []
    for node in ast.walk(fnode):
        if isinstance(node, ast.If):
            for test, body in pyexpr.if_chain(node):
                if test is not None and isinstance(test, ast.Compare) and len(test.ops) == 1 \
                        and isinstance(test.ops[0], ast.NotIn) and isinstance(test.left, ast.Name) \
                        and test.left.id == var and any(isinstance(b, ast.Raise) for b in body):
                    r = test.comparators[0]
                    if not isinstance(r, (ast.List, ast.Tuple)) or not all(
                            isinstance(e, ast.Constant) and isinstance(e.value, str) for e in r.elts):
                        raise Untranslatable(f"`{var} not in` something that is not a list of strings")
                    hits.append([e.value for e in r.elts])
    # the same If is visited once per chain position by ast.walk; de-duplicate
    uniq = []
    for h in hits:
        if h not in uniq:
            uniq.append(h)
    if len(uniq) != 1:
        raise Untranslatable(f"expected exactly one `{var} not in [...]` validation, found {len(uniq)}")
    return uniq[0]


def sites_of(cls_node, cname):
    out = []
    fd = next((n for n in cls_node.body if isinstance(n, ast.FunctionDef) and n.name == "differential_flow"), None)
    if fd is None:
        raise Untranslatable(f"{cname}.differential_flow not found")
    acc = accepted_list(fd, "flow_as_function_of")
    chs = chains(cls_node, "flow_as_function_of", "val")
    if not chs:
        raise Untranslatable(f"{cname}: no dispatch chain on flow_as_function_of")
    for i, ch in enumerate(chs):
        out.append(dict(cls=cname, what="flow_as_function_of" + ("" if i == 0 else f"#{i+1}"), accepted=acc, chain=ch))
    if cname in WEIGHT_CLASSES:
        fi = next((n for n in cls_node.body if isinstance(n, ast.FunctionDef) and n.name == "__init__"), None)
        acc = accepted_list(fi, "weight")
        chs = chains(cls_node, "self.weight_", "weight")
        if len(chs) != 1:
            raise Untranslatable(f"{cname}: expected one dispatch chain on self.weight_, found {len(chs)}")
        out.append(dict(cls=cname, what="weight", accepted=acc, chain=chs[0]))
    return out


# ------------------------------------------------------------------ driver
def extract(read_src):
    allp, alls, regions = {}, [], []
    for fname, cname in CLASSES:
        src = read_src("flow/" + fname)
        tree = ast.parse(src)
        cls = next((n for n in tree.body if isinstance(n, ast.ClassDef) and n.name == cname), None)
        if cls is None:
            raise Untranslatable(f"class {cname} not found in {fname}")
        allp[cname] = params_of(cls, cname)
        alls += sites_of(cls, cname)
        for f in cls.body:
            if isinstance(f, ast.FunctionDef) and f.name in FUNCS + ["_" + cname + "__compute_particle_weights",
                                                                     "__compute_particle_weights", "__update_event"]:
                regions.append(dict(file="flow/" + fname, region=f"{cname}.{f.name}", sha=pyexpr.src_hash(src, f)))
    return allp, alls, regions


def render(read_src):
    allp, alls, regions = extract(read_src)
    L = ["-- GENERATED by harness/translate/flowsel.py from src/sparkx/flow/*.py -- do not edit",
         "import SparkxVerif.Core.FlowSel", "", "namespace SparkxVerif.Gen.FlowSelectors",
         "open SparkxVerif.FlowSel", ""]
    for cname, ps in allp.items():
        L.append(f"/-- keyword parameters of `{cname}` with their defaults and the guards of the `raise`s that mention them -/")
        L.append(f"def params_{cname} : List Param := [")
        rows = []
        for p in ps:
            rows.append(f"  -- {p['func']}({p['name']} = {p['default_src']})\n"
                        f"  {{ func := {lstr(p['func'])}, name := {lstr(p['name'])}, default := {p['default']},\n"
                        f"    raises := [" + ",\n               ".join(p["raises"]) + "] }")
        L.append(",\n".join(rows) + "]")
        L.append("")
    for s in alls:
        nm = f"site_{s['cls']}_{s['what'].replace('#', '_')}"
        L.append(f"def {nm} : Site :=\n  {{ cls := {lstr(s['cls'])}, what := {lstr(s['what'])},\n"
                 f"    accepted := [" + ", ".join(lstr(a) for a in s["accepted"]) + "],\n"
                 f"    chain := [" + ", ".join(f"({lstr(k)}, {a})" for k, a in s["chain"]) + "] }")
    L.append("")
    L.append("def allParams : List (String × List Param) := [" +
             ", ".join(f"({lstr(c)}, params_{c})" for c in allp) + "]")
    L.append("/-- the `flow_as_function_of` sites of the six estimators -/")
    L.append("def selectorSites : List Site := [" + ", ".join(
        f"site_{s['cls']}_{s['what'].replace('#', '_')}" for s in alls if s["what"].startswith("flow_as")) + "]")
    L.append("/-- the `weight` sites (event-plane and scalar-product estimators) -/")
    L.append("def weightSites : List Site := [" + ", ".join(
        f"site_{s['cls']}_{s['what']}" for s in alls if s["what"] == "weight") + "]")
    L.append("")
    L.append("end SparkxVerif.Gen.FlowSelectors")
    return "\n".join(L) + "\n", regions, allp, alls
