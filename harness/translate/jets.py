"""Tie T for C20: src/sparkx/JetAnalysis.py -> Gen/Jets.lean.

Regenerated on every run from the tree under test (stdlib `ast` only).  A small typed symbolic executor
(forward, continuation passing) runs over the bodies of

  __initialize_and_check_parameters -> genNormalise
  create_fastjet_PseudoJets         -> genPseudoJets
  fill_associated_particles         -> genDeltaR, genFillLoop, genFill
  jet_hole_subtraction              -> genHoleLoop, genSubtract
  write_jet_output                  -> genJetCells, genPartCells, genRowLoop, genWriteJetOutput
  perform_jet_finding               -> genJetLoop, genEventLoop, genPerform
  read_jet_data                     -> genReadCols, genReadLoop, genRead

Fragment: assignments to locals / `self.<attr>`, `+=`, `if` (join of the assigned locals when both branches are
straight-line, duplicated continuation otherwise), `raise ValueError`, `for x in <list>` / `enumerate(<list>, start=k)`
(-> structural recursion; loop state = the locals assigned in the body that exist before the loop, canonical order by
type and role), `continue`, `return`, `with open(...)`, `list.append`, conditional expressions, `and`/`or`/`not`,
`is None` tests with narrowing (`Option`), `any(<generator over a 2-tuple>)`, comparisons (floats / extended floats
`float("inf")` / ints / status / charge / selection strings), `+ - * **k` on floats.
fastjet stays abstract: `fj.PseudoJet(a,b,c,d)` = `Mom.mk a b c d`; `.px() .py() .pz() .e()` its fields; `.perp()` =
`perp sqrt`; `.eta()` / `.delta_phi_to(jet)` of a particle only inside the `delta_r` expression (`fjEta`, `fjDphi`
parameters of `genDeltaR`; in the loop the value is the `delta_r` the model is handed per (jet, particle));
`sorted_by_pt(ClusterSequence(<all PseudoJets of the event>, JetDefinition(alg, jet_R_)).inclusive_jets(ptmin))` =
`fjJets ev ptmin`; `SelectorEtaRange(lo, hi)(jets)` = `fjSelectEta lo hi jets` (contracts of Core/Jets.lean).
Guards that are decided by the typing of the model's inputs (`isinstance(<2-tuple>, tuple)`, `len(<2-tuple>) != 2`,
`self.<initialised attr> is None`, the event-index range check for an index produced by `enumerate`) are folded;
`warnings.warn` / `print` are skipped.  Everything else raises `Untranslatable`: the region falls back to the
committed golden text (tie C only for that region, DESIGN 2.1 (i)).
"""
import ast
import copy
import re

from . import pyexpr
from .pyexpr import Untranslatable

CLS = "JetAnalysis"
FILE = "src/sparkx/JetAnalysis.py"

KEYWORDS = {
    "at", "axiom", "by", "class", "def", "do", "else", "end", "export", "extends", "fun", "from", "have", "if", "import",
    "in", "inductive", "instance", "let", "match", "mut", "namespace", "open", "private", "protected", "section", "show",
    "structure", "then", "theorem", "universe", "variable", "where", "with", "Type", "Prop", "Sort", "for", "return",
    "unless", "try", "catch", "finally", "this", "using", "deriving", "macro", "syntax", "local", "set_option", "nomatch",
    # names of the emitted text
    "sqrt", "P", "r", "raw", "R", "sel", "only", "hadrons", "file", "prior", "rows", "idx", "rest_", "e", "zero", "perp",
    "triples", "fjEta", "fjDphi", "jetEta", "fjJets", "fjSelectEta", "Mom", "Row", "Cell", "Ext", "Sel", "Mode", "FS",
    "Except", "Err", "List", "Nat", "Int", "Bool", "true", "false", "none", "some", "decide", "npow", "hadron_data",
    "event_hadrons", "jet", "holes", "event", "new_file", "associated_hadrons", "ev",
}


def U(msg, node=None):
    where = f" (line {node.lineno})" if node is not None and hasattr(node, "lineno") else ""
    return Untranslatable(msg + where)


def ind(lines, n=2):
    return [(" " * n) + l for l in lines]


def call_name(node):
    if isinstance(node, ast.Call):
        f = node.func
        if isinstance(f, ast.Name):
            return f.id
        if isinstance(f, ast.Attribute) and isinstance(f.value, ast.Name):
            return f"{f.value.id}.{f.attr}"
    return None


def self_attr(node):
    return isinstance(node, ast.Attribute) and isinstance(node.value, ast.Name) and node.value.id == "self"


def body_of(f):
    b = list(f.body)
    if b and isinstance(b[0], ast.Expr) and isinstance(b[0].value, ast.Constant) and isinstance(b[0].value.value, str):
        b = b[1:]
    return b


def atomic(tx):
    return re.fullmatch(r"[\w.α]+", tx) is not None


class V:
    """symbolic value: type tag, Lean text, extra facts"""

    def __init__(self, ty, tx=None, **kw):
        self.ty, self.tx, self.kw = ty, tx, kw

    def get(self, k, d=None):
        return self.kw.get(k, d)

    def with_(self, **kw):
        d = dict(self.kw)
        d.update(kw)
        return V(self.ty, self.tx, **d)

    def __repr__(self):
        return f"V({self.ty}, {self.tx}, {self.kw})"


LEAN_TY = {"F": "α", "X": "Ext α", "B": "Bool", "N": "Nat", "M": "Mom α", "FS": "FS α", "H": "Triple α",
           "J": "Jet α", "EV": "Event α", "ROW": "Row α", "RROW": "ρ", "P": "Part α", "SEL": "Sel"}


def lean_ty(ty):
    if ty.startswith("L:"):
        inner = lean_ty(ty[2:])
        return f"List ({inner})" if " " in inner else f"List {inner}"
    if ty not in LEAN_TY:
        raise U(f"no Lean type for a loop state of kind {ty}")
    return LEAN_TY[ty]


def join_ty(a, b):
    if a == b:
        return a
    if a.startswith("L:") and b.startswith("L:"):
        if a[2:] == "?":
            return b
        if b[2:] == "?":
            return a
        return "L:" + join_ty(a[2:], b[2:])
    raise U(f"a variable holds values of different kinds ({a} / {b})")


class Env:
    def __init__(self, vars_=None, narrow=None):
        self.vars = dict(vars_ or {})
        self.narrow = dict(narrow or {})

    def copy(self):
        return Env(self.vars, self.narrow)

    def set(self, name, v):
        self.vars[name] = v
        key = f"id='{name}'" if not name.startswith("self.") else f"attr='{name[5:]}'"
        for k in [k for k in self.narrow if key in k]:
            del self.narrow[k]


CMPS = {ast.Lt: "<", ast.LtE: "≤", ast.Gt: ">", ast.GtE: "≥", ast.Eq: "=", ast.NotEq: "≠"}
PYCMP = {ast.Lt: lambda a, b: a < b, ast.LtE: lambda a, b: a <= b, ast.Gt: lambda a, b: a > b,
         ast.GtE: lambda a, b: a >= b, ast.Eq: lambda a, b: a == b, ast.NotEq: lambda a, b: a != b}
MOM_FIELD = {"px": "px", "py": "py", "pz": "pz", "E": "e", "e": "e"}


def const_b(b):
    return V("B", "true" if b else "false", const=bool(b))


class Tr:
    """translation of one method"""

    def __init__(self, source, cls_fns, fn, kind):
        self.source, self.fns, self.fn, self.kind = source, cls_fns, fn, kind
        self.monadic = False
        self.counter = {}
        self.used = set(KEYWORDS)
        self.defs = []          # emitted auxiliary definitions (loops, tables), in order
        self.defnames = {}
        self.nolet = 0
        self.loopstack = []     # (elem lean name, idx lean name | None, elem type)
        self.ctx = []           # [(lean name, lean type)] function-level context available to loops
        self.loopspecs = []     # [(def name, doc)] consumed in order of appearance
        self.loops_seen = 0
        self.shape = []         # [(def name, carried types, ctx names)]
        self.dr = None          # text of the delta_r expression
        self.tables = {}
        self.readcols = None
        self.k_return = None
        self.k_continue = None
        self.folded = []        # guards decided by the input typing
        self.sqrt_ok = False

    # ------------------------------------------------------------------ names
    def fresh(self, p):
        while True:
            self.counter[p] = self.counter.get(p, 0) + 1
            n = f"{p}{self.counter[p]}"
            if n not in self.used:
                self.used.add(n)
                return n

    def lname(self, py):
        s = "".join(ch if (ch.isalnum() or ch == "_") else "_" for ch in py.replace("self.", "self_").replace("$", ""))
        if not s or s[0].isdigit():
            s = "v_" + s
        if s in KEYWORDS or s.startswith("gen") or re.fullmatch(r"[xbvsr]\d+", s):
            s += "_"
        return s

    def save(self):
        return (dict(self.counter), set(self.used), list(self.defs), dict(self.defnames), self.loops_seen, list(self.shape),
                self.dr, dict(self.tables), self.readcols, list(self.folded))

    def restore(self, s):
        (self.counter, self.used, self.defs, self.defnames, self.loops_seen, self.shape, self.dr, self.tables,
         self.readcols, self.folded) = (dict(s[0]), set(s[1]), list(s[2]), dict(s[3]), s[4], list(s[5]), s[6], dict(s[7]),
                                        s[8], list(s[9]))

    # ------------------------------------------------------------------ coercions
    def lit_F(self, val, node=None):
        if isinstance(val, bool) or not isinstance(val, (int, float)):
            raise U(f"literal {val!r} is not a number", node)
        if val != val or val in (float("inf"), float("-inf")):
            raise U("non-finite literal", node)
        if val == int(val) and 0 <= val < 2 ** 53:
            return f"(({int(val)} : Nat) : α)"
        raise U(f"literal {val!r} needs negation / division, which the model's carrier does not have", node)

    def as_F(self, v, node=None):
        if v.ty == "F":
            return v.tx
        if v.ty == "LIT":
            return self.lit_F(v.get("val"), node)
        if v.ty == "FJS":
            fn, m = v.get("fn"), v.get("mom")
            if fn == "perp" and v.get("src") == "M":
                if not self.sqrt_ok:
                    raise U("perp() of a PseudoJet used as a number outside write_jet_output", node)
                return f"(perp sqrt {m})"
            if fn == "perp" and v.get("src") == "J":
                return f"{v.get('jet')}.pt"
            if fn == "eta" and v.get("src") == "J":
                return f"{v.get('jet')}.eta"
            raise U(f"fastjet {fn}() of this object is not a number of the model", node)
        raise U(f"a {v.ty} value is used as a float", node)

    def is_dr(self, v):
        return bool(v.get("dr"))

    def merge_dr(self, a, b, node=None):
        x, y = a.get("dr"), b.get("dr")
        if x and y and x != "*" and y != "*" and x != y:
            raise U("delta_r mixes two particles", node)
        return x if (x and x != "*") else (y or x)

    def as_X(self, v, node=None):
        if v.ty == "X":
            return v.tx
        return f"(Ext.fin {self.as_F(v, node)})"

    def as_B(self, v, node=None):
        if v.ty == "B":
            if v.get("opaque"):
                raise U("a test on the fastjet algorithm is used as a value of the model", node)
            if v.tx is None:
                scr, _key, none_true, _nty = v.get("match")
                return f"(match {scr} with | none => {'true' if none_true else 'false'} | some _ => {'false' if none_true else 'true'})"
            return v.tx
        if v.ty.startswith("L:"):
            return f"(!{self.atom(v.tx)}.isEmpty)"
        raise U(f"a {v.ty} value is used as a truth value", node)

    def atom(self, tx):
        return tx if atomic(tx) or tx == "[]" or (tx.startswith("(") and tx.endswith(")")) else f"({tx})"

    def as_N(self, v, node=None):
        if v.ty == "N":
            return v.tx
        if v.ty == "LIT" and isinstance(v.get("val"), int) and not isinstance(v.get("val"), bool) and v.get("val") >= 0:
            return str(v.get("val"))
        if v.ty == "CONV" and v.get("conv") == "int" and v.get("col") == 0:
            return f"(idx {v.get('row')})"
        raise U(f"a {v.ty} value is used as a natural number (index / counter)", node)

    def as_mode(self, v, node=None):
        if v.ty == "MODE":
            return v.tx
        if v.ty == "STR" and v.get("val") in ("w", "a"):
            return "Mode." + v.get("val")
        raise U("file mode other than 'w' / 'a'", node)

    def as_sel(self, v, node=None):
        if v.ty == "SEL":
            return v.tx
        if v.ty == "STR" and v.get("val") in ("negative", "positive"):
            return "Sel." + v.get("val")
        raise U("status selection other than 'negative' / 'positive'", node)

    def as_cell(self, v, node=None):
        if v.ty == "LIT" or v.ty == "N":
            return f"Cell.nat {self.atom(self.as_N(v, node))}"
        if v.ty == "FJS" and v.get("src") == "M" and v.get("fn") in ("perp", "eta", "phi"):
            return f"Cell.{v.get('fn')} {self.atom(v.get('mom'))}"
        if v.ty == "F" and not self.is_dr(v):
            return f"Cell.val {self.atom(v.tx)}"
        if v.ty == "OSTATUS":
            return f"Cell.status {self.atom(v.tx)}"
        if v.ty == "PDG":
            return f"Cell.pdg {self.atom(v.tx)}"
        raise U(f"a {v.ty} value is written into a CSV cell", node)

    # ------------------------------------------------------------------ expressions
    def ev(self, node, env):
        key = ast.dump(node)
        if key in env.narrow:
            return env.narrow[key]
        m = getattr(self, "ev_" + type(node).__name__, None)
        if m is None:
            raise U("expression outside the fragment: " + ast.dump(node)[:80], node)
        return m(node, env)

    def ev_Constant(self, node, env):
        v = node.value
        if v is None:
            return V("NONE")
        if isinstance(v, bool):
            return const_b(v)
        if isinstance(v, (int, float)):
            return V("LIT", val=v)
        if isinstance(v, str):
            return V("STR", val=v)
        raise U(f"literal {v!r}", node)

    def ev_Name(self, node, env):
        if node.id not in env.vars:
            raise U(f"name `{node.id}` is not defined in the fragment", node)
        return env.vars[node.id]

    def ev_Attribute(self, node, env):
        if self_attr(node):
            k = "self." + node.attr
            if k not in env.vars:
                raise U(f"self.{node.attr} is not known here", node)
            return env.vars[k]
        if isinstance(node.value, ast.Name) and node.value.id == "fj":
            return V("FJCONST", val=node.attr)
        base = self.ev(node.value, env)
        a = node.attr
        if base.ty in ("H", "P"):
            part = f"{base.tx}.2.1" if base.ty == "H" else base.tx
            if a in MOM_FIELD:
                return V("F", f"{part}.mom.{MOM_FIELD[a]}", comp=MOM_FIELD[a], of=base.tx if base.ty == "H" else None)
            if a == "status":
                return V("OSTATUS", f"{part}.status")
            if a == "charge":
                return V("CHARGE", f"{part}.charged")
            if a == "pdg" and base.ty == "H":
                return V("PDG", f"{base.tx}.1")
            raise U(f"particle attribute `{a}` is not part of the model", node)
        raise U(f"attribute `{a}` of a {base.ty} value", node)

    def ev_Subscript(self, node, env):
        base = self.ev(node.value, env)
        sl = node.slice
        if base.ty == "TUP":
            if not (isinstance(sl, ast.Constant) and isinstance(sl.value, int) and not isinstance(sl.value, bool)):
                raise U("tuple index is not an integer literal", node)
            items = base.get("items")
            if not -len(items) <= sl.value < len(items):
                raise U("tuple index out of range", node)
            return items[sl.value]
        if base.ty == "RROW":
            if not (isinstance(sl, ast.Constant) and isinstance(sl.value, int) and not isinstance(sl.value, bool) and sl.value >= 0):
                raise U("CSV column index is not a natural literal", node)
            return V("RCOL", col=sl.value, row=base.tx)
        if base.ty == "EVS":
            i = self.ev(sl, env)
            if i.ty == "N" and i.get("inrange"):
                if i.get("hadrons"):
                    return V("L:H", i.get("hadrons"))
                raise U("self.hadron_data_[event] outside fill_associated_particles", node)
            raise U("event list indexed by something that is not the event index", node)
        raise U(f"subscript of a {base.ty} value", node)

    def ev_Tuple(self, node, env):
        return V("TUP", items=[self.ev(e, env) for e in node.elts])

    def ev_List(self, node, env):
        if not node.elts:
            return V("L:?", "[]")
        vs = [self.ev(e, env) for e in node.elts]
        if all(v.ty == "ROW" for v in vs):
            return V("L:ROW", "[" + ", ".join(v.tx for v in vs) + "]")
        if all(v.ty == "CONV" for v in vs):
            rows = {v.get("row") for v in vs}
            if len(rows) != 1:
                raise U("converted row mixes columns of different rows", node)
            cols = [(v.get("conv"), v.get("col")) for v in vs]
            if self.readcols is not None and self.readcols != cols:
                raise U("two different row conversions", node)
            self.readcols = cols
            return V("RROW", rows.pop(), converted=True)
        if len(vs) == 8:
            return self.make_row(vs, node)
        raise U("list literal outside the fragment", node)

    def make_row(self, vs, node):
        cells = [self.as_cell(v, node) for v in vs]
        ev = self.as_N(vs[7], node)
        if vs[5].ty == "PDG":
            i = self.as_N(vs[0], node)
            tx = f"(Row.part {self.atom(i)} {vs[5].tx} {self.atom(ev)})"
            kind = "part"
        else:
            if not (vs[1].ty == "FJS" and vs[1].get("src") == "M"):
                raise U("second column of the jet line is not the perp() of a PseudoJet", node)
            tx = f"(Row.jet {self.atom(ev)} {self.atom(vs[1].get('mom'))})"
            kind = "jet"
        loop = self.loopstack[-1] if self.loopstack else None
        if kind == "part" and (loop is None or loop[1] is None):
            raise U("particle line built outside an enumerate loop", node)
        rec = (cells, (loop[0], loop[1]) if kind == "part" else None)
        if kind in self.tables and self.tables[kind] != rec:
            raise U(f"two different layouts of the {kind} line", node)
        self.tables[kind] = rec
        return V("ROW", tx)

    def ev_UnaryOp(self, node, env):
        if isinstance(node.op, ast.Not):
            v = self.ev(node.operand, env)
            return self.negate(v, node)
        if isinstance(node.op, ast.UAdd):
            return self.ev(node.operand, env)
        if isinstance(node.op, ast.USub):
            v = self.ev(node.operand, env)
            if v.ty == "LIT":
                return V("LIT", val=-v.get("val"))
        raise U("unary operator outside the fragment", node)

    def negate(self, v, node=None):
        if v.ty != "B":
            v = V("B", self.as_B(v, node))
        if v.get("const") is not None:
            return const_b(not v.get("const"))
        if v.get("opaque"):
            return v
        if v.get("match"):
            scr, key, none_true, nty = v.get("match")
            return V("B", None, match=(scr, key, not none_true, nty))
        return V("B", f"(!{self.atom(v.tx)})")

    def ev_BinOp(self, node, env):
        a, b = self.ev(node.left, env), self.ev(node.right, env)
        op = type(node.op)
        if a.ty == "LIT" and b.ty == "LIT":
            try:
                val = {ast.Add: lambda x, y: x + y, ast.Sub: lambda x, y: x - y, ast.Mult: lambda x, y: x * y,
                       ast.Pow: lambda x, y: x ** y}[op](a.get("val"), b.get("val"))
            except Exception:
                raise U("constant folding failed", node)
            return V("LIT", val=val)
        if a.ty == "N" and op is ast.Add and b.ty == "LIT":
            return V("N", f"({a.tx} + {self.as_N(b, node)})")
        dr = self.merge_dr(a, b, node)
        if op is ast.Pow:
            if not (b.ty == "LIT" and b.get("val") == int(b.get("val")) and 0 <= b.get("val") <= 8):
                raise U("exponent is not a small natural literal", node)
            return V("F", f"(npow {self.atom(self.as_F(a, node))} {int(b.get('val'))})", dr=dr)
        if op in (ast.Add, ast.Sub, ast.Mult):
            s = {ast.Add: "+", ast.Sub: "-", ast.Mult: "*"}[op]
            return V("F", f"({self.as_F(a, node)} {s} {self.as_F(b, node)})", dr=dr)
        raise U("arithmetic operator outside the fragment (the model's carrier has + - * only)", node)

    def ev_IfExp(self, node, env):
        c = self.ev(node.test, env)
        if c.ty != "B":
            c = V("B", self.as_B(c, node))
        if c.get("const") is not None:
            return self.ev(node.body if c.get("const") else node.orelse, env)
        if c.get("opaque"):
            raise U("conditional expression on the fastjet algorithm", node)
        if c.get("match"):
            scr, key, none_true, nty = c.get("match")
            x = self.fresh("x")
            e_some = env.copy()
            e_some.narrow[key] = V(nty, x)
            e_none = env.copy()
            a = self.ev(node.body, e_none if none_true else e_some)
            b = self.ev(node.orelse, e_some if none_true else e_none)
            ta, tb, ty = self.unify(a, b, node)
            tn, ts = (ta, tb) if none_true else (tb, ta)
            return V(ty, f"(match {scr} with | none => {tn} | some {x} => {ts})")
        a, b = self.ev(node.body, env), self.ev(node.orelse, env)
        ta, tb, ty = self.unify(a, b, node)
        return V(ty, f"(if {c.tx} then {ta} else {tb})")

    def unify(self, a, b, node=None):
        """texts of two values at a common type"""
        if a.ty == "STR" and b.ty == "STR" or "MODE" in (a.ty, b.ty):
            return self.as_mode(a, node), self.as_mode(b, node), "MODE"
        if a.ty == "B" and b.ty == "B":
            return self.as_B(a, node), self.as_B(b, node), "B"
        if "X" in (a.ty, b.ty):
            return self.as_X(a, node), self.as_X(b, node), "X"
        if a.ty in ("F", "LIT", "FJS") and b.ty in ("F", "LIT", "FJS"):
            return self.as_F(a, node), self.as_F(b, node), "F"
        if a.ty == b.ty and a.ty in ("N", "M", "ROW", "FS", "SEL") or (a.ty.startswith("L:") and b.ty.startswith("L:")):
            return a.tx, b.tx, join_ty(a.ty, b.ty)
        if {a.ty, b.ty} == {"N", "LIT"}:
            return self.as_N(a, node), self.as_N(b, node), "N"
        raise U(f"the two branches give values of different kinds ({a.ty} / {b.ty})", node)

    def ev_BoolOp(self, node, env):
        is_and = isinstance(node.op, ast.And)
        return self.boolop(list(node.values), env, is_and, node)

    def boolop(self, values, env, is_and, node):
        first = self.ev(values[0], env)
        if first.ty != "B":
            first = V("B", self.as_B(first, node))
        if len(values) == 1:
            return first
        c = first.get("const")
        if c is not None:
            if c == is_and:
                return self.boolop(values[1:], env, is_and, node)
            return first
        if first.get("match"):
            scr, key, none_true, nty = first.get("match")
            # `X is not None and REST` / `X is None or REST`: REST sees the narrowed value
            if none_true != is_and:
                x = self.fresh("x")
                e2 = env.copy()
                e2.narrow[key] = V(nty, x)
                rest = self.boolop(values[1:], e2, is_and, node)
                short = "false" if is_and else "true"
                return V("B", f"(match {scr} with | none => {short} | some {x} => {self.as_B(rest, node)})")
        rest = self.boolop(values[1:], env, is_and, node)
        if first.get("opaque") or rest.get("opaque"):
            return V("B", None, opaque=True)
        op = "&&" if is_and else "||"
        return V("B", f"({self.as_B(first, node)} {op} {self.as_B(rest, node)})")

    def ev_Compare(self, node, env):
        if len(node.ops) == 1:
            return self.compare(node.ops[0], self.ev(node.left, env), self.ev(node.comparators[0], env), node,
                                node.left, node.comparators[0])
        # chained comparison: conjunction
        nodes = [node.left] + list(node.comparators)
        vals = [self.ev(c, env) for c in nodes]
        parts = [self.compare(op, vals[i], vals[i + 1], node, nodes[i], nodes[i + 1]) for i, op in enumerate(node.ops)]
        out = None
        for p in parts:
            if p.get("const") is True:
                continue
            if p.get("const") is False:
                return const_b(False)
            out = p if out is None else V("B", f"({self.as_B(out, node)} && {self.as_B(p, node)})")
        return out if out is not None else const_b(True)

    def compare(self, op, a, b, node, na=None, nb=None):
        t = type(op)
        if t in (ast.Is, ast.IsNot):
            if b.ty != "NONE":
                a, b, na, nb = b, a, nb, na
            if b.ty != "NONE":
                raise U("`is` with something other than None", node)
            if a.ty == "OF":
                return V("B", None, match=(a.tx, ast.dump(na), t is ast.Is, "F"))
            if a.ty == "NONE":
                return const_b(t is ast.Is)
            if a.ty in ("EVS", "TUP", "F", "X", "L:RROW", "L:L:RROW"):
                self.folded.append(f"`{ast.get_source_segment(self.source, node)}` (decided by the typing of the model's inputs)")
                return const_b(t is ast.IsNot)
            raise U(f"None test of a {a.ty} value", node)
        if t not in CMPS:
            raise U("comparison operator outside the fragment", node)
        if a.ty == "LIT" and b.ty == "LIT":
            return const_b(PYCMP[t](a.get("val"), b.get("val")))
        sym = CMPS[t]
        if "ALG" in (a.ty, b.ty) and {a.ty, b.ty} <= {"ALG", "FJCONST"}:
            return V("B", None, opaque=True)
        if "SEL" in (a.ty, b.ty) and t in (ast.Eq, ast.NotEq):
            x, y = self.as_sel(a, node), self.as_sel(b, node)
            return V("B", f"({x} == {y})" if t is ast.Eq else f"({x} != {y})")
        if "CHARGE" in (a.ty, b.ty):
            c, o = (a, b) if a.ty == "CHARGE" else (b, a)
            if not (o.ty == "LIT" and o.get("val") == 0 and t in (ast.Eq, ast.NotEq)):
                raise U("charge is compared with something other than `== 0` / `!= 0`", node)
            return V("B", f"(!{c.tx})" if t is ast.Eq else c.tx)
        if a.ty in ("ISTAT", "OSTATUS") or b.ty in ("ISTAT", "OSTATUS"):
            flip = a.ty not in ("ISTAT", "OSTATUS")
            s, o = (b, a) if flip else (a, b)
            if not (o.ty == "LIT" and o.get("val") == int(o.get("val"))):
                raise U("status is compared with something other than an integer literal", node)
            k = int(o.get("val"))
            lit = f"({k} : Int)" if k >= 0 else f"(-{-k} : Int)"
            if s.ty == "ISTAT":
                return V("B", f"decide ({lit} {sym} {s.tx})" if flip else f"decide ({s.tx} {sym} {lit})")
            x = self.fresh("s")
            inner = f"decide ({lit} {sym} {x})" if flip else f"decide ({x} {sym} {lit})"
            return V("B", f"(match {s.tx} with | none => false | some {x} => {inner})")
        if a.ty == "N" or b.ty == "N" or "CONV" in (a.ty, b.ty) or "LEN" in (a.ty, b.ty):
            if "LEN" in (a.ty, b.ty):
                i, l, less = (a, b, t is ast.Lt) if b.ty == "LEN" else (b, a, t is ast.Gt)
                if i.ty == "N" and i.get("inrange") == l.get("of") and less:
                    return const_b(True)
                if i.ty == "N" and i.get("inrange") == l.get("of") and (t is ast.GtE if b.ty == "LEN" else t is ast.LtE):
                    return const_b(False)
                raise U("comparison with a length outside the fragment", node)
            if a.ty == "LIT" and a.get("val") == 0 and t is ast.LtE and b.ty == "N":
                return const_b(True)
            if b.ty == "LIT" and b.get("val") == 0 and t is ast.GtE and a.ty == "N":
                return const_b(True)
            if b.ty == "LIT" and b.get("val") == 0 and t is ast.Lt and a.ty == "N":
                return const_b(False)
            return V("B", f"decide ({self.as_N(a, node)} {sym} {self.as_N(b, node)})")
        if t in (ast.Eq, ast.NotEq):
            raise U("equality test of floats / other values", node)
        # floats / extended floats
        if self.is_dr(a) or self.is_dr(b):
            d, o, flip = (a, b, False) if self.is_dr(a) else (b, a, True)
            if not (o.ty == "F" and o.get("role") == "R") or self.is_dr(o):
                raise U("delta_r is compared with something other than the jet radius", node)
            self.register_dr(d, node)
            hd = self.loopstack[-1][0] if self.loopstack else None
            if hd is None or d.get("dr") != hd:
                raise U("delta_r of a particle other than the one of the enclosing loop", node)
            l, r_ = (o.tx, f"{hd}.2.2") if flip else (f"{hd}.2.2", o.tx)
            return V("B", f"decide ({l} {sym} {r_})")
        if "X" in (a.ty, b.ty):
            x, y = self.as_X(a, node), self.as_X(b, node)
            if t is ast.Lt:
                return V("B", f"(Ext.ltb {x} {y})")
            if t is ast.LtE:
                return V("B", f"(Ext.leb {x} {y})")
            if t is ast.Gt:
                return V("B", f"(Ext.ltb {y} {x})")
            return V("B", f"(Ext.leb {y} {x})")
        return V("B", f"decide ({self.as_F(a, node)} {sym} {self.as_F(b, node)})")

    def register_dr(self, d, node):
        if self.dr is not None and self.dr != d.tx:
            raise U("two different delta_r expressions", node)
        self.dr = d.tx

    def ev_ListComp(self, node, env):
        if len(node.generators) != 1:
            raise U("nested comprehension", node)
        g = node.generators[0]
        if g.ifs or g.is_async or not isinstance(g.target, ast.Name):
            raise U("comprehension with a condition / pattern target", node)
        it = self.ev(g.iter, env)
        if it.ty not in ("L:P",):
            raise U(f"comprehension over a {it.ty} value", node)
        x = self.lname(g.target.id)
        e2 = env.copy()
        e2.set(g.target.id, V(it.ty[2:], x))
        r = self.ev(node.elt, e2)
        if r.ty != "M":
            raise U("comprehension element outside the fragment", node)
        return V("L:M", f"({self.atom(it.tx)}.map (fun {x} => {r.tx}))")

    def ev_Call(self, node, env):
        cn = call_name(node)
        args, kws = node.args, node.keywords
        if cn == "float" and len(args) == 1 and not kws and isinstance(args[0], ast.Constant) and isinstance(args[0].value, str):
            s = args[0].value.strip().lower()
            if s in ("inf", "+inf", "infinity", "+infinity"):
                return V("X", "Ext.pinf")
            if s in ("-inf", "-infinity"):
                return V("X", "Ext.ninf")
            raise U("float() of a string other than an infinity", node)
        if cn in ("float", "int") and len(args) == 1 and not kws:
            a = self.ev(args[0], env)
            if a.ty == "RCOL":
                return V("CONV", conv=cn, col=a.get("col"), row=a.get("row"))
            raise U(f"{cn}() of a {a.ty} value", node)
        if cn == "len" and len(args) == 1 and not kws:
            a = self.ev(args[0], env)
            if a.ty == "TUP":
                self.folded.append(f"`{ast.get_source_segment(self.source, node)}` = {len(a.get('items'))}")
                return V("LIT", val=len(a.get("items")))
            if a.ty == "EVS":
                return V("LEN", of="self.hadron_data_")
            raise U(f"len() of a {a.ty} value", node)
        if cn == "isinstance" and len(args) == 2 and not kws:
            a = self.ev(args[0], env)
            if a.ty == "TUP" and isinstance(args[1], ast.Name) and args[1].id in ("tuple", "list"):
                self.folded.append(f"`{ast.get_source_segment(self.source, node)}` (decided by the typing of the model's inputs)")
                return const_b(args[1].id == "tuple")
            raise U("isinstance() outside the fragment", node)
        if cn in ("np.isnan", "math.isnan", "numpy.isnan") and len(args) == 1 and not kws:
            a = self.ev(args[0], env)
            if a.ty == "OSTATUS":
                return V("B", None, match=(a.tx, ast.dump(args[0]), True, "ISTAT"))
            if a.ty == "ISTAT":
                return const_b(False)
            raise U(f"isnan() of a {a.ty} value", node)
        if cn in ("np.sqrt", "math.sqrt", "numpy.sqrt") and len(args) == 1 and not kws:
            a = self.ev(args[0], env)
            if not self.is_dr(a):
                raise U("sqrt() outside the delta_r expression", node)
            return V("F", f"(sqrt {self.atom(self.as_F(a, node))})", dr=a.get("dr"))
        if cn == "fj.PseudoJet" and len(args) == 4 and not kws:
            fs = [self.ev(a, env) for a in args]
            ofs = {f.get("of") for f in fs}
            hadron = ofs.pop() if len(ofs) == 1 else None
            return V("M", "(Mom.mk " + " ".join(self.atom(self.as_F(f, node)) for f in fs) + ")", built=True, hadron=hadron)
        if cn == "fj.JetDefinition" and len(args) in (2, 3) and not kws:
            alg, R = self.ev(args[0], env), self.ev(args[1], env)
            if alg.ty != "ALG" or not (R.ty == "F" and R.get("role") == "R"):
                raise U("JetDefinition is not built from (jet_algorithm, self.jet_R_, ...)", node)
            return V("JD", key="jd")
        if cn == "fj.SelectorEtaRange" and len(args) == 2 and not kws:
            lo, hi = self.ev(args[0], env), self.ev(args[1], env)
            return V("SELR", lo=self.as_X(lo, node), hi=self.as_X(hi, node))
        if cn == "fj.ClusterSequence" and len(args) == 2 and not kws:
            pj, jd = self.ev(args[0], env), self.ev(args[1], env)
            if pj.ty != "PJS" or jd.ty != "JD":
                raise U("ClusterSequence is not built from (PseudoJets of the event, jet definition)", node)
            return V("CS", ev=pj.get("ev"))
        if cn == "fj.sorted_by_pt" and len(args) == 1 and not kws:
            a = self.ev(args[0], env)
            if a.ty != "RAWJ":
                raise U("sorted_by_pt of something other than inclusive_jets(...)", node)
            return V("L:J", f"(fjJets {a.get('ev')} {self.atom(a.get('ptmin'))})", ev=a.get("ev"))
        if cn == "any" and len(args) == 1 and not kws and isinstance(args[0], ast.GeneratorExp):
            return self.any_gen(args[0], env, node)
        if cn == "csv.reader" and len(args) == 1 and not kws:
            a = self.ev(args[0], env)
            if a.ty == "FH" and a.get("mode") == "r":
                return V("L:RROW", "rows")
            raise U("csv.reader of something other than the input file opened for reading", node)
        if cn == "csv.writer" and len(args) == 1 and not kws and isinstance(args[0], ast.Name):
            a = self.ev(args[0], env)
            if a.ty == "FH" and a.get("mode") != "r":
                return V("WR", fh=args[0].id)
            raise U("csv.writer of something other than the output file", node)
        f = node.func
        if isinstance(f, ast.Name) and f.id in env.vars and env.vars[f.id].ty == "SELR" and len(args) == 1 and not kws:
            s, a = env.vars[f.id], self.ev(args[0], env)
            if a.ty != "L:J":
                raise U("eta selector applied to jets that are not sorted by pT", node)
            return V("L:J", f"(fjSelectEta {self.atom(s.get('lo'))} {self.atom(s.get('hi'))} {a.tx})", ev=a.get("ev"))
        if isinstance(f, ast.Attribute) and self_attr(f):
            return self.pure_method(node, env)
        if isinstance(f, ast.Attribute):
            base = self.ev(f.value, env)
            return self.fj_method(base, f.attr, node, env)
        raise U("call outside the fragment: " + ast.dump(node)[:80], node)

    def any_gen(self, g, env, node):
        if len(g.generators) != 1:
            raise U("nested generator", node)
        c = g.generators[0]
        if c.ifs or not isinstance(c.target, ast.Name):
            raise U("generator with a condition / pattern target", node)
        it = self.ev(c.iter, env)
        if it.ty != "TUP" or not all(i.ty == "OF" for i in it.get("items")):
            raise U("any() over something other than a tuple of optional floats", node)
        x = self.lname(c.target.id)
        e2 = env.copy()
        e2.set(c.target.id, V("OF", x))
        body = self.ev(g.elt, e2)
        items = ", ".join(i.tx for i in it.get("items"))
        return V("B", f"([{items}].any (fun {x} => {self.as_B(body, node)}))")

    def fj_method(self, base, name, node, env):
        args = node.args
        if base.ty == "M":
            if name in ("px", "py", "pz", "e", "E") and not args:
                return V("F", f"{self.atom(base.tx)}.{MOM_FIELD.get(name, name)}")
            if name in ("perp", "pt", "eta", "phi") and not args:
                fn = "perp" if name == "pt" else name
                if base.get("hadron") and fn == "eta" and self.kind == "fill":
                    return V("F", f"(fjEta {base.tx})", dr=base.get("hadron"), uses="etaP")
                return V("FJS", fn=fn, src="M", mom=base.tx)
            if name == "delta_phi_to" and len(args) == 1 and base.get("hadron") and self.kind == "fill":
                j = self.ev(args[0], env)
                if j.ty != "JA":
                    raise U("delta_phi_to something other than the jet", node)
                return V("F", f"(fjDphi {base.tx})", dr=base.get("hadron"), uses="dphi")
            if name == "reset":
                raise U("reset() used as a value", node)
        if base.ty == "J":
            if name in ("px", "py", "pz", "e", "E") and not args:
                return V("F", f"{base.tx}.mom.{MOM_FIELD.get(name, name)}")
            if name in ("perp", "pt", "eta") and not args:
                return V("FJS", fn="perp" if name == "pt" else name, src="J", jet=base.tx)
        if base.ty == "JA":
            if name == "eta" and not args:
                return V("F", "jetEta", dr="*", uses="etaJ")
        if base.ty == "CS" and name == "inclusive_jets" and len(args) == 1:
            p = self.ev(args[0], env)
            return V("RAWJ", ev=base.get("ev"), ptmin=self.as_X(p, node))
        raise U(f"method `{name}` of a {base.ty} value", node)

    def pure_method(self, node, env):
        name = node.func.attr
        if name.endswith("create_fastjet_PseudoJets") and len(node.args) == 1 and not node.keywords:
            a = self.ev(node.args[0], env)
            if a.ty != "EV":
                raise U("create_fastjet_PseudoJets of something other than the event of the loop", node)
            return V("PJS", ev=a.tx)
        if name.endswith("jet_hole_subtraction"):
            b = self.bind_args(node, name)
            jet, holes = self.ev(b[0], env), self.ev(b[1], env)
            if holes.ty != "L:H":
                raise U("holes handed to jet_hole_subtraction are not a list of particles", node)
            mom = f"{jet.tx}.mom" if jet.ty == "J" else jet.tx if jet.ty == "M" else None
            if mom is None:
                raise U("jet handed to jet_hole_subtraction is not a jet", node)
            return V("M", f"(genSubtract {self.atom(mom)} {self.atom(holes.tx)})", subtracted_from=ast.dump(b[0]))
        raise U(f"method self.{name} used as a value", node)

    def bind_args(self, call, name):
        """argument nodes of a call of another method of the class, by position in its definition"""
        fdef = next((f for n, f in self.fns.items() if n == name or n == name.split("__")[-1] or name.endswith(n)), None)
        if fdef is None:
            raise U(f"method {name} not found", call)
        a = fdef.args
        if a.vararg or a.kwarg or a.kwonlyargs or a.posonlyargs:
            raise U("callee signature outside the fragment", call)
        params = [x.arg for x in a.args][1:]
        defaults = dict(zip(params[len(params) - len(a.defaults):], a.defaults))
        out = {}
        if len(call.args) > len(params):
            raise U("too many arguments", call)
        for i, x in enumerate(call.args):
            if isinstance(x, ast.Starred):
                raise U("starred argument", call)
            out[i] = x
        for kw in call.keywords:
            if kw.arg is None or kw.arg not in params or params.index(kw.arg) in out:
                raise U("keyword argument outside the fragment", call)
            out[params.index(kw.arg)] = kw.value
        for i, p in enumerate(params):
            if i not in out:
                if p not in defaults:
                    raise U(f"argument `{p}` missing", call)
                out[i] = defaults[p]
        return out

    # ------------------------------------------------------------------ statements
    def block(self, stmts, env, k):
        if not stmts:
            return k(env)
        return self.stmt(stmts[0], list(stmts[1:]), env, k)

    def simple(self, stmts):
        """straight-line code: an `if` over it is translated as a join of the assigned variables"""
        for st in stmts:
            if isinstance(st, ast.Pass):
                continue
            if isinstance(st, (ast.Assign, ast.AnnAssign, ast.AugAssign)):
                val = st.value
                if val is not None and isinstance(val, ast.Call) and isinstance(val.func, ast.Attribute) and self_attr(val.func) \
                        and not val.func.attr.endswith(("create_fastjet_PseudoJets", "jet_hole_subtraction")):
                    return False
                continue
            if isinstance(st, ast.Expr) and isinstance(st.value, ast.Call):
                cn = call_name(st.value)
                if cn in ("warnings.warn", "print") or (isinstance(st.value.func, ast.Attribute) and st.value.func.attr == "append"):
                    continue
                return False
            if isinstance(st, ast.Expr) and isinstance(st.value, ast.Constant):
                continue
            return False
        return True

    def bind_let(self, name, v, env):
        """assignment of a value to a Python name; non-atomic floats / extended floats become `let`s"""
        if self.nolet == 0 and v.ty in ("F", "X", "FS") and v.tx is not None and not atomic(v.tx) and not self.is_dr(v):
            x = self.fresh("v")
            env.set(name, V(v.ty, x, **v.kw))
            return [f"let {x} : {lean_ty(v.ty)} := {v.tx}"]
        env.set(name, v)
        return []

    def target_name(self, t):
        if isinstance(t, ast.Name):
            return t.id
        if self_attr(t):
            return "self." + t.attr
        raise U("assignment target outside the fragment", t)

    def stmt(self, st, rest, env, k):
        cont = lambda e: self.block(rest, e, k)  # noqa: E731
        if isinstance(st, ast.Pass) or (isinstance(st, ast.Expr) and isinstance(st.value, ast.Constant)):
            return cont(env)
        if isinstance(st, (ast.Assign, ast.AnnAssign)):
            if isinstance(st, ast.Assign):
                if len(st.targets) != 1:
                    raise U("multiple assignment", st)
                tgt, val = st.targets[0], st.value
            else:
                tgt, val = st.target, st.value
                if val is None:
                    return cont(env)
            name = self.target_name(tgt)
            if isinstance(val, ast.Call) and isinstance(val.func, ast.Attribute) and self_attr(val.func) \
                    and not val.func.attr.endswith(("create_fastjet_PseudoJets", "jet_hole_subtraction")):
                def after(e2, v):
                    pre = self.bind_let(name, v, e2)
                    return pre + cont(e2)
                return self.method_call(val, env, after)
            v = self.ev(val, env)
            if v.get("subtracted_from") is not None:
                if not (isinstance(tgt, ast.Name) and v.get("subtracted_from") == ast.dump(ast.Name(id=tgt.id, ctx=ast.Load()))):
                    raise U("jet_hole_subtraction changes its argument in place; the result must be bound to the same name", st)
                v = V("M", v.tx)
            if v.ty in ("FJS", "LIT", "RCOL", "CONV", "NONE", "STR", "PDG", "OSTATUS", "CHARGE", "ISTAT") or v.ty in \
                    ("TUP", "JD", "SELR", "PJS", "CS", "RAWJ", "WR", "FH", "EVS", "M", "J", "B", "N", "MODE", "SEL", "ROW", "RROW", "H", "F", "X") \
                    or v.ty.startswith("L:"):
                pre = self.bind_let(name, v, env)
                return pre + cont(env)
            raise U(f"assignment of a {v.ty} value", st)
        if isinstance(st, ast.AugAssign):
            name = self.target_name(st.target)
            if not isinstance(st.op, (ast.Add, ast.Sub, ast.Mult)):
                raise U("augmented assignment operator outside the fragment", st)
            v = self.ev(ast.BinOp(left=st.target, op=st.op, right=st.value), env)
            pre = self.bind_let(name, v, env)
            return pre + cont(env)
        if isinstance(st, ast.Expr) and isinstance(st.value, ast.Call):
            return self.call_stmt(st.value, st, env, cont)
        if isinstance(st, ast.If):
            return self.exec_if(st, rest, env, k)
        if isinstance(st, ast.For):
            return self.exec_for(st, rest, env, k)
        if isinstance(st, ast.With):
            return self.exec_with(st, rest, env, k)
        if isinstance(st, ast.Raise):
            exc = st.exc
            cn = call_name(exc) if isinstance(exc, ast.Call) else (exc.id if isinstance(exc, ast.Name) else None)
            if cn != "ValueError":
                raise U(f"raise {cn} on a path that the typing of the model's inputs does not exclude", st)
            if not self.monadic:
                raise U("raise in a method that the model treats as total", st)
            return [".error .value"]
        if isinstance(st, ast.Return):
            if self.k_return is None or self.loopstack:
                raise U("return outside the fragment", st)
            return self.k_return(env, None if st.value is None else self.ev(st.value, env))
        if isinstance(st, ast.Continue):
            if self.k_continue is None:
                raise U("continue outside a loop", st)
            return self.k_continue(env)
        raise U("statement outside the fragment: " + type(st).__name__, st)

    def call_stmt(self, call, st, env, cont):
        cn = call_name(call)
        if cn in ("warnings.warn", "print"):
            return cont(env)
        f = call.func
        if isinstance(f, ast.Attribute) and self_attr(f):
            return self.method_call(call, env, lambda e2, v: cont(e2))
        if isinstance(f, ast.Attribute) and isinstance(f.value, ast.Name) and f.value.id in env.vars:
            base = env.vars[f.value.id]
            if f.attr == "append" and base.ty.startswith("L:") and len(call.args) == 1 and not call.keywords:
                if base.get("escaped"):
                    raise U("a list is changed after it was stored in another list (aliasing)", st)
                x = self.ev(call.args[0], env)
                if isinstance(call.args[0], ast.Name) and x.ty.startswith("L:"):
                    env.vars[call.args[0].id] = x.with_(escaped=True)
                ety = x.ty
                if ety not in ("H", "ROW", "RROW") and not ety.startswith("L:"):
                    raise U(f"a {ety} value is appended to a list", st)
                nty = join_ty(base.ty, "L:" + ety)
                tx = f"[{x.tx}]" if base.tx == "[]" else f"({base.tx} ++ [{x.tx}])"
                env.set(f.value.id, V(nty, tx))
                return cont(env)
            if f.attr == "reset" and base.ty in ("M", "J") and len(call.args) == 4 and not call.keywords:
                fs = [self.as_F(self.ev(a, env), st) for a in call.args]
                env.set(f.value.id, V("M", "(Mom.mk " + " ".join(self.atom(x) for x in fs) + ")"))
                return cont(env)
            if f.attr in ("writerows", "writerow") and base.ty == "WR" and len(call.args) == 1 and not call.keywords:
                fh = base.get("fh")
                if env.vars.get("$pending:" + fh) is not None:
                    raise U("two writes through one open file", st)
                x = self.ev(call.args[0], env)
                if f.attr == "writerows":
                    if not x.ty.startswith("L:") or x.ty not in ("L:ROW", "L:?"):
                        raise U("writerows of something other than a list of output lines", st)
                    env.vars["$pending:" + fh] = V("L:ROW", x.tx)
                else:
                    if x.ty != "ROW":
                        raise U("writerow of something other than an output line", st)
                    env.vars["$pending:" + fh] = V("L:ROW", f"[{x.tx}]")
                return cont(env)
        raise U("call statement outside the fragment: " + ast.dump(call)[:80], st)

    # ---- if
    def exec_if(self, st, rest, env, k):
        c = self.ev(st.test, env)
        if c.ty != "B":
            c = V("B", self.as_B(c, st))
        if c.get("const") is not None:
            return self.block((list(st.body) if c.get("const") else list(st.orelse)) + rest, env, k)
        if c.get("match"):
            scr, key, none_true, nty = c.get("match")
            x = self.fresh("s" if nty == "ISTAT" else "x")
            e_none, e_some = env.copy(), env.copy()
            e_some.narrow[key] = V(nty, x)
            bn, bs = (st.body, st.orelse) if none_true else (st.orelse, st.body)
            ln = self.block(list(bn) + rest, e_none, k)
            ls = self.block(list(bs) + rest, e_some, k)
            return [f"match {scr} with", "| none =>"] + ind(ln) + [f"| some {x} =>"] + ind(ls)
        if self.simple(st.body) and self.simple(st.orelse):
            ea, eb = env.copy(), env.copy()
            self.nolet += 1
            try:
                self.block(list(st.body), ea, lambda e: [])
                self.block(list(st.orelse), eb, lambda e: [])
            finally:
                self.nolet -= 1
            pre = []
            for name in sorted(set(ea.vars) | set(eb.vars)):
                a, b = ea.vars.get(name), eb.vars.get(name)
                if a is env.vars.get(name) and b is env.vars.get(name):
                    continue
                if a is None or b is None:
                    # defined in one branch only: usable afterwards only on that path -> not in the fragment
                    env.vars.pop(name, None)
                    continue
                if c.get("opaque"):
                    if a.ty == b.ty and a.ty in ("JD",) and a.get("key") == b.get("key"):
                        env.set(name, a)
                        continue
                    raise U("the fastjet algorithm decides about a value of the model", st)
                if a.ty == "TUP" and b.ty == "TUP" and len(a.get("items")) == len(b.get("items")):
                    items = []
                    for x, y in zip(a.get("items"), b.get("items")):
                        tx, ty_, ty = self.unify(x, y, st)
                        items.append(V(ty, f"(if {c.tx} then {tx} else {ty_})"))
                    env.set(name, V("TUP", items=items))
                    continue
                ta, tb, ty = self.unify(a, b, st)
                pre += self.bind_let(name, V(ty, f"(if {c.tx} then {ta} else {tb})"), env)
            return pre + self.block(rest, env, k)
        if c.get("opaque"):
            raise U("the fastjet algorithm decides about the control flow of the model", st)
        la = self.block(list(st.body) + rest, env.copy(), k)
        lb = self.block(list(st.orelse) + rest, env.copy(), k)
        return [f"if {c.tx} then"] + ind(la) + ["else"] + ind(lb)

    # ---- with open(...)
    def exec_with(self, st, rest, env, k):
        if len(st.items) != 1:
            raise U("with over several context managers", st)
        item = st.items[0]
        call = item.context_expr
        if call_name(call) != "open" or not 2 <= len(call.args) <= 2 or any(kw.arg != "newline" for kw in call.keywords):
            raise U("with statement other than open(path, mode, newline=...)", st)
        path, mode = self.ev(call.args[0], env), self.ev(call.args[1], env)
        if path.ty != "PATH":
            raise U("file other than the method's file argument is opened", st)
        fhname = item.optional_vars.id if isinstance(item.optional_vars, ast.Name) else self.fresh("fh")
        if item.optional_vars is not None and not isinstance(item.optional_vars, ast.Name):
            raise U("with target outside the fragment", st)
        if mode.ty == "STR" and mode.get("val") == "r":
            if path.get("role") != "input":
                raise U("the output file is opened for reading", st)
            env.set(fhname, V("FH", mode="r"))
            return self.block(list(st.body) + rest, env, k)
        if path.get("role") != "output":
            raise U("the input file is opened for writing", st)
        m = self.as_mode(mode, st)
        for s_ in ast.walk(ast.Module(body=list(st.body), type_ignores=[])):
            if isinstance(s_, (ast.Return, ast.Raise, ast.Continue, ast.Break)):
                raise U("control flow leaves a file that is open for writing", st)
        env.set(fhname, V("FH", mode=m))
        env.vars["$pending:" + fhname] = None

        def close(e):
            rows = e.vars.pop("$pending:" + fhname, None)
            f0 = e.vars["$file"]
            pre = self.bind_let("$file", V("FS", f"(FS.writeRows {self.atom(f0.tx)} {self.atom(m)} {rows.tx if rows is not None else '[]'})"), e)
            e.vars.pop(fhname, None)
            return pre + self.block(rest, e, k)
        return self.block(list(st.body), env, close)

    # ---- calls of other methods of the class (monadic / effectful ones)
    def method_call(self, call, env, k2):
        name = call.func.attr
        b = self.bind_args(call, name)
        if name.endswith("initialize_and_check_parameters"):
            vs = [self.ev(b[i], env) for i in range(4)]
            if [v.get("role") for v in vs] != ["hadron_data", "jet_R", "jet_eta_range", "jet_pT_range"]:
                raise U("parameter check is not called with the method's own arguments in order", call)
            if not self.monadic or "self.jet_R_" in env.vars:
                raise U("parameter check called in an unexpected place", call)
            env.set("self.hadron_data_", V("EVS", "hadron_data"))
            env.set("self.jet_R_", V("F", "P.R", role="R"))
            env.set("self.jet_eta_range_", V("TUP", items=[V("X", "P.etaLo"), V("X", "P.etaHi")]))
            env.set("self.jet_pT_range_", V("TUP", items=[V("X", "P.ptLo"), V("X", "P.ptHi")]))
            env.set("$onlyCharged", V("B", "P.onlyCharged"))
            for n_, v in list(env.vars.items()):
                if v.get("role") == "assoc_only_charged":
                    env.vars[n_] = V("B", "P.onlyCharged", role="assoc_only_charged")
            self.ctx.append(("P", "Params α"))
            return ["match genNormalise raw with", "| .error e => .error e", "| .ok P =>"] + ind(k2(env, V("NONE")))
        if name.endswith("fill_associated_particles"):
            jet, event = self.ev(b[0], env), self.ev(b[1], env)
            sel, only = self.as_sel(self.ev(b[2], env), call), self.as_B(self.ev(b[3], env), call)
            if jet.ty != "J" or not (event.ty == "N" and event.get("inrange")) or jet.get("ev") != event.get("ev"):
                raise U("fill_associated_particles is not called with a clustered jet of the event and that event's index", call)
            R = env.vars.get("self.jet_R_")
            if R is None or not self.monadic:
                raise U("fill_associated_particles before the parameters are set", call)
            x = self.fresh("b")
            return [f"match genFill {self.atom(self.as_F(R, call))} {self.atom(sel)} {self.atom(only)} (triples {jet.get('ev')}.parts {jet.tx}.dr) with",
                    "| .error e => .error e", f"| .ok {x} =>"] + ind(k2(env, V("L:H", x)))
        if name.endswith("write_jet_output"):
            path, jet, assoc = self.ev(b[0], env), self.ev(b[1], env), self.ev(b[2], env)
            event, nf = self.as_N(self.ev(b[3], env), call), self.as_B(self.ev(b[4], env), call)
            if path.ty != "PATH" or path.get("role") != "output":
                raise U("write_jet_output writes to a file other than the method's output file", call)
            mom = jet.tx if jet.ty == "M" else f"{jet.tx}.mom" if jet.ty == "J" else None
            if mom is None or assoc.ty not in ("L:H", "L:?"):
                raise U("write_jet_output is not called with (jet, associated particles)", call)
            f0 = env.vars["$file"]
            fx, rx = self.fresh("file"), self.fresh("r")
            env.set("$file", V("FS", fx))
            return [f"match genWriteJetOutput sqrt P {self.atom(f0.tx)} {self.atom(mom)} {self.atom(assoc.tx)} {self.atom(event)} {self.atom(nf)} with",
                    f"| ({fx}, {rx}) =>"] + ind(k2(env, V("B", rx)))
        raise U(f"call of self.{name} outside the fragment", call)

    # ---- for loops -> structural recursion
    def assigned_in(self, stmts):
        out = []

        def add(n):
            if n not in out:
                out.append(n)
        for node in ast.walk(ast.Module(body=list(stmts), type_ignores=[])):
            if isinstance(node, ast.Assign):
                for t in node.targets:
                    if isinstance(t, ast.Name) or self_attr(t):
                        add(self.target_name(t))
            elif isinstance(node, (ast.AnnAssign, ast.AugAssign)):
                if isinstance(node.target, ast.Name) or self_attr(node.target):
                    add(self.target_name(node.target))
            elif isinstance(node, ast.Call) and isinstance(node.func, ast.Attribute):
                f = node.func
                if isinstance(f.value, ast.Name) and f.attr in ("append", "reset", "extend", "clear", "pop", "insert", "remove", "sort"):
                    add(f.value.id)
                if f.attr in ("writerows", "writerow") or (self_attr(f) and f.attr.endswith("write_jet_output")):
                    add("$file")
            elif isinstance(node, ast.With):
                add("$file")
        return out

    TYRANK = {"N": 0, "B": 1, "F": 2, "M": 3, "FS": 9}

    def exec_for(self, st, rest, env, k):
        if st.orelse:
            raise U("for ... else", st)
        it, idx_py, start = st.iter, None, 0
        if call_name(it) == "enumerate":
            if not it.args or len(it.args) > 2:
                raise U("enumerate() call outside the fragment", st)
            inner = it.args[0]
            sn = it.args[1] if len(it.args) == 2 else next((kw.value for kw in it.keywords if kw.arg == "start"), None)
            if any(kw.arg != "start" for kw in it.keywords) or (len(it.args) == 2 and it.keywords):
                raise U("enumerate() call outside the fragment", st)
            if sn is not None:
                if not (isinstance(sn, ast.Constant) and isinstance(sn.value, int) and not isinstance(sn.value, bool) and sn.value >= 0):
                    raise U("enumerate start is not a natural literal", st)
                start = sn.value
            if not (isinstance(st.target, ast.Tuple) and len(st.target.elts) == 2 and all(isinstance(e, ast.Name) for e in st.target.elts)):
                raise U("enumerate loop target outside the fragment", st)
            idx_py, elem_py = st.target.elts[0].id, st.target.elts[1].id
        else:
            inner = it
            if not isinstance(st.target, ast.Name):
                raise U("loop target outside the fragment", st)
            elem_py = st.target.id
        itv = self.ev(inner, env)
        if itv.ty == "EVS":
            elemty = "EV"
        elif itv.ty in ("L:H", "L:J", "L:RROW"):
            elemty = itv.ty[2:]
        else:
            raise U(f"loop over a {itv.ty} value", st)
        if self.loops_seen >= len(self.loopspecs):
            raise U("more loops than the method has in the fragment", st)
        name, doc = self.loopspecs[self.loops_seen]
        self.loops_seen += 1
        elem = self.lname(elem_py)
        idx = self.lname(idx_py) if idx_py else None
        for n_ in (elem, idx):
            if n_ is not None:
                if n_ in self.used and n_ not in KEYWORDS:
                    raise U(f"loop variable `{n_}` shadows another name", st)
                self.used.add(n_)
        carried = [n for n in self.assigned_in(st.body) if n in env.vars and n not in (elem_py, idx_py) and not n.startswith("$pending")]
        if not carried:
            raise U("loop without a state", st)
        types = {}
        for n in carried:
            t = env.vars[n].ty
            types[n] = "F" if t == "LIT" else t
        roles = {}

        def mk_env(pnames):
            e2 = env.copy()
            if elemty == "J":
                e2.set(elem_py, V("J", elem, ev=itv.get("ev")))
            else:
                e2.set(elem_py, V(elemty, elem))
            if idx_py:
                e2.set(idx_py, V("N", idx, inrange="self.hadron_data_" if (itv.ty == "EVS" and start == 0) else None, ev=elem))
            for n in carried:
                e2.set(n, V(types[n], pnames[n]))
            return e2

        pnames = {n: self.lname(n) for n in carried}
        saved_k = self.k_continue
        frame = (elem, idx, elemty, [(pnames[n], n) for n in carried])
        for _ in range(4):
            snap = self.save()
            seen = {}

            def kk(e):
                for n in carried:
                    seen[n] = join_ty(seen.get(n, types[n]), "F" if e.vars[n].ty == "LIT" else e.vars[n].ty)
                    if types[n] == "F" and e.vars[n].tx:
                        comps = set(re.findall(r"\.mom\.(px|py|pz|e)\b", e.vars[n].tx))
                        if len(comps) == 1:
                            roles[n] = ["px", "py", "pz", "e"].index(comps.pop())
                return ["_"]
            self.k_continue = kk
            self.loopstack.append(frame)
            self.nolet += 1
            try:
                self.block(list(st.body), mk_env(pnames), kk)
            finally:
                self.nolet -= 1
                self.loopstack.pop()
                self.k_continue = saved_k
                self.restore(snap)
                self.loops_seen = snap[4]
            new = {n: join_ty(types[n], seen.get(n, types[n])) for n in carried}
            if new == types:
                break
            types = new
        if any("?" in t for t in types.values()):
            raise U("the kind of a loop state could not be determined", st)

        def rank(n):
            t = types[n]
            r = self.TYRANK.get(t, 4 + t.count("L:"))
            return (r, roles.get(n, 9), pnames[n])
        order = sorted(carried, key=rank)
        # final pass
        CTX = "@@CTX@@"

        def val(e, n):
            v = e.vars[n]
            t = types[n]
            if t == "F":
                return self.atom(self.as_F(v, st))
            if t == "B":
                return self.atom(self.as_B(v, st))
            if t == "N":
                return self.atom(self.as_N(v, st))
            if v.ty != t and not (v.ty.startswith("L:") and join_ty(v.ty, t) == t):
                raise U(f"loop state `{n}` changes its kind", st)
            return self.atom(v.tx)

        def kbody(e):
            args = ["rest_"] + ([f"({idx} + 1)"] if idx else []) + [val(e, n) for n in order]
            return [f"{name}{CTX} " + " ".join(args)]
        self.k_continue = kbody
        self.loopstack.append(frame)
        try:
            body = self.block(list(st.body), mk_env(pnames), kbody)
        finally:
            self.loopstack.pop()
            self.k_continue = saved_k
        monadic = any(".error" in l for l in body)
        if monadic and not self.monadic:
            raise U("a loop of a total method can raise", st)
        cands = [(n, t, n) for n, t in self.ctx]
        for fr in self.loopstack:
            cands.append((fr[0], lean_ty(fr[2]), "$elem"))
            if fr[1]:
                cands.append((fr[1], "Nat", "$idx"))
        text = "\n".join(body)
        used3 = [(n, t, role) for n, t, role in cands if re.search(r"(?<![\w.])%s\b" % re.escape(n), text)]
        used = [(n, t) for n, t, _ in used3]
        ctxsig = "".join(f" ({n} : {t})" for n, t in used)
        ctxargs = "".join(f" {n}" for n, t in used)
        body = [l.replace(CTX, ctxargs) for l in body]
        pl = [pnames[n] for n in order]
        tys = [lean_ty(types[n]) for n in order]
        res_ty = " × ".join(tys)
        res_val = pl[0] if len(pl) == 1 else "(" + ", ".join(pl) + ")"
        sig_tys = [f"List {self.atom(lean_ty(elemty))}"] + (["Nat"] if idx else []) + tys
        pats = ([idx] if idx else []) + pl
        d = [f"/-- {doc} -/",
             f"def {name}{ctxsig} : " + " → ".join(sig_tys) + " → " + (f"Except Err ({res_ty})" if monadic else res_ty),
             "  | [], " + ", ".join(pats) + " => " + (f".ok {res_val}" if monadic else res_val),
             f"  | {elem} :: rest_, " + ", ".join(pats) + " =>"] + ind(body, 4)
        self.add_def(name, d, st)
        self.shape.append((name, tuple(types[n] for n in order), tuple(role for _, _, role in used3), elemty, bool(idx), monadic))
        # after the loop
        inits = [val(env, n) for n in order]
        callt = f"{name}{ctxargs} {self.atom(itv.tx)} " + " ".join(([str(start)] if idx else []) + inits)
        outs = {n: self.fresh(pnames[n].rstrip("_")) for n in order}
        for n in order:
            env.set(n, V(types[n], outs[n]))
        env.vars.pop(elem_py, None)
        if idx_py:
            env.vars.pop(idx_py, None)
        pat = outs[order[0]] if len(order) == 1 else "(" + ", ".join(outs[n] for n in order) + ")"
        after = self.block(rest, env, k)
        if monadic:
            return [f"match {callt} with", "| .error e => .error e", f"| .ok {pat} =>"] + ind(after)
        if len(order) == 1:
            return [f"let {pat} := {callt}"] + after
        return [f"match {callt} with", f"| {pat} =>"] + ind(after)

    def add_def(self, name, lines, node=None):
        if name in self.defnames:
            if self.defnames[name] != lines:
                raise U(f"{name} would be generated twice with different bodies", node)
            return
        self.defnames[name] = lines
        self.defs.append(lines)


# ===================================================================================================================
#  the seven regions
# ===================================================================================================================
def params_of(fn, n, node=None):
    a = fn.args
    if a.vararg or a.kwarg or a.kwonlyargs or a.posonlyargs or fn.decorator_list:
        raise U(f"{fn.name}: signature / decorator outside the fragment", fn)
    names = [x.arg for x in a.args]
    if len(names) != n + 1 or names[0] != "self":
        raise U(f"{fn.name}: {len(names) - 1} parameters where the model has {n}", fn)
    return names[1:]


def opt_tuple(a, b):
    return V("TUP", items=[V("OF", a), V("OF", b)])


def tr_normalise(src, fns, fn):
    t = Tr(src, fns, fn, "normalise")
    p = params_of(fn, 4)
    t.monadic = True
    env = Env()
    env.set(p[0], V("EVS", "hadron_data", role="hadron_data"))
    env.set(p[1], V("F", "r.R"))
    env.set(p[2], opt_tuple("r.etaA", "r.etaB"))
    env.set(p[3], opt_tuple("r.ptA", "r.ptB"))

    def end(e, v=None):
        if v is not None and v.ty != "NONE":
            raise U("parameter check returns a value", fn)
        R, eta, pt, hd = (e.vars.get("self." + a) for a in ("jet_R_", "jet_eta_range_", "jet_pT_range_", "hadron_data_"))
        if R is None or eta is None or pt is None or hd is None or hd.ty != "EVS":
            raise U("jet_R_ / jet_eta_range_ / jet_pT_range_ / hadron_data_ is not set on every path", fn)
        for x in (eta, pt):
            if x.ty != "TUP" or len(x.get("items")) != 2:
                raise U("a range attribute is not a pair", fn)
        fields = [t.as_F(R, fn)] + [t.as_X(i, fn) for i in eta.get("items")] + [t.as_X(i, fn) for i in pt.get("items")] + ["r.onlyCharged"]
        return [".ok ⟨" + fields[0] + ","] + ind([f + "," for f in fields[1:-1]], 5) + ind([fields[-1] + "⟩"], 5)
    t.k_return = end
    body = t.block(body_of(fn), env, end)
    d = ["/-- `__initialize_and_check_parameters` (`r.onlyCharged` is carried along: `assoc_only_charged` of the caller) -/",
         "def genNormalise (r : Raw α) : Except Err (Params α) :="] + ind(body)
    return t.defs + [d], t


def tr_pseudojets(src, fns, fn):
    t = Tr(src, fns, fn, "pseudojets")
    p = params_of(fn, 1)
    env = Env()
    env.set(p[0], V("L:P", "event_hadrons"))

    def ret(e, v):
        if v is None or v.ty != "L:M":
            raise U("create_fastjet_PseudoJets does not return the list of PseudoJets", fn)
        return [v.tx]
    t.k_return = ret
    body = t.block(body_of(fn), env, lambda e: (_ for _ in ()).throw(U("no return", fn)))
    d = ["/-- `create_fastjet_PseudoJets`: what is handed to the clustering (`fj.PseudoJet(a, b, c, d)` = `Mom.mk a b c d`) -/",
         "def genPseudoJets (event_hadrons : List (Part α)) : List (Mom α) :="] + ind(body)
    return [d], t


def tr_fill(src, fns, fn):
    t = Tr(src, fns, fn, "fill")
    p = params_of(fn, 4)
    t.monadic = True
    t.ctx = [("R", "α"), ("sel", "Sel"), ("only", "Bool")]
    t.loopspecs = [("genFillLoop", "the loop `for hadron in self.hadron_data_[event]` of `fill_associated_particles`; a particle is the "
                    "triple (position, particle, `delta_r` to the jet)")]
    env = Env()
    env.set(p[0], V("JA"))
    env.set(p[1], V("N", "event", inrange="self.hadron_data_", hadrons="hadrons"))
    env.set(p[2], V("SEL", "sel"))
    env.set(p[3], V("B", "only"))
    env.set("self.hadron_data_", V("EVS", "hadron_data"))
    env.set("self.jet_R_", V("F", "R", role="R"))

    def ret(e, v):
        if v is None or v.ty not in ("L:H",):
            raise U("fill_associated_particles does not return the list of selected particles", fn)
        return [f".ok {v.tx}"]
    t.k_return = ret
    body = t.block(body_of(fn), env, lambda e: (_ for _ in ()).throw(U("no return", fn)))
    if t.dr is None:
        raise U("no delta_r < R test in fill_associated_particles", fn)
    had = t.shape[0] if t.shape else None
    hv = re.search(r"Mom\.mk (\w+)\.2\.1", t.dr)
    if hv is None:
        raise U("delta_r does not depend on the particle", fn)
    uses = {u for u in ("fjEta", "fjDphi", "jetEta") if re.search(r"\b%s\b" % u, t.dr)}
    if uses != {"fjEta", "fjDphi", "jetEta"}:
        raise U("delta_r does not use eta of the particle, eta of the jet and delta_phi_to", fn)
    dr = ["/-- the `delta_r` of `fill_associated_particles`: `fjEta` / `fjDphi` are `PseudoJet.eta()` / `.delta_phi_to(jet)`, `jetEta` is `jet.eta()` -/",
          f"def genDeltaR (sqrt : α → α) (fjEta fjDphi : Mom α → α) (jetEta : α) ({hv.group(1)} : Triple α) : α :=",
          "  " + t.dr]
    d = ["/-- `fill_associated_particles(jet, event, status_selection, only_charged)`; `hadrons` = `self.hadron_data_[event]` as triples -/",
         "def genFill (R : α) (sel : Sel) (only : Bool) (hadrons : List (Triple α)) : Except Err (List (Triple α)) :="] + ind(body)
    return [dr] + t.defs + [d], t


def tr_subtract(src, fns, fn):
    t = Tr(src, fns, fn, "subtract")
    p = params_of(fn, 2)
    t.loopspecs = [("genHoleLoop", "the loop `for hole in holes` of `jet_hole_subtraction` (state: the four sums, ordered px, py, pz, E)")]
    env = Env()
    env.set(p[0], V("M", "jet"))
    env.set(p[1], V("L:H", "holes"))

    def ret(e, v):
        if v is None or v.ty != "M":
            raise U("jet_hole_subtraction does not return the jet", fn)
        return [v.tx]
    t.k_return = ret
    body = t.block(body_of(fn), env, lambda e: (_ for _ in ()).throw(U("no return", fn)))
    d = ["/-- `jet_hole_subtraction(jet, holes)`: the four-momentum the jet is reset to -/",
         "def genSubtract (jet : Mom α) (holes : List (Triple α)) : Mom α :="] + ind(body)
    return t.defs + [d], t


def tr_write(src, fns, fn):
    t = Tr(src, fns, fn, "write")
    p = params_of(fn, 5)
    t.sqrt_ok = True
    t.ctx = [("sqrt", "α → α"), ("P", "Params α"), ("jet", "Mom α"), ("event", "Nat"), ("new_file", "Bool")]
    t.loopspecs = [("genRowLoop", "the loop over `enumerate(associated_hadrons, start=1)` of `write_jet_output` (state: `output_list`)")]
    env = Env()
    env.set(p[0], V("PATH", role="output"))
    env.set(p[1], V("M", "jet"))
    env.set(p[2], V("L:H", "associated_hadrons"))
    env.set(p[3], V("N", "event"))
    env.set(p[4], V("B", "new_file"))
    env.set("self.jet_pT_range_", V("TUP", items=[V("X", "P.ptLo"), V("X", "P.ptHi")]))
    env.set("self.jet_eta_range_", V("TUP", items=[V("X", "P.etaLo"), V("X", "P.etaHi")]))
    env.set("self.jet_R_", V("F", "P.R", role="R"))
    env.set("$file", V("FS", "file"))

    def ret(e, v):
        if v is None or v.ty != "B":
            raise U("write_jet_output does not return a bool", fn)
        return [f"({e.vars['$file'].tx}, {t.as_B(v, fn)})"]
    t.k_return = ret
    body = t.block(body_of(fn), env, lambda e: (_ for _ in ()).throw(U("no return", fn)))
    if set(t.tables) != {"jet", "part"}:
        raise U("write_jet_output does not build a jet line and a particle line", fn)
    jc, _ = t.tables["jet"]
    pc, (elem, idx) = t.tables["part"]
    tabs = [["/-- layout of the jet line of `write_jet_output` -/",
             "def genJetCells (event : Nat) (jet : Mom α) : List (Cell α) :=",
             "  [" + ", ".join(jc) + "]"],
            ["/-- layout of the line of an associated particle -/",
             f"def genPartCells ({idx} event : Nat) ({elem} : Triple α) : List (Cell α) :=",
             "  [" + ", ".join(pc) + "]"]]
    d = ["/-- `write_jet_output(output_filename, jet, associated_hadrons, event, new_file)`: the file afterwards and the returned flag -/",
         "def genWriteJetOutput (sqrt : α → α) (P : Params α) (file : FS α) (jet : Mom α) (associated_hadrons : List (Triple α))",
         "    (event : Nat) (new_file : Bool) : FS α × Bool :="] + ind(body)
    return tabs + t.defs + [d], t


def tr_perform(src, fns, fn):
    t = Tr(src, fns, fn, "perform")
    p = params_of(fn, 7)
    t.monadic = True
    t.ctx = [("sqrt", "α → α")]
    t.loopspecs = [("genEventLoop", "the loop `for event, hadron_data_event in enumerate(self.hadron_data_)` of `perform_jet_finding` (state: the output file)"),
                   ("genJetLoop", "the loop `for jet in jets` of `perform_jet_finding` (state: `new_file`, the output file)")]
    env = Env()
    env.set(p[0], V("EVS", "hadron_data", role="hadron_data"))
    env.set(p[1], V("F", "raw.R", role="jet_R"))
    env.set(p[2], V("TUP", items=[V("OF", "raw.etaA"), V("OF", "raw.etaB")], role="jet_eta_range"))
    env.set(p[3], V("TUP", items=[V("OF", "raw.ptA"), V("OF", "raw.ptB")], role="jet_pT_range"))
    env.set(p[4], V("PATH", role="output"))
    env.set(p[5], V("B", "raw.onlyCharged", role="assoc_only_charged"))
    env.set(p[6], V("ALG"))
    env.set("$file", V("FS", "prior"))

    def end(e, v=None):
        if v is not None and v.ty != "NONE":
            raise U("perform_jet_finding returns a value", fn)
        return [f".ok {e.vars['$file'].tx}"]
    t.k_return = end
    body = t.block(body_of(fn), env, end)
    d = ["/-- `perform_jet_finding`: the output file afterwards (`prior` = what it held before; `hadron_data` = the events with",
         "what fastjet delivers for them) -/",
         "def genPerform (sqrt : α → α) (raw : Raw α) (prior : FS α) (hadron_data : List (Event α)) : Except Err (FS α) :="] + ind(body)
    return t.defs + [d], t


def tr_read(src, fns, fn):
    t = Tr(src, fns, fn, "read")
    p = params_of(fn, 1)
    t.ctx = [("idx", "ρ → Nat")]
    t.loopspecs = [("genReadLoop", "the loop `for row in reader` of `read_jet_data` (state: `current_jet`, `jet_data`); `idx row` is `int(row[0])`")]
    env = Env()
    env.set(p[0], V("PATH", role="input"))

    def end(e, v=None):
        if v is not None and v.ty != "NONE":
            raise U("read_jet_data returns a value", fn)
        r = e.vars.get("self.jet_data_")
        if r is None or r.ty != "L:L:RROW":
            raise U("self.jet_data_ is not set to the list of groups", fn)
        return [r.tx]
    t.k_return = end
    body = t.block(body_of(fn), env, end)
    if t.readcols is None:
        raise U("read_jet_data does not convert the row column by column", fn)
    cols = ["/-- conversion and source column of every field of a row read by `read_jet_data` -/",
            "def genReadCols : List (ColType × Nat) :=",
            "  [" + ", ".join(f"(ColType.{c}, {k})" for c, k in t.readcols) + "]"]
    d = ["/-- `read_jet_data`: `self.jet_data_` for the rows of the file -/",
         "def genRead (idx : ρ → Nat) (rows : List ρ) : List (List ρ) :="] + ind(body)
    return [cols] + t.defs + [d], t


REGIONS = [  # (region name, method suffix, translator, section)
    ("normalise", "initialize_and_check_parameters", tr_normalise, "model"),
    ("pseudojets", "create_fastjet_PseudoJets", tr_pseudojets, "model"),
    ("fill", "fill_associated_particles", tr_fill, "model"),
    ("subtract", "jet_hole_subtraction", tr_subtract, "model"),
    ("write", "write_jet_output", tr_write, "model"),
    ("perform", "perform_jet_finding", tr_perform, "model"),
    ("read", "read_jet_data", tr_read, "reader"),
]

# loop structure the equivalence proofs of Lemmas/JetsGen.lean are written for:
# (def name, kinds of the loop state, context parameters, kind of element, enumerate?, can raise?)
EXPECTED_SHAPE = {
    "normalise": [],
    "pseudojets": [],
    "fill": [("genFillLoop", ("L:H",), ("R", "sel", "only"), "H", False, True)],
    "subtract": [("genHoleLoop", ("F", "F", "F", "F"), (), "H", False, False)],
    "write": [("genRowLoop", ("L:ROW",), ("event",), "H", True, False)],
    "perform": [("genJetLoop", ("B", "FS"), ("sqrt", "P", "$elem", "$idx"), "J", False, True),
                ("genEventLoop", ("FS",), ("sqrt", "P"), "EV", True, True)],
    "read": [("genReadLoop", ("L:RROW", "L:L:RROW"), ("idx",), "RROW", False, False)],
}


def begin(r):
    return f"-- BEGIN {r}"


def end_(r):
    return f"-- END {r}"


def golden_sections(text):
    out = {}
    ls = text.split("\n")
    for r, *_ in REGIONS:
        if begin(r) in ls and end_(r) in ls:
            out[r] = ls[ls.index(begin(r)) + 1:ls.index(end_(r))]
    return out


def find_methods(source):
    tree = ast.parse(source)
    cls = next((n for n in tree.body if isinstance(n, ast.ClassDef) and n.name == CLS), None)
    if cls is None:
        return {}
    return {f.name: f for f in cls.body if isinstance(f, ast.FunctionDef)}


def render(source, golden=None):
    """-> (text of Gen/Jets.lean, regions).  A region outside the fragment is taken from `golden` (tie C for it);
    raises Untranslatable when there is nothing to fall back to."""
    fns = find_methods(source)
    gold = golden_sections(golden) if golden else {}
    sections = {"model": [], "reader": []}
    regions = []
    for r, suffix, tr, sec in REGIONS:
        fn = next((f for n, f in fns.items() if n.endswith(suffix)), None)
        tie, folded = None, []
        try:
            if fn is None:
                raise Untranslatable(f"method *{suffix} not found in class {CLS}")
            defs, t = tr(source, fns, fn)
            want = EXPECTED_SHAPE[r]
            got = [s for s in t.shape]
            if got != want:
                if True:
                    raise Untranslatable(f"{fn.name}: loop structure {got} differs from the one the equivalence proofs cover {want}")
            lines = []
            for d in defs:
                lines += d + [""]
            tie = "T (regenerated and proved equal to the model)"
            folded = t.folded
        except Untranslatable as e:
            if r not in gold:
                raise
            lines = gold[r]
            tie = f"C (golden model; translator could not re-derive: {e})"
        sections[sec] += [begin(r)] + lines + [end_(r), ""]
        regions.append(dict(file=FILE, region=(fn.name if fn is not None else suffix), gen_region=r,
                            lines=[fn.lineno, fn.end_lineno] if fn is not None else None,
                            sha=pyexpr.src_hash(source, fn) if fn is not None else None, tie=tie,
                            guards_decided_by_input_typing=folded))
    L = ["-- GENERATED by harness/translate/jets.py from src/sparkx/JetAnalysis.py -- do not edit",
         "import SparkxVerif.Core.Jets", "",
         "set_option linter.unusedVariables false", "",
         "namespace SparkxVerif.Gen.Jets", "open SparkxVerif SparkxVerif.Jets", "",
         "section model",
         "variable {α : Type} [LT α] [LE α] [DecidableLT α] [DecidableLE α] [Add α] [Sub α] [Mul α] [NatCast α]", ""]
    L += sections["model"] + ["end model", "", "section reader", "variable {ρ : Type}", ""] + sections["reader"]
    L += ["end reader", "", "end SparkxVerif.Gen.Jets"]
    return "\n".join(L) + "\n", regions
