"""Tie T for C14: src/sparkx/BulkObservables.py -> Gen/Bulk.lean.

Re-translated on every run from the tree under test:

1. `BulkObservables._differential_yield` -> `differentialYield (edges) (evs) : Except Err (List (List α))`
   (= `histograms_` of the returned Histogram).  An event is the list of the values
   `getattr(particle, quantity)()` of its particles (`none` = NaN); `edges` are the edges the `Histogram`
   constructor derives from `bin_properties` (np.linspace for a tuple; external, DESIGN 2.3).
2. `mid_rapidity_yield`, `mid_rapidity_mean_pT`, `mid_rapidity_mean_mT` -> `midYield`, `midMeanPT`, `midMeanMT`
   `(y_width : α) (evs : List (List (Option α × α))) : Except Err α`.  A particle is the pair
   (`getattr(particle, quantity)()`, `particle.<m>()`), `<m>` being the one Particle method the function calls
   directly (recorded in the table `meanValueOf`).
3. the four wrappers `dNdy/dNdpT/dNdEta/dNdmT` -> tables `quantityOf` (which Particle method is histogrammed)
   and `defaultBinsOf`; the default arguments of the mid-rapidity functions -> `midDefaults`.

How: a small compiler for a statement fragment of Python, by forward symbolic execution with continuation
passing.  Every local is typed (nat / int / num / bool / vec / hist / onum = quantity that may be NaN / ...):
  * `x = e`, `x op= e`              -> `let x := e`  (names are re-bound, Lean shadowing = Python re-assignment)
  * `for v in <iter>: body`         -> `foldl` (or `foldlM` in `Except Err` when the body can raise) over
                                       `List.range n` / `evs` / the event / `getEv evs i`; the loop state is the tuple
                                       of the locals assigned in the body that exist before the loop (canonical
                                       order: by type, then by first definition)
  * `if c: A else: B`               -> `if c then A;rest else B;rest` when a branch returns/raises or can raise,
                                       else a join `let st := if c then (..) else (..)` over the assigned locals
  * `return e` / `raise ValueError` -> `Except.ok e` / `Except.error Err.value`
  * `Histogram(bins)`, `.bin_width()`, `.add_value(v)`, `.add_histogram()`, `.average()`,
    `.scale_histogram(a)`           -> the `HObj` primitives of Core/Bulk.lean (the Histogram class is C09/C10's
                                       subject); `scalar / array` -> `sdivV`
  * integer expressions stay in `Nat` (`+`, `*`, literals, `len`) and move to `Int` as soon as a `-` occurs;
    `/` is Python's true division: both operands are cast to `α`
  * a test built from order comparisons that all involve the (possibly NaN) quantity -> `onNum (fun q => ..) <quantity>`
Not translated, only recognised (and hashed): pure argument-type validation (`if`-chains whose tests use
`isinstance` / `callable` and whose leaves only `raise`), `warnings.warn` blocks, doc strings, the call of
`self._check_quantity_is_method`, `callable(getattr(particle, quantity))` (taken to be true: the model's event IS
the list of the quantity's values), the class `ReadOnlyList` (checked: `__getitem__/__len__/__iter__` delegate to
the wrapped list).

Anything else raises `Untranslatable` (the harness then falls back to the golden model + correspondence).  The
loop structure and the types of the loop states are compared with the structure the equivalence proofs
(`Lemmas/BulkGen.lean`) cover; a different but translatable structure is refused as well (a definition whose
proof script cannot follow would otherwise be reported as an unproved property, not as a harmless rewrite).
"""
import ast
import hashlib
import re

from . import pyexpr
from .pyexpr import Untranslatable

CLS = "BulkObservables"
FILE = "BulkObservables.py"
WRAPPERS = ["dNdy", "dNdpT", "dNdEta", "dNdmT"]
MIDS = {"mid_rapidity_yield": "midYield", "mid_rapidity_mean_pT": "midMeanPT", "mid_rapidity_mean_mT": "midMeanMT"}

LEAN_TY = {"nat": "Nat", "int": "Int", "num": "α", "bool": "Bool", "hist": "HObj α"}
TYPE_ORDER = ["hist", "num", "int", "nat", "bool"]
RESERVED = {
    # Lean keywords / tokens
    "at", "axiom", "by", "class", "def", "do", "else", "end", "export", "extends", "fun", "from", "have", "if", "import",
    "in", "inductive", "instance", "let", "match", "mut", "namespace", "open", "private", "protected", "section", "show",
    "structure", "then", "theorem", "universe", "variable", "where", "with", "Type", "Prop", "Sort", "for", "return",
    "unless", "try", "catch", "finally", "this", "using", "deriving", "macro", "syntax", "local", "set_option", "nomatch",
    # names the emitted text uses
    "evs", "edges", "pure", "decide", "onNum", "sdivV", "getEv", "HObj", "Except", "Err", "List", "Nat", "Int", "α", "q_",
}
# loop structure + loop-state types the equivalence proofs of Lemmas/BulkGen.lean are written for
EXPECTED_SHAPE = {
    "dn": [("M", "range", ("hist",), [("M", "index", ("hist",), [])])],
    "yield": [("P", "events", ("nat",), [("P", "event", ("nat",), [])])],
    "mean": [("P", "events", ("num", "nat"), [("P", "event", ("num", "nat"), [])])],
}


class V:
    """a translated value: Lean text + type (+ constant value where known)"""

    def __init__(self, text, ty, const=None):
        self.text, self.ty, self.const = text, ty, const


def _ind(s, n=2):
    pad = " " * n
    return "\n".join(pad + l if l else l for l in s.split("\n"))


def _is_doc(st):
    return isinstance(st, ast.Expr) and isinstance(st.value, ast.Constant) and isinstance(st.value.value, str)


def _call_attr(node):
    """('x', 'm') for the call x.m(...) with x a Name; ('self', 'm') for self.m(...)"""
    if isinstance(node, ast.Call) and isinstance(node.func, ast.Attribute) and isinstance(node.func.value, ast.Name):
        return node.func.value.id, node.func.attr
    return None


def _leaves(stmts):
    """leaf statements of nested if-chains"""
    out = []
    for st in stmts:
        if isinstance(st, ast.If):
            out += _leaves(st.body) + _leaves(st.orelse)
        elif not _is_doc(st):
            out.append(st)
    return out


def _mentions_typecheck(test):
    return any(isinstance(n, ast.Call) and isinstance(n.func, ast.Name) and n.func.id in ("isinstance", "callable")
               for n in ast.walk(test))


def _is_type_validation(st):
    """if-chain whose outermost tests all use isinstance/callable and whose leaves only raise"""
    if not isinstance(st, ast.If):
        return False
    tests = [t for t, _ in pyexpr.if_chain(st) if t is not None]
    lv = _leaves([st])
    return bool(lv) and all(isinstance(l, ast.Raise) for l in lv) and all(_mentions_typecheck(t) for t in tests)


def _is_warn_only(st):
    """if-chain whose leaves are `warnings.warn(...)` calls and assignments of string constants"""
    if not isinstance(st, ast.If):
        return False
    lv = _leaves([st])

    def ok(l):
        if isinstance(l, ast.Expr) and _call_attr(l.value) == ("warnings", "warn"):
            return True
        return (isinstance(l, ast.Assign) and len(l.targets) == 1 and isinstance(l.targets[0], ast.Name)
                and isinstance(l.value, (ast.Constant, ast.JoinedStr))
                and (isinstance(l.value, ast.JoinedStr) or isinstance(l.value.value, str)))
    return bool(lv) and all(ok(l) for l in lv) and any(isinstance(l, ast.Expr) for l in lv)


def _terminates(stmts):
    body = [s for s in stmts if not _is_doc(s)]
    if not body:
        return False
    last = body[-1]
    if isinstance(last, (ast.Return, ast.Raise)):
        return True
    if isinstance(last, ast.If) and last.orelse:
        return _terminates(last.body) and _terminates(last.orelse)
    return False


HIST_MUTATORS = {"add_value", "add_histogram", "average", "scale_histogram"}


def _assigned(stmts):
    """names (in order of first occurrence) a block assigns, incl. Histogram objects it mutates through a method"""
    out = []

    def add(n):
        if n not in out:
            out.append(n)
    for st in stmts:
        for n in ast.walk(st):
            if isinstance(n, (ast.Assign, ast.AugAssign, ast.AnnAssign)):
                tg = n.targets if isinstance(n, ast.Assign) else [n.target]
                for t in tg:
                    for m in ast.walk(t):
                        if isinstance(m, ast.Name):
                            add(m.id)
            elif isinstance(n, ast.Call):
                ca = _call_attr(n)
                if ca and ca[1] in HIST_MUTATORS and ca[0] != "self":
                    add(ca[0])
    return out


def _lit_nat(n):
    return f"({n} : Nat)"


class Fn:
    """translation of one method body"""

    def __init__(self, kind, fdef, source):
        self.kind = kind            # "dn" | "yield" | "mean"
        self.f = fdef
        self.source = source
        args = [a.arg for a in fdef.args.args]
        if fdef.args.vararg or fdef.args.kwarg or fdef.args.kwonlyargs or fdef.args.posonlyargs or len(args) != 3 \
                or args[0] != "self":
            raise Untranslatable(f"{fdef.name}: unexpected signature")
        self.shape = []
        self._shape_stack = [self.shape]
        self.value_method = None    # mid mean: the Particle method whose value is `particle.2`
        self.notes = []
        self.used = set(n.id for n in ast.walk(fdef) if isinstance(n, ast.Name)) | set(args)
        self.env0 = {}
        if kind == "dn":
            self.qparam, self.bparam = args[1], args[2]
            self.env0[self.qparam] = V("", "qname")
            self.env0[self.bparam] = V("", "bins")
        else:
            self.wparam, self.qparam = args[1], args[2]
            self.wname = self.lname(self.wparam)
            self.env0[self.wparam] = V(self.wname, "num")
            self.env0[self.qparam] = V("", "qname")

    # ---------------------------------------------------------------- names
    def lname(self, py):
        return py + "_v" if py in RESERVED or not re.fullmatch(r"[A-Za-z_][A-Za-z0-9_]*", py) else py

    def fresh(self, base):
        n = base
        while n in self.used or n in RESERVED:
            n += "_"
        self.used.add(n)
        return n

    # ---------------------------------------------------------------- expressions
    def as_num(self, v):
        if v.ty == "num":
            return v.text
        if v.ty == "nat":
            return f"(({v.const} : Nat) : α)" if isinstance(v.const, int) else f"(({v.text} : Nat) : α)"
        raise Untranslatable(f"a value of type {v.ty} is used as a number")

    def as_int(self, v):
        if v.ty == "int":
            return v.text
        if v.ty == "nat":
            return f"({v.const} : Int)" if isinstance(v.const, int) else f"({v.text} : Int)"
        raise Untranslatable(f"a value of type {v.ty} is used as an integer")

    def ex(self, node, env):
        if isinstance(node, ast.Constant):
            c = node.value
            if isinstance(c, bool):
                return V("true" if c else "false", "bool", const=c)
            if isinstance(c, int):
                if c < 0:
                    raise Untranslatable("negative literal")
                return V(_lit_nat(c), "nat", const=c)
            if isinstance(c, float):
                return V(pyexpr._num_generic(c), "num", const=c)
            if isinstance(c, str):
                return V("", "str", const=c)
            raise Untranslatable(f"literal {c!r}")
        if isinstance(node, ast.Name):
            if node.id not in env:
                raise Untranslatable(f"name `{node.id}` is not a local defined on every path to this point")
            return env[node.id]
        if isinstance(node, ast.Attribute):
            if isinstance(node.value, ast.Name) and node.value.id == "self" and node.attr == "particle_objects":
                return V("evs", "events")
            raise Untranslatable("attribute " + ast.unparse(node))
        if isinstance(node, ast.UnaryOp):
            if isinstance(node.op, ast.Not):
                v = self.boolean(node.operand, env)
                return V(f"(!{v.text})", "bool")
            v = self.ex(node.operand, env)
            if isinstance(node.op, ast.UAdd) and v.ty in ("nat", "int", "num"):
                return v
            if isinstance(node.op, ast.USub):
                if v.ty == "num":
                    return V(f"(-{v.text})", "num")
                if v.ty in ("nat", "int"):
                    return V(f"(-{self.as_int(v)})", "int")
            raise Untranslatable("unary " + ast.unparse(node))
        if isinstance(node, ast.BinOp):
            return self.binop(node, env)
        if isinstance(node, (ast.BoolOp, ast.Compare)):
            return self.boolean(node, env)
        if isinstance(node, ast.Call):
            return self.call(node, env)
        raise Untranslatable("expression " + ast.unparse(node)[:80])

    def binop(self, node, env):
        a, b = self.ex(node.left, env), self.ex(node.right, env)
        op = type(node.op)
        sym = {ast.Add: "+", ast.Sub: "-", ast.Mult: "*", ast.Div: "/"}.get(op)
        if sym is None:
            raise Untranslatable("operator " + ast.unparse(node))
        tys = {a.ty, b.ty}
        if "vec" in tys:
            # numpy broadcasting: only `scalar / array`
            if op is ast.Div and b.ty == "vec" and a.ty in ("nat", "num"):
                return V(f"(sdivV ({self.as_num(a)}) {b.text})", "vec")
            raise Untranslatable("array expression " + ast.unparse(node))
        if not tys <= {"nat", "int", "num"}:
            raise Untranslatable(f"operands of type {a.ty} / {b.ty} in " + ast.unparse(node))
        if op is ast.Div or "num" in tys:
            if "int" in tys:
                raise Untranslatable("an integer difference is used in a float expression: " + ast.unparse(node))
            return V(f"({self.as_num(a)} {sym} {self.as_num(b)})", "num")
        if tys == {"nat"} and op is not ast.Sub:
            return V(f"({a.text} {sym} {b.text})", "nat")
        return V(f"({self.as_int(a)} {sym} {self.as_int(b)})", "int")

    def call(self, node, env):
        f = node.func
        if node.keywords:
            raise Untranslatable("keyword arguments in " + ast.unparse(node)[:60])
        if isinstance(f, ast.Name):
            if f.id == "len" and len(node.args) == 1:
                v = self.ex(node.args[0], env)
                if v.ty in ("events", "event"):
                    return V(f"{v.text}.length", "nat")
                raise Untranslatable("len of " + v.ty)
            if f.id == "getattr" and len(node.args) == 2:
                p, q = self.ex(node.args[0], env), self.ex(node.args[1], env)
                if p.ty == "particle" and q.ty == "qname":
                    return V(p.text if self.kind == "dn" else f"{p.text}.1", "pmethod")
                raise Untranslatable("getattr other than getattr(<particle>, <quantity parameter>)")
            if f.id == "callable" and len(node.args) == 1:
                if self.ex(node.args[0], env).ty == "pmethod":
                    return V("true", "bool", const=True)
                raise Untranslatable("callable(...) of something else than the particle's quantity method")
            if f.id == "Histogram" and len(node.args) == 1 and self.kind == "dn":
                if self.ex(node.args[0], env).ty == "bins":
                    return V("(HObj.new edges)", "hist")
                raise Untranslatable("Histogram(...) is not built from the binning parameter")
            if f.id in env and env[f.id].ty == "pmethod" and not node.args:
                return V(env[f.id].text, "onum")
            raise Untranslatable("call of " + f.id)
        if isinstance(f, ast.Call) and not node.args:
            v = self.ex(f, env)
            if v.ty == "pmethod":
                return V(v.text, "onum")
            raise Untranslatable("call of a call: " + ast.unparse(node)[:60])
        if isinstance(f, ast.Attribute):
            o = self.ex(f.value, env)
            if o.ty == "hist" and f.attr == "bin_width" and not node.args:
                return V(f"(HObj.binWidth {o.text})", "vec")
            if o.ty == "particle" and not node.args and self.kind == "mean":
                if self.value_method not in (None, f.attr):
                    raise Untranslatable(f"two different Particle methods are averaged: {self.value_method}, {f.attr}")
                self.value_method = f.attr
                return V(f"{o.text}.2", "num")
            raise Untranslatable("method call " + ast.unparse(node)[:60])
        raise Untranslatable("call " + ast.unparse(node)[:60])

    # ---------------------------------------------------------------- boolean expressions
    def boolean(self, node, env):
        q = self._onum_operand(node, env)
        if q is not None:
            self._check_onum_tree(node, env)
            inner = self._bool(node, env, sub=(q, self.fresh_q()))
            return V(f"(onNum (fun {inner[1]} => {inner[0].text}) {q})", "bool")
        return self._bool(node, env, sub=None)[0]

    def fresh_q(self):
        return "q_"

    def _operands(self, node):
        if isinstance(node, ast.BoolOp):
            return [o for v in node.values for o in self._operands(v)]
        if isinstance(node, ast.UnaryOp) and isinstance(node.op, ast.Not):
            return self._operands(node.operand)
        if isinstance(node, ast.Compare):
            return [node.left] + list(node.comparators)
        return []

    def _onum_operand(self, node, env):
        texts = set()
        for o in self._operands(node):
            try:
                v = self.ex(o, env)
            except Untranslatable:
                continue
            if v.ty == "onum":
                texts.add(v.text)
        if len(texts) > 1:
            raise Untranslatable("a test compares two different possibly-NaN quantities")
        return texts.pop() if texts else None

    def _check_onum_tree(self, node, env):
        """and/or of order comparisons each of which involves the quantity: false as a whole when it is NaN"""
        if isinstance(node, ast.BoolOp):
            for v in node.values:
                self._check_onum_tree(v, env)
            return
        if isinstance(node, ast.Compare):
            if not all(isinstance(o, (ast.Lt, ast.LtE, ast.Gt, ast.GtE)) for o in node.ops):
                raise Untranslatable("(in)equality test on a possibly-NaN quantity")
            ops = [node.left] + list(node.comparators)
            for a, b in zip(ops, ops[1:]):
                if "onum" not in (self.ex(a, env).ty, self.ex(b, env).ty):
                    raise Untranslatable("a comparison inside a NaN-sensitive test does not involve the quantity")
            return
        raise Untranslatable("NaN-sensitive test is not an and/or of order comparisons: " + ast.unparse(node)[:80])

    def _bool(self, node, env, sub):
        """-> (V bool, bound name)"""
        qn = sub[1] if sub else None
        if isinstance(node, ast.BoolOp):
            parts = [self._bool(v, env, sub)[0].text for v in node.values]
            op = " && " if isinstance(node.op, ast.And) else " || "
            return V("(" + op.join(parts) + ")", "bool"), qn
        if isinstance(node, ast.UnaryOp) and isinstance(node.op, ast.Not):
            return V(f"(!{self._bool(node.operand, env, sub)[0].text})", "bool"), qn
        if isinstance(node, ast.Compare):
            ops = [node.left] + list(node.comparators)
            vals = []
            for o in ops:
                v = self.ex(o, env)
                if v.ty == "onum":
                    v = V(qn, "num")
                vals.append(v)
            parts = [self.compare(a, op, b, node) for a, op, b in zip(vals, node.ops, vals[1:])]
            return V(parts[0] if len(parts) == 1 else "(" + " && ".join(parts) + ")", "bool"), qn
        v = self.ex(node, env)
        if v.ty == "bool":
            return v, qn
        raise Untranslatable("truth value of a " + v.ty + ": " + ast.unparse(node)[:60])

    def compare(self, a, op, b, node):
        tys = {a.ty, b.ty}
        if not tys <= {"nat", "int", "num"}:
            raise Untranslatable(f"comparison of {a.ty} with {b.ty}: " + ast.unparse(node)[:60])
        if "num" in tys:
            if "int" in tys:
                raise Untranslatable("an integer difference is compared with a float")
            x, y = self.as_num(a), self.as_num(b)
            eq_ok = False
        elif "int" in tys:
            x, y = self.as_int(a), self.as_int(b)
            eq_ok = True
        else:
            x, y = a.text, b.text
            eq_ok = True
        rel = {ast.Lt: "<", ast.LtE: "≤", ast.Gt: ">", ast.GtE: "≥"}.get(type(op))
        if rel:
            return f"decide ({x} {rel} {y})"
        if isinstance(op, ast.Eq) and eq_ok:
            return f"decide ({x} = {y})"
        if isinstance(op, ast.NotEq) and eq_ok:
            return f"(!(decide ({x} = {y})))"
        raise Untranslatable("comparison operator in " + ast.unparse(node)[:60])

    # ---------------------------------------------------------------- statements
    def can_raise(self, stmts):
        """does the block contain something the model lets raise: add_value (NaN), indexing, a reachable raise"""
        for st in stmts:
            if _is_type_validation(st) or _is_warn_only(st):
                continue
            for n in ast.walk(st):
                if isinstance(n, ast.Call) and (_call_attr(n) or (None, None))[1] == "add_value":
                    return True
                if isinstance(n, ast.Subscript):
                    return True
                if isinstance(n, ast.Raise) and not self._raise_is_dead(st, n):
                    return True
        return False

    def _raise_is_dead(self, st, rnode):
        """the raise sits in the else-branch of an `if callable(...)`"""
        for n in ast.walk(st):
            if isinstance(n, ast.If) and any(r is rnode for s in n.orelse for r in ast.walk(s)) \
                    and isinstance(n.test, ast.Call) and isinstance(n.test.func, ast.Name) and n.test.func.id == "callable":
                return True
        return False

    def state_vars(self, names, env):
        vs = [n for n in names if n in env and env[n].ty in LEAN_TY]
        bad = [n for n in names if n in env and env[n].ty not in LEAN_TY]
        if bad:
            raise Untranslatable(f"a local of type {env[bad[0]].ty} (`{bad[0]}`) is re-assigned inside a loop / branch")
        order = list(env.keys())
        return sorted(vs, key=lambda n: (TYPE_ORDER.index(env[n].ty), order.index(n)))

    @staticmethod
    def proj(st, i, n):
        if n == 1:
            return st
        return st + ".2" * i + (".1" if i < n - 1 else "")

    def tuple_text(self, vs, env):
        return env[vs[0]].text if len(vs) == 1 else "(" + ", ".join(env[v].text for v in vs) + ")"

    def tuple_type(self, vs, env):
        return " × ".join(LEAN_TY[env[v].ty] for v in vs)

    def rebind(self, vs, env, st):
        """`let v_i := st.<i>` lines and the environment after them"""
        env2 = dict(env)
        lines = []
        for i, v in enumerate(vs):
            ln = self.lname(v)
            if len(vs) > 1:
                lines.append(f"let {ln} := {self.proj(st, i, len(vs))}")
            env2[v] = V(ln, env[v].ty)
        return lines, env2

    def block(self, stmts, env, mode, k):
        """mode: 'fn' (function level: Except), 'mbody' (loop body that can raise: Except of the state),
        'pure' (loop body / branch that cannot raise).  k(env) = text produced when control falls off the end."""
        if not stmts:
            return k(env)
        st, rest = stmts[0], stmts[1:]

        def cont(env2):
            return self.block(rest, env2, mode, k)

        if _is_doc(st) or isinstance(st, ast.Pass):
            return cont(env)
        if _is_type_validation(st):
            self.notes.append("argument-type validation not modelled: " + ast.unparse(st.test)[:70])
            return cont(env)
        if _is_warn_only(st):
            return cont(env)
        if isinstance(st, ast.Expr):
            return self.expr_stmt(st, env, mode, cont)
        if isinstance(st, (ast.Assign, ast.AugAssign)):
            if isinstance(st, ast.Assign):
                if len(st.targets) != 1 or not isinstance(st.targets[0], ast.Name):
                    raise Untranslatable("assignment target: " + ast.unparse(st)[:60])
                name, v = st.targets[0].id, self.ex(st.value, env)
            else:
                if not isinstance(st.target, ast.Name):
                    raise Untranslatable("assignment target: " + ast.unparse(st)[:60])
                name = st.target.id
                v = self.binop(ast.BinOp(left=ast.Name(id=name, ctx=ast.Load()), op=st.op, right=st.value), env)
            if name in (getattr(self, "wparam", None), self.qparam, getattr(self, "bparam", None)):
                raise Untranslatable(f"parameter `{name}` is re-assigned")
            env2 = dict(env)
            if v.ty == "str":
                env2[name] = v
                return cont(env2)
            if v.ty in ("pmethod", "onum"):
                ln = self.lname(name)
                env2[name] = V(ln, v.ty)
                return f"let {ln} := {v.text}\n" + cont(env2)
            if v.ty not in ("nat", "int", "num", "bool", "vec", "hist"):
                raise Untranslatable(f"assignment of a {v.ty}: " + ast.unparse(st)[:60])
            ln = self.lname(name)
            env2[name] = V(ln, v.ty)
            return f"let {ln} := {v.text}\n" + cont(env2)
        if isinstance(st, ast.Return):
            if mode != "fn":
                raise Untranslatable("return inside a loop")
            if st.value is None:
                raise Untranslatable("return without a value")
            v = self.ex(st.value, env)
            if self.kind == "dn":
                if v.ty != "hist":
                    raise Untranslatable("the differential yield does not return the Histogram")
                return f"Except.ok {v.text}.rows"
            return f"Except.ok {self.as_num(v)}"
        if isinstance(st, ast.Raise):
            if mode == "pure":
                raise Untranslatable("raise in a block classified as non-raising")
            e = st.exc
            nm = e.func.id if isinstance(e, ast.Call) and isinstance(e.func, ast.Name) else getattr(e, "id", None)
            if nm != "ValueError":
                raise Untranslatable(f"raise {nm} outside argument-type validation")
            return "Except.error Err.value"
        if isinstance(st, ast.If):
            return self.if_stmt(st, env, mode, cont)
        if isinstance(st, ast.For):
            return self.for_stmt(st, env, mode, cont)
        raise Untranslatable("statement " + ast.unparse(st)[:80])

    def expr_stmt(self, st, env, mode, cont):
        c = st.value
        ca = _call_attr(c)
        if ca == ("warnings", "warn"):
            return cont(env)
        if ca and ca[0] == "self" and ca[1] == "_check_quantity_is_method":
            if len(c.args) != 1 or self.ex(c.args[0], env).ty != "qname":
                raise Untranslatable("_check_quantity_is_method is not called with the quantity parameter")
            self.notes.append("self._check_quantity_is_method(quantity): attribute validation, not modelled")
            return cont(env)
        if ca and ca[0] in env and env[ca[0]].ty == "hist" and not c.keywords:
            h = env[ca[0]]
            ln = self.lname(ca[0])
            env2 = dict(env)
            env2[ca[0]] = V(ln, "hist")
            if ca[1] == "add_value" and len(c.args) == 1:
                v = self.ex(c.args[0], env)
                if v.ty != "onum":
                    raise Untranslatable("add_value of something else than the particle's quantity")
                if mode == "pure":
                    raise Untranslatable("add_value in a block classified as non-raising")
                return f"((HObj.addValue {h.text} {v.text}) >>= fun {ln} =>\n" + cont(env2) + ")"
            if ca[1] == "add_histogram" and not c.args:
                return f"let {ln} := HObj.addHistogram {h.text}\n" + cont(env2)
            if ca[1] == "average" and not c.args:
                return f"let {ln} := HObj.average {h.text}\n" + cont(env2)
            if ca[1] == "scale_histogram" and len(c.args) == 1:
                v = self.ex(c.args[0], env)
                if v.ty != "vec":
                    raise Untranslatable("scale_histogram with a non-array argument")
                return f"let {ln} := HObj.scaleHistogram {h.text} {v.text}\n" + cont(env2)
        raise Untranslatable("statement " + ast.unparse(st)[:80])

    def if_stmt(self, st, env, mode, cont):
        t = self.boolean(st.test, env)
        if t.const is True:
            if st.orelse and not all(isinstance(l, ast.Raise) for l in _leaves(st.orelse)):
                raise Untranslatable("else-branch of an always-true test is not a plain raise")
            return self.block(st.body, env, mode, cont)
        if t.const is False:
            raise Untranslatable("constant-false test")
        pure = not self.can_raise(st.body) and not self.can_raise(st.orelse)
        if not _terminates(st.body) and not _terminates(st.orelse) and pure \
                and not any(isinstance(n, (ast.Return, ast.Raise)) for s in st.body + st.orelse for n in ast.walk(s)):
            vs = self.state_vars(_assigned(st.body) + [n for n in _assigned(st.orelse) if n not in _assigned(st.body)], env)
            if not vs:
                raise Untranslatable("an `if` without effect on the translated state: " + ast.unparse(st.test)[:60])

            def fin(e):
                return self.tuple_text(vs, e)
            a = self.block(st.body, env, "pure", fin)
            b = self.block(st.orelse, env, "pure", fin)
            stn = self.lname(vs[0]) if len(vs) == 1 else self.fresh("st")
            lines, env2 = self.rebind(vs, env, stn)
            head = f"let {stn} := (if {t.text} then\n{_ind(a)}\nelse\n{_ind(b)})\n"
            return head + "".join(l + "\n" for l in lines) + cont(env2)
        # a branch returns / raises / can raise: the rest of the block is continued inside both branches
        a = self.block(st.body, env, mode, cont)
        b = self.block(st.orelse, env, mode, cont)
        return f"(if {t.text} then\n{_ind(a)}\nelse\n{_ind(b)})"

    def for_stmt(self, st, env, mode, cont):
        if st.orelse or not isinstance(st.target, ast.Name):
            raise Untranslatable("for-loop with else / tuple target")
        it = st.iter
        pre = None
        if isinstance(it, ast.Call) and isinstance(it.func, ast.Name) and it.func.id == "range" and len(it.args) == 1 \
                and not it.keywords:
            n = self.ex(it.args[0], env)
            if n.ty != "nat":
                raise Untranslatable("range of a non-natural")
            items, vty, ikind = f"(List.range {n.text})", "nat", "range"
        elif isinstance(it, ast.Subscript):
            base, idx = self.ex(it.value, env), self.ex(it.slice, env)
            if base.ty != "events" or idx.ty != "nat":
                raise Untranslatable("loop over " + ast.unparse(it)[:60])
            itn = self.fresh("it")
            pre = f"(getEv {base.text} {idx.text})"
            items, vty, ikind = itn, "particle", "index"
        else:
            v = self.ex(it, env)
            if v.ty == "events":
                items, vty, ikind = v.text, "event", "events"
            elif v.ty == "event":
                items, vty, ikind = v.text, "particle", "event"
            else:
                raise Untranslatable("loop over a " + v.ty)
        if st.target.id in env:
            raise Untranslatable(f"loop variable `{st.target.id}` shadows a local")
        vs = self.state_vars(_assigned(st.body), env)
        if not vs:
            raise Untranslatable("loop without effect on the translated state")
        monadic = self.can_raise(st.body) or pre is not None
        if monadic and mode == "pure":
            raise Untranslatable("a loop that can raise inside a block classified as non-raising")
        node = ("M" if monadic else "P", ikind, tuple(env[v].ty for v in vs), [])
        self._shape_stack[-1].append(node)
        self._shape_stack.append(node[3])
        stn = self.lname(vs[0]) if len(vs) == 1 else self.fresh("st")
        xn = self.lname(st.target.id)
        lines, benv = self.rebind(vs, env, stn)
        benv[st.target.id] = V(xn, vty)

        def fin(e):
            t = self.tuple_text(vs, e)
            return f"pure {t}" if monadic else t
        body = "".join(l + "\n" for l in lines) + self.block(st.body, benv, "mbody" if monadic else "pure", fin)
        self._shape_stack.pop()
        binder = stn if len(vs) == 1 else f"({stn} : {self.tuple_type(vs, env)})"
        init = self.tuple_text(vs, env)
        lines2, env2 = self.rebind(vs, env, stn)
        after = "".join(l + "\n" for l in lines2) + cont(env2)
        if not monadic:
            return f"let {stn} := {items}.foldl (fun {binder} {xn} =>\n{_ind(body)}) {init}\n" + after
        loop = f"(({items}.foldlM (fun {binder} {xn} =>\n{_ind(body)}) {init}) >>= fun {stn} =>\n{after})"
        if pre is not None:
            return f"({pre} >>= fun {items} =>\n{loop})"
        return loop

    # ---------------------------------------------------------------- whole function
    def translate(self):
        def off_end(_env):
            raise Untranslatable(f"{self.f.name}: control can fall off the end (returns None)")
        text = self.block(list(self.f.body), dict(self.env0), "fn", off_end)
        if self.shape != EXPECTED_SHAPE[self.kind]:
            raise Untranslatable(f"{self.f.name}: loop structure {self.shape} differs from the one the equivalence proof "
                                 f"covers {EXPECTED_SHAPE[self.kind]}")
        if self.kind == "mean" and self.value_method is None:
            raise Untranslatable(f"{self.f.name}: no Particle method is averaged")
        return text


# -------------------------------------------------------------------- tables: wrappers, defaults
def _num_const(node):
    if isinstance(node, ast.UnaryOp) and isinstance(node.op, ast.USub):
        v = _num_const(node.operand)
        return None if v is None else -v
    if isinstance(node, ast.Constant) and isinstance(node.value, (int, float)) and not isinstance(node.value, bool):
        return node.value
    return None


def _wrapper(fdef, dy_args):
    """-> (quantity name, (lo, hi, n)) of a dNdX wrapper"""
    args = [a.arg for a in fdef.args.args]
    if len(args) != 2 or fdef.args.vararg or fdef.args.kwarg or fdef.args.kwonlyargs:
        raise Untranslatable(f"{fdef.name}: unexpected signature")
    bp = args[1]
    d = fdef.args.defaults
    if len(d) != 1 or not (isinstance(d[0], ast.Constant) and d[0].value is None):
        raise Untranslatable(f"{fdef.name}: the binning argument does not default to None")
    body = [s for s in fdef.body if not _is_doc(s) and not _is_warn_only(s)]

    def is_none_test(t):
        """+1: `bp is None`, -1: `bp is not None`"""
        if isinstance(t, ast.Compare) and isinstance(t.left, ast.Name) and t.left.id == bp and len(t.ops) == 1 \
                and isinstance(t.comparators[0], ast.Constant) and t.comparators[0].value is None:
            return 1 if isinstance(t.ops[0], ast.Is) else -1 if isinstance(t.ops[0], ast.IsNot) else 0
        return 0

    def ret_call(stmts):
        stmts = [s for s in stmts if not _is_doc(s)]
        if len(stmts) == 1 and isinstance(stmts[0], ast.Return) and _call_attr(stmts[0].value) == ("self", "_differential_yield"):
            c = stmts[0].value
            kw = {k.arg: k.value for k in c.keywords}
            pos = list(c.args)
            vals = {}
            for name, v in zip(dy_args, pos):
                vals[name] = v
            vals.update(kw)
            if set(vals) != set(dy_args) or len(pos) + len(kw) != 2:
                raise Untranslatable(f"{fdef.name}: call of _differential_yield with unexpected arguments")
            return vals[dy_args[0]], vals[dy_args[1]]
        raise Untranslatable(f"{fdef.name}: branch is not `return self._differential_yield(...)`")

    if len(body) == 1 and isinstance(body[0], ast.If) and is_none_test(body[0].test) and body[0].orelse:
        a, b = ret_call(body[0].body), ret_call(body[0].orelse)
    elif len(body) == 2 and isinstance(body[0], ast.If) and is_none_test(body[0].test) and not body[0].orelse:
        a, b = ret_call(body[0].body), ret_call(body[1:])
    else:
        raise Untranslatable(f"{fdef.name}: body is not `if {bp} is None: return ... else: return ...`")
    if is_none_test(body[0].test) < 0:
        a, b = b, a
    (qa, da), (qb, db) = a, b
    if not (isinstance(qa, ast.Constant) and isinstance(qa.value, str) and isinstance(qb, ast.Constant) and qa.value == qb.value):
        raise Untranslatable(f"{fdef.name}: the two branches histogram different quantities")
    if not (isinstance(db, ast.Name) and db.id == bp):
        raise Untranslatable(f"{fdef.name}: a given binning is not passed on unchanged")
    if not (isinstance(da, ast.Tuple) and len(da.elts) == 3):
        raise Untranslatable(f"{fdef.name}: the default binning is not a literal (start, stop, num)")
    lo, hi, n = (_num_const(e) for e in da.elts)
    if lo is None or hi is None or not isinstance(n, int) or n < 1 or lo != int(lo) or hi != int(hi):
        raise Untranslatable(f"{fdef.name}: default binning {ast.unparse(da)} is not (integer, integer, positive int)")
    return qa.value, (int(lo), int(hi), n)


def _mid_defaults(fdef):
    d = fdef.args.defaults
    if len(d) != 2:
        raise Untranslatable(f"{fdef.name}: expected defaults for width and quantity")
    w, q = _num_const(d[0]), d[1]
    if w is None or not w > 0 or not (isinstance(q, ast.Constant) and isinstance(q.value, str)):
        raise Untranslatable(f"{fdef.name}: defaults are not (positive number, string)")
    a, b = (w, 1) if isinstance(w, int) else float(w).as_integer_ratio()
    return (a, b), q.value


def _check_readonly_list(tree, source):
    """`self.particle_objects` is the caller's nested list seen through ReadOnlyList: indexing, len and iteration
    must be the list's own"""
    cls = [n for n in tree.body if isinstance(n, ast.ClassDef) and n.name == "ReadOnlyList"]
    if len(cls) != 1:
        raise Untranslatable("class ReadOnlyList not found")
    c = cls[0]
    want = {"__getitem__": "return self._nested_list[index]", "__len__": "return len(self._nested_list)",
            "__iter__": "return iter(self._nested_list)"}
    meths = {f.name: f for f in c.body if isinstance(f, ast.FunctionDef)}
    init = meths.get("__init__")
    if init is None or len(init.args.args) != 2:
        raise Untranslatable("ReadOnlyList.__init__ not understood")
    body = [s for s in init.body if not _is_doc(s)]
    if len(body) != 1 or ast.unparse(body[0]) != f"self._nested_list = {init.args.args[1].arg}":
        raise Untranslatable("ReadOnlyList.__init__ does more than keep a reference to the list")
    for name, txt in want.items():
        f = meths.get(name)
        if f is None:
            raise Untranslatable(f"ReadOnlyList.{name} missing")
        body = [s for s in f.body if not _is_doc(s)]
        arg = f.args.args[1].arg if len(f.args.args) > 1 else None
        if len(body) != 1 or ast.unparse(body[0]) != txt.replace("index", arg or "index"):
            raise Untranslatable(f"ReadOnlyList.{name} is not `{txt}`")
    return dict(file=FILE, region="class ReadOnlyList", sha=pyexpr.src_hash(source, c))


def _lean_str(s):
    if not re.fullmatch(r"[A-Za-z0-9_]*", s):
        raise Untranslatable(f"method name {s!r}")
    return '"' + s + '"'


# -------------------------------------------------------------------- render
def extract(source: str):
    tree = ast.parse(source)
    regions = [_check_readonly_list(tree, source)]
    init = pyexpr.find_function(tree, "__init__", CLS)
    if init is None:
        raise Untranslatable("BulkObservables.__init__ not found")
    ib = [s for s in init.body if not _is_doc(s)]
    if len(init.args.args) != 2 or len(ib) != 1 \
            or ast.unparse(ib[0]) != f"self.particle_objects = ReadOnlyList({init.args.args[1].arg})":
        raise Untranslatable("BulkObservables.__init__ is not `self.particle_objects = ReadOnlyList(<argument>)`")
    regions.append(dict(file=FILE, region="__init__", sha=pyexpr.src_hash(source, init)))
    chk = pyexpr.find_function(tree, "_check_quantity_is_method", CLS)
    if chk is not None:
        for n in ast.walk(chk):
            if isinstance(n, (ast.Assign, ast.AugAssign, ast.AnnAssign, ast.Delete, ast.Global, ast.Nonlocal)) \
                    or (isinstance(n, ast.Call) and not (isinstance(n.func, ast.Name) and n.func.id in ("callable", "getattr", "AttributeError"))):
                raise Untranslatable("_check_quantity_is_method has effects beyond raising")
        regions.append(dict(file=FILE, region="_check_quantity_is_method (recognised, not modelled)",
                            sha=pyexpr.src_hash(source, chk)))
    out = dict(defs={}, quantity={}, default={}, mean_value={}, mid_default={}, notes=[], params={})
    dy = pyexpr.find_function(tree, "_differential_yield", CLS)
    if dy is None:
        raise Untranslatable("_differential_yield not found")
    fn = Fn("dn", dy, source)
    out["defs"]["differentialYield"] = fn.translate()
    out["notes"] += fn.notes
    regions.append(dict(file=FILE, region="_differential_yield", sha=pyexpr.src_hash(source, dy)))
    dy_args = [a.arg for a in dy.args.args][1:]
    for w in WRAPPERS:
        f = pyexpr.find_function(tree, w, CLS)
        if f is None:
            raise Untranslatable(f"{w} not found")
        out["quantity"][w], out["default"][w] = _wrapper(f, dy_args)
        regions.append(dict(file=FILE, region=w, sha=pyexpr.src_hash(source, f)))
    for py, lean in MIDS.items():
        f = pyexpr.find_function(tree, py, CLS)
        if f is None:
            raise Untranslatable(f"{py} not found")
        fn = Fn("yield" if lean == "midYield" else "mean", f, source)
        out["defs"][lean] = fn.translate()
        out["params"][lean] = fn.wname
        out["notes"] += [n for n in fn.notes if n not in out["notes"]]
        if fn.kind == "mean":
            out["mean_value"][py] = fn.value_method
        out["mid_default"][py] = _mid_defaults(f)
        regions.append(dict(file=FILE, region=py, sha=pyexpr.src_hash(source, f)))
    return out, regions


def render(source: str):
    ex, regions = extract(source)
    L = ["-- GENERATED by harness/translate/bulk.py from src/sparkx/BulkObservables.py -- do not edit",
         "import SparkxVerif.Core.Bulk", "", "namespace SparkxVerif.Gen.Bulk", "open SparkxVerif SparkxVerif.Bulk", "",
         "/-- wrapper -> the Particle method whose value is histogrammed -/",
         "def quantityOf : List (String × String) :=",
         "  [" + ", ".join(f"({_lean_str(w)}, {_lean_str(ex['quantity'][w])})" for w in WRAPPERS) + "]", "",
         "/-- wrapper -> default binning (start, stop, num) -/",
         "def defaultBinsOf : List (String × (Int × Int × Nat)) :=",
         "  [" + ", ".join("({}, (({} : Int), ({} : Int), {}))".format(_lean_str(w), *ex["default"][w]) for w in WRAPPERS) + "]", "",
         "/-- mid-rapidity mean -> the Particle method that is averaged (second component of a model particle) -/",
         "def meanValueOf : List (String × String) :=",
         "  [" + ", ".join(f"({_lean_str(k)}, {_lean_str(v)})" for k, v in ex["mean_value"].items()) + "]", "",
         "/-- mid-rapidity function -> default (y_width as numerator / denominator, quantity) -/",
         "def midDefaults : List (String × ((Nat × Nat) × String)) :=",
         "  [" + ", ".join(f"({_lean_str(k)}, (({a}, {b}), {_lean_str(q)}))" for k, ((a, b), q) in ex["mid_default"].items()) + "]", "",
         "section",
         "variable {α : Type} [Add α] [Sub α] [Mul α] [Div α] [Neg α] [NatCast α]",
         "  [LE α] [DecidableLE α] [LT α] [DecidableLT α]", "",
         "/-- `_differential_yield(quantity, bin_properties)`: `histograms_` of the returned Histogram -/",
         "def differentialYield (edges : List α) (evs : List (List (Option α))) : Except Err (List (List α)) :=",
         _ind(ex["defs"]["differentialYield"]), ""]
    for py, lean in MIDS.items():
        L += [f"/-- `{py}(y_width, quantity)` -/",
              f"def {lean} ({ex['params'][lean]} : α) (evs : List (List (Option α × α))) : Except Err α :=",
              _ind(ex["defs"][lean]), ""]
    L += ["end", "", "end SparkxVerif.Gen.Bulk"]
    return "\n".join(L) + "\n", regions, ex


def tables_from_lean(text: str):
    """the tables of a Gen/Bulk.lean (the freshly generated one, or the golden copy restored after a fallback)"""
    def pairs(name):
        m = re.search(r"def " + name + r" :[^\n]*:=\n\s*\[(.*)\]\n", text)
        if not m:
            raise ValueError(f"table {name} not found in Gen/Bulk.lean")
        return m.group(1)
    quantity = dict(re.findall(r'\("(\w+)", "(\w+)"\)', pairs("quantityOf")))
    default = {k: (int(a), int(b), int(c)) for k, a, b, c in
               re.findall(r'\("(\w+)", \(\((-?\d+) : Int\), \((-?\d+) : Int\), (\d+)\)\)', pairs("defaultBinsOf"))}
    mean_value = dict(re.findall(r'\("(\w+)", "(\w+)"\)', pairs("meanValueOf")))
    mid_default = {k: (int(a) / int(b), q) for k, a, b, q in
                   re.findall(r'\("(\w+)", \(\((\d+), (\d+)\), "(\w+)"\)\)', pairs("midDefaults"))}
    return dict(quantity=quantity, default=default, mean_value=mean_value, mid_default=mid_default)
