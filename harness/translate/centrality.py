"""Tie T for C19: src/sparkx/CentralityClasses.py -> Gen/Centrality.lean.

Regenerated on every run from the tree under test (stdlib `ast` only):

  * `__create_centrality_classes` -> `genBuild` (+ the class loop `genClassLoop`, the rank expression `genRank`):
      - the guards that raise `ValueError` (`if <int test>: raise ValueError`, the `multiplicity <op> 0` test inside the
        loop over `self.events_multiplicity_` or as `any(... for ...)`), in source order;
      - `sorted(self.events_multiplicity_, reverse=...)` (-> `sortDesc` / `sortAsc`);
      - every `int(<float expression of number_events and self.centrality_bins_[k]>)`: the float expression is rendered
        (pyexpr, generic mode) into `genRank`, with Python's `int()` kept abstract (`toNat`); `bins[k]` is a Python
        index (`pyIdx`, IndexError, negative wrap);
      - the loop that appends to `dNchdetaMin_` / `dNchdetaMax_`: a small symbolic execution of its body
        (int locals by substitution, `record[<int expr>]` through `pyIdx`, `float("inf")`, `if <int test>`),
        loop-carried int variables become parameters of the generated recursion, the two lists are accumulators.
  * `get_centrality_class` -> `genLookup` (+ `genLookupLoop`): statement blocks of `if` / `return` / one `for … in range`,
    tests `x <op> self.dNchdetaMin_[<int expr>]` joined by `and`, early returns and if/elif/else give the same term.
  * `__init__` is checked, not rendered: `events_multiplicity_` is the argument, `dNchdetaMin_` / `dNchdetaMax_` start
    as `[]`, `centrality_bins_` is assigned once, `__create_centrality_classes()` is called afterwards, and no other
    method touches those attributes.

Everything in `__create_centrality_classes` that does not flow into the two lists (the four sub samples, `np.mean`,
`dNchdetaAvg_`, `dNchdetaAvgErr_`) is skipped after an effect check: only local names and the two `Avg` lists are
written, no `raise` / `return` / `break`, only whitelisted calls.  Exceptions raised by those library calls are not
modelled (tie C covers them).  Anything else raises `Untranslatable` (golden fallback, tie = correspondence-only).
"""
import ast

from . import pyexpr
from .pyexpr import Untranslatable

CLS = "CentralityClasses"
A_EVENTS, A_BINS, A_MIN, A_MAX = "events_multiplicity_", "centrality_bins_", "dNchdetaMin_", "dNchdetaMax_"
INERT_ATTRS = {"dNchdetaAvg_", "dNchdetaAvgErr_"}
INERT_CALLS = {"len", "int", "float", "range", "enumerate", "sorted", "zip", "list", "sum", "min", "max", "abs",
               "np.mean", "np.sqrt", "np.std", "np.array", "np.asarray"}
MUTATORS = {"append", "sort", "insert", "pop", "clear", "extend", "remove", "reverse"}
RESERVED = {"rank", "record", "bins", "mins", "maxs", "rest_", "e", "events", "zero", "x", "r", "toNat", "edge", "n",
            "item", "lo", "hi", "value", "t1", "bins1", "a1", "a2",
            "if", "then", "else", "match", "with", "fun", "let", "do", "end", "at", "from", "have", "show", "in"}


def U(msg, node=None):
    where = f" (line {node.lineno})" if node is not None and hasattr(node, "lineno") else ""
    return Untranslatable(msg + where)


def self_attr(node, name=None):
    return (isinstance(node, ast.Attribute) and isinstance(node.value, ast.Name) and node.value.id == "self"
            and (name is None or node.attr == name))


def call_name(node):
    if isinstance(node, ast.Call):
        f = node.func
        if isinstance(f, ast.Name):
            return f.id
        if isinstance(f, ast.Attribute) and isinstance(f.value, ast.Name):
            return f"{f.value.id}.{f.attr}"
    return None


def body_of(f):
    b = list(f.body)
    if b and isinstance(b[0], ast.Expr) and isinstance(b[0].value, ast.Constant) and isinstance(b[0].value.value, str):
        b = b[1:]
    return b


def lname(py):
    """Lean identifier for a Python local"""
    s = "".join(ch if (ch.isalnum() or ch == "_") else "_" for ch in py)
    if not s or s[0].isdigit():
        s = "v_" + s
    if s in RESERVED or s.startswith("gen") or s[0] in "cvb" and s[1:].isdigit():
        s += "_"
    return s


def ind(lines, n):
    return [(" " * n) + l for l in lines]


def renumber(lines):
    """fresh variables c<k> / v<k> / b<k> numbered in order of first appearance in the text of one definition"""
    import re
    text = "\n".join(lines)
    for p in "cvb":
        seen = []
        for m in re.finditer(r"\b%s(\d+)\b" % p, text):
            if m.group(0) not in seen:
                seen.append(m.group(0))
        text = re.sub(r"\b%s(\d+)\b" % p, lambda m: "%s#%d" % (p, seen.index(m.group(0)) + 1), text)
        text = text.replace(p + "#", p)
    return text.split("\n")


def is_int_const(node):
    return isinstance(node, ast.Constant) and isinstance(node.value, int) and not isinstance(node.value, bool)


def is_zero(node):
    return isinstance(node, ast.Constant) and not isinstance(node.value, bool) \
        and isinstance(node.value, (int, float)) and node.value == 0


def is_inf(node):
    if isinstance(node, ast.Call) and call_name(node) == "float" and len(node.args) == 1 and not node.keywords \
            and isinstance(node.args[0], ast.Constant) and isinstance(node.args[0].value, str) \
            and node.args[0].value.strip().lower() in ("inf", "+inf", "infinity", "+infinity"):
        return True
    return isinstance(node, ast.Attribute) and isinstance(node.value, ast.Name) \
        and (node.value.id, node.attr) in (("math", "inf"), ("np", "inf"), ("numpy", "inf"))


CMP = {ast.Lt: "<", ast.LtE: "≤", ast.Gt: ">", ast.GtE: "≥", ast.Eq: "=", ast.NotEq: "≠"}


class Scope:
    """symbolic environment of one function: name -> ("int", term) | ("float", text, cvar) | ("list", term) |
    ("poison", why); `lens` maps an attribute of self to the Lean list whose length `len(self.attr)` is"""

    def __init__(self, lens, env=None):
        self.lens = lens
        self.env = dict(env or {})

    def copy(self):
        return Scope(self.lens, self.env)

    # ---- integer expressions (Python int -> Lean Int)
    def ie(self, node):
        if is_int_const(node):
            return f"({node.value} : Int)" if node.value >= 0 else f"(-{-node.value} : Int)"
        if isinstance(node, ast.Name):
            v = self.env.get(node.id)
            if v is None:
                raise U(f"name `{node.id}` is not a known integer local", node)
            if v[0] == "poison":
                raise U(f"`{node.id}` is used but was assigned outside the fragment ({v[1]})", node)
            if v[0] != "int":
                raise U(f"`{node.id}` is not an integer local", node)
            return v[1]
        if call_name(node) == "len" and len(node.args) == 1 and not node.keywords:
            a = node.args[0]
            if self_attr(a) and a.attr in self.lens:
                return f"(({self.lens[a.attr]}.length : Nat) : Int)"
            if isinstance(a, ast.Name) and self.env.get(a.id, ("",))[0] == "list":
                return f"(({self.env[a.id][1]}.length : Nat) : Int)"
            raise U("len() of something that is not part of the fragment", node)
        if isinstance(node, ast.BinOp) and isinstance(node.op, (ast.Add, ast.Sub, ast.Mult)):
            op = {ast.Add: "+", ast.Sub: "-", ast.Mult: "*"}[type(node.op)]
            return f"({self.ie(node.left)} {op} {self.ie(node.right)})"
        if isinstance(node, ast.UnaryOp) and isinstance(node.op, ast.USub):
            return f"(-{self.ie(node.operand)})"
        if isinstance(node, ast.UnaryOp) and isinstance(node.op, ast.UAdd):
            return self.ie(node.operand)
        raise U("not an integer expression of the fragment: " + ast.dump(node)[:80], node)

    def is_ie(self, node):
        try:
            self.ie(node)
            return True
        except Untranslatable:
            return False

    # ---- integer tests (no side effects) -> Lean Bool
    def it(self, node):
        if isinstance(node, ast.Compare) and len(node.ops) == 1 and type(node.ops[0]) in CMP:
            return f"decide ({self.ie(node.left)} {CMP[type(node.ops[0])]} {self.ie(node.comparators[0])})"
        if isinstance(node, ast.BoolOp):
            op = " && " if isinstance(node.op, ast.And) else " || "
            return "(" + op.join(self.it(v) for v in node.values) + ")"
        if isinstance(node, ast.UnaryOp) and isinstance(node.op, ast.Not):
            return f"(!{self.it(node.operand)})"
        raise U("not an integer test of the fragment: " + ast.dump(node)[:80], node)


# ===================================================================================================================
#  __create_centrality_classes
# ===================================================================================================================
class Create:
    def __init__(self, source, fn):
        self.source = source
        self.fn = fn
        self.rank_text = None      # Lean text of the float expression inside int(...), over `n` and `edge`
        self.rank_src = None
        self.counter = {"c": 0, "v": 0}
        self.loop_lines = None
        self.record_term = None

    def fresh(self, p):
        self.counter[p] += 1
        return f"{p}{self.counter[p]}"

    # ---- float expression inside int(...): returns (text, bins-index node | None, already bound cvar | None)
    def fe(self, node, sc):
        pend = []
        cvars = []

        def env(n, pr):
            if isinstance(n, ast.Name):
                v = sc.env.get(n.id)
                if v is None:
                    raise U(f"unknown name `{n.id}` in a float expression", n)
                if v[0] == "int":
                    if v[1] != "((events.length : Nat) : Int)":
                        raise U(f"integer local `{n.id}` other than the number of events in a float expression", n)
                    return "((n : Nat) : α)"
                if v[0] == "float":
                    if v[2] is not None:
                        cvars.append(v[2])
                    return v[1]
                raise U(f"`{n.id}` cannot be used in a float expression ({v[0]})", n)
            if isinstance(n, ast.Subscript):
                if self_attr(n.value, A_BINS):
                    pend.append(n.slice)
                    return "edge"
                raise U("subscript other than self.centrality_bins_[...] in a float expression", n)
            if call_name(n) == "len" and len(n.args) == 1 and self_attr(n.args[0], A_EVENTS):
                return "((n : Nat) : α)"
            if call_name(n) == "float" and len(n.args) == 1 and not n.keywords and not is_inf(n):
                return pr.p(n.args[0])
            if isinstance(n, (ast.Call, ast.Attribute)):
                raise U("call / attribute in a float expression: " + ast.dump(n)[:60], n)
            return None

        text = pyexpr.Printer("generic", env).p(node)
        idx = None
        if pend:
            if len({ast.dump(p) for p in pend}) > 1:
                raise U("two different percentile edges in one float expression", node)
            idx = pend[0]
        cv = None
        if cvars:
            if len(set(cvars)) > 1 or idx is not None:
                raise U("two different percentile edges in one float expression", node)
            cv = cvars[0]
        return text, idx, cv

    def bind_edge(self, sc, idx, k, n):
        """CPS: evaluate self.centrality_bins_[idx] -> fresh variable; k(cvar) gives the rest"""
        c = self.fresh("c")
        return [f"match pyIdx bins {sc.ie(idx)} with", "| .error e => .error e", f"| .ok {c} =>"] + ind(k(c), 2)

    def assign(self, st, sc, k, n=0):
        """`NAME = <int expr> | int(<float expr>) | <float expr> | sorted(events, reverse=..)`; k() continues"""
        name = st.targets[0].id
        val = st.value
        if sc.is_ie(val):
            sc.env[name] = ("int", sc.ie(val))
            return k()
        if call_name(val) == "sorted":
            if not (len(val.args) == 1 and self_attr(val.args[0], A_EVENTS)):
                raise U("sorted() of something other than self.events_multiplicity_", val)
            rev = False
            for kw in val.keywords:
                if kw.arg == "reverse" and isinstance(kw.value, ast.Constant) and isinstance(kw.value.value, bool):
                    rev = kw.value.value
                else:
                    raise U("sorted() with a key / non-literal reverse flag", val)
            sc.env[name] = ("list", "(sortDesc events)" if rev else "(sortAsc events)")
            return k()
        if call_name(val) == "int" and len(val.args) == 1 and not val.keywords:
            text, idx, cv = self.fe(val.args[0], sc)
            if idx is None and cv is None:
                raise U("int(<float expression>) without a percentile edge", val)
            self.register_rank(text, val)

            def done(c):
                sc.env[name] = ("int", f"((rank {c} : Nat) : Int)")
                return k()
            return self.bind_edge(sc, idx, done, n) if idx is not None else done(cv)
        # a float local (hoisted sub-expression of the rank)
        text, idx, cv = self.fe(val, sc)

        def done(c):
            sc.env[name] = ("float", text, c)
            return k()
        return self.bind_edge(sc, idx, done, n) if idx is not None else done(cv)

    def register_rank(self, text, node):
        if self.rank_text is None:
            self.rank_text = text
            self.rank_src = ast.unparse(node)
        elif self.rank_text != text:
            raise U("two different rank expressions int(...) flow into the class boundaries", node)

    # ---- the class loop
    def value_expr(self, node, sc, k, is_min):
        """record[<int expr>] or float('inf'); k(term) continues"""
        if is_inf(node):
            if not is_min:
                raise U("float('inf') appended to dNchdetaMax_", node)
            return k("Bnd.inf")
        if isinstance(node, ast.Subscript) and isinstance(node.value, ast.Name) \
                and sc.env.get(node.value.id, ("",))[0] == "list":
            term = sc.env[node.value.id][1]
            if self.record_term is None:
                self.record_term = term
            elif self.record_term != term:
                raise U("two different ranked lists are indexed in the class loop", node)
            v = self.fresh("v")
            return [f"match pyIdx record {sc.ie(node.slice)} with", "| .error e => .error e", f"| .ok {v} =>"] \
                + ind(k(f"(Bnd.fin {v})" if is_min else v), 2)
        raise U("appended value is neither <ranked list>[<int expr>] nor float('inf')", node)

    def loop_block(self, stmts, sc, acc, fin):
        """symbolic execution of the loop body; acc = (mins term, maxs term); fin(sc, acc) -> lines (recursive call)"""
        if not stmts:
            return fin(sc, acc)
        st, rest = stmts[0], stmts[1:]
        if isinstance(st, ast.Assign) and len(st.targets) == 1 and isinstance(st.targets[0], ast.Name):
            return self.assign(st, sc, lambda: self.loop_block(rest, sc, acc, fin))
        if isinstance(st, ast.Expr) and isinstance(st.value, ast.Call) and isinstance(st.value.func, ast.Attribute) \
                and st.value.func.attr == "append" and self_attr(st.value.func.value) \
                and st.value.func.value.attr in (A_MIN, A_MAX) and len(st.value.args) == 1 and not st.value.keywords:
            is_min = st.value.func.value.attr == A_MIN

            def k(term):
                a = (f"({acc[0]} ++ [{term}])", acc[1]) if is_min else (acc[0], f"({acc[1]} ++ [{term}])")
                return self.loop_block(rest, sc, a, fin)
            return self.value_expr(st.value.args[0], sc, k, is_min)
        if isinstance(st, ast.If):
            t = sc.it(st.test)
            a = self.loop_block(list(st.body) + rest, sc.copy(), acc, fin)
            b = self.loop_block(list(st.orelse) + rest, sc.copy(), acc, fin)
            return [f"if {t} then"] + ind(a, 2) + ["else"] + ind(b, 2)
        if isinstance(st, ast.Pass):
            return self.loop_block(rest, sc, acc, fin)
        raise U("statement outside the fragment in the class loop: " + ast.dump(st)[:80], st)

    def class_loop(self, loop, sc):
        """returns (definition lines of genClassLoop, call-site text pieces)"""
        if not (isinstance(loop.target, ast.Name) and call_name(loop.iter) == "range" and 1 <= len(loop.iter.args) <= 2
                and not loop.iter.keywords and not loop.orelse):
            raise U("class loop is not `for <name> in range(a, b)`", loop)
        a = sc.ie(loop.iter.args[0]) if len(loop.iter.args) == 2 else "(0 : Int)"
        b = sc.ie(loop.iter.args[-1])
        stored = []
        for n in ast.walk(loop):
            if isinstance(n, ast.Name) and isinstance(n.ctx, ast.Store) and n.id != loop.target.id and n.id not in stored:
                stored.append(n.id)
            if isinstance(n, (ast.For, ast.While)) and n is not loop:
                raise U("nested loop inside the class loop", n)
        carried = [x for x in stored if sc.env.get(x, ("",))[0] == "int"]
        for x in stored:
            if x in sc.env and x not in carried and sc.env[x][0] != "poison":
                raise U(f"`{x}` is re-assigned in the class loop but is not an integer local", loop)
        body_sc = sc.copy()
        for x in carried:
            body_sc.env[x] = ("int", lname(x))
        iv = lname(loop.target.id)
        body_sc.env[loop.target.id] = ("int", iv)

        def fin(s, acc):
            args = " ".join(f"({s.ie(ast.Name(id=x, ctx=ast.Load()))})" for x in carried)
            return [f"genClassLoop rank record bins rest_ {args} {acc[0]} {acc[1]}".replace("  ", " ")]
        lines = self.loop_block(list(loop.body), body_sc, ("mins", "maxs"), fin)
        if self.record_term is None:
            raise U("the class loop never reads the ranked sample", loop)
        text = "\n".join(lines)
        if "events" in text.replace("events_", ""):
            raise U("the class loop uses the number of events directly", loop)
        cparams = " → ".join(["Int"] * len(carried))
        cnames = " ".join(lname(x) for x in carried)
        sig = "List Int → " + (cparams + " → " if carried else "") + \
            "List (Bnd α) → List α → Except Err (List (Bnd α) × List α)"
        d = ["/-- the loop of `__create_centrality_classes` that fills `dNchdetaMin_` / `dNchdetaMax_`",
             f"(`for {loop.target.id} in {ast.unparse(loop.iter)}`; loop-carried: {', '.join(carried) or 'nothing'}) -/",
             "def genClassLoop (rank : γ → Nat) (record : List α) (bins : List γ) :",
             f"    {sig}",
             f"  | [], {cnames + ', ' if carried else ''}mins, maxs => .ok (mins, maxs)".replace(" ,", ","),
             f"  | {iv} :: rest_, {(cnames.replace(' ', ', ') + ', ') if carried else ''}mins, maxs =>"] + ind(lines, 4)
        init = " ".join(f"({sc.ie(ast.Name(id=x, ctx=ast.Load()))})" for x in carried)
        call = f"genClassLoop rank {self.record_term} bins (pyRange {a} {b}) {init} [] []".replace("  ", " ")
        return d, call

    # ---- statements of the function body that do not flow into the two lists
    def check_inert(self, st):
        for n in ast.walk(st):
            if isinstance(n, (ast.Raise, ast.Return, ast.Break, ast.Continue, ast.While, ast.Try, ast.With, ast.Delete,
                              ast.Global, ast.Nonlocal, ast.Import, ast.ImportFrom, ast.FunctionDef, ast.ClassDef,
                              ast.Lambda, ast.NamedExpr, ast.Yield, ast.YieldFrom, ast.Await, ast.Assert)):
                raise U(f"{type(n).__name__} in a part of __create_centrality_classes that is skipped", n)
            if isinstance(n, ast.Attribute) and isinstance(n.ctx, (ast.Store, ast.Del)):
                raise U("attribute assignment in a part of __create_centrality_classes that is skipped", n)
            if isinstance(n, ast.Subscript) and isinstance(n.ctx, (ast.Store, ast.Del)) and not isinstance(n.value, ast.Name):
                raise U("item assignment in a part of __create_centrality_classes that is skipped", n)
            if self_attr(n) and n.attr in (A_MIN, A_MAX):
                raise U("dNchdetaMin_ / dNchdetaMax_ touched outside the class loop", n)
            if isinstance(n, ast.Call):
                f = n.func
                if isinstance(f, ast.Attribute) and f.attr == "append" and (
                        isinstance(f.value, ast.Name) or (self_attr(f.value) and f.value.attr in INERT_ATTRS)
                        or (isinstance(f.value, ast.Subscript) and isinstance(f.value.value, ast.Name))):
                    continue
                if call_name(n) in INERT_CALLS:
                    continue
                raise U("call outside the whitelist in a skipped part: " + ast.dump(n.func)[:60], n)

    @staticmethod
    def stores(st):
        return {n.id for n in ast.walk(st) if isinstance(n, ast.Name) and isinstance(n.ctx, ast.Store)}

    @staticmethod
    def loads(node):
        return {n.id for n in ast.walk(node) if isinstance(n, ast.Name) and isinstance(n.ctx, ast.Load)}

    # ---- guards
    def elem_test(self, test, var):
        """`<var> <op> 0` -> Lean Bool over `multiplicity` and `zero`"""
        if not (isinstance(test, ast.Compare) and len(test.ops) == 1 and type(test.ops[0]) in (ast.Lt, ast.LtE, ast.Gt, ast.GtE)):
            raise U("multiplicity test is not a single order comparison with 0", test)
        l, r = test.left, test.comparators[0]
        op = CMP[type(test.ops[0])]
        if isinstance(l, ast.Name) and l.id == var and is_zero(r):
            return f"decide (multiplicity {op} zero)"
        if isinstance(r, ast.Name) and r.id == var and is_zero(l):
            return f"decide (zero {op} multiplicity)"
        raise U("multiplicity test is not `<element> <op> 0`", test)

    @staticmethod
    def is_raise_value(st):
        if not isinstance(st, ast.Raise) or st.exc is None:
            return False
        e = st.exc
        return (isinstance(e, ast.Call) and isinstance(e.func, ast.Name) and e.func.id == "ValueError") \
            or (isinstance(e, ast.Name) and e.id == "ValueError")

    def guard(self, st, sc):
        """Lean Bool of a statement that raises ValueError under a condition, or None"""
        if isinstance(st, ast.If) and not st.orelse and len(st.body) == 1 and isinstance(st.body[0], ast.Raise):
            if not self.is_raise_value(st.body[0]):
                raise U("raise of something other than ValueError", st)
            t = st.test
            if call_name(t) == "any" and len(t.args) == 1 and isinstance(t.args[0], ast.GeneratorExp):
                g = t.args[0]
                if not (len(g.generators) == 1 and not g.generators[0].ifs and isinstance(g.generators[0].target, ast.Name)
                        and self_attr(g.generators[0].iter, A_EVENTS)):
                    raise U("any(...) guard is not over self.events_multiplicity_", t)
                return f"events.any (fun multiplicity => {self.elem_test(g.elt, g.generators[0].target.id)})"
            return sc.it(t)
        if isinstance(st, ast.For) and any(isinstance(n, ast.Raise) for n in ast.walk(st)):
            it = st.iter
            var = None
            if self_attr(it, A_EVENTS) and isinstance(st.target, ast.Name):
                var = st.target.id
            elif call_name(it) == "enumerate" and len(it.args) == 1 and not it.keywords and self_attr(it.args[0], A_EVENTS) \
                    and isinstance(st.target, ast.Tuple) and len(st.target.elts) == 2 \
                    and all(isinstance(x, ast.Name) for x in st.target.elts):
                var = st.target.elts[1].id
            if var is None or st.orelse:
                raise U("a loop that raises is not over self.events_multiplicity_", st)
            gs = [s for s in st.body if isinstance(s, ast.If) and any(isinstance(n, ast.Raise) for n in ast.walk(s))]
            if len(gs) != 1 or sum(isinstance(n, ast.Raise) for n in ast.walk(st)) != 1:
                raise U("the loop over the events has more than one raise", st)
            g = gs[0]
            if not (not g.orelse and len(g.body) == 1 and self.is_raise_value(g.body[0])):
                raise U("the raise in the loop over the events is not `if <test>: raise ValueError`", g)
            for s in st.body:
                if s is not g:
                    self.check_inert(s)
            return f"events.any (fun multiplicity => {self.elem_test(g.test, var)})"
        return None

    def render(self):
        body = body_of(self.fn)
        loops = [i for i, s in enumerate(body) if isinstance(s, ast.For) and any(
            self_attr(n) and n.attr in (A_MIN, A_MAX) for n in ast.walk(s))]
        if len(loops) != 1:
            raise U("expected exactly one top-level loop that fills dNchdetaMin_ / dNchdetaMax_", self.fn)
        L = loops[0]
        # liveness (backwards): which top-level assignments flow into the class loop or a guard
        need = self.loads(body[L])
        live = set()
        guards = set()
        for i in range(L - 1, -1, -1):
            s = body[i]
            if any(isinstance(n, ast.Raise) for n in ast.walk(s)):
                guards.add(i)
                need |= self.loads(s.test) if isinstance(s, ast.If) else set()
            elif isinstance(s, ast.Assign) and len(s.targets) == 1 and isinstance(s.targets[0], ast.Name):
                if s.targets[0].id in need:
                    live.add(i)
                    need.discard(s.targets[0].id)
                    need |= self.loads(s.value)
        sc = Scope({A_EVENTS: "events", A_BINS: "bins"})
        loopdef = [None]

        def go(i):
            if i == len(body):
                raise U("class loop not reached")
            s = body[i]
            if i in guards:
                g = self.guard(s, sc)
                if g is None:
                    raise U("a statement that raises is not a ValueError guard of the fragment", s)
                return [f"if {g} then .error .value", "else"] + ind(go(i + 1), 2)
            if i in live:
                return self.assign(s, sc, lambda: go(i + 1))
            if i == L:
                d, call = self.class_loop(s, sc)
                loopdef[0] = d
                for t in body[L + 1:]:
                    self.check_inert(t)
                return [f"match {call} with", "| .error e => .error e", "| .ok (mins, maxs) => .ok ⟨mins, maxs⟩"]
            self.check_inert(s)
            for x in self.stores(s):
                sc.env[x] = ("poison", f"assigned by the skipped statement at line {s.lineno}")
            return go(i + 1)
        lines = go(0)
        if self.rank_text is None:
            raise U("no rank expression int(...) flows into the class boundaries", self.fn)
        rank = ["/-- `%s`; `toNat` is Python's `int()`, `n` the number of events, `edge` the percentile -/" % self.rank_src,
                "def genRank (toNat : F → Nat) (n : Nat) (edge : F) : Nat :=",
                "  toNat " + self.rank_text.replace(": α)", ": F)")]
        build = ["/-- `__create_centrality_classes`: guards, ranking, class loop; `rank` is `edge ↦ genRank int n edge` -/",
                 "def genBuild (rank : γ → Nat) (zero : α) (events : List α) (bins : List γ) : Except Err (Classes α) :="] \
            + ind(lines, 2)
        return rank, loopdef[0], build


# ===================================================================================================================
#  get_centrality_class
# ===================================================================================================================
class Lookup:
    def __init__(self, source, fn):
        self.source = source
        self.fn = fn
        args = [a.arg for a in fn.args.args]
        if len(args) != 2 or fn.args.vararg or fn.args.kwarg or fn.args.kwonlyargs:
            raise U("get_centrality_class does not take exactly (self, <multiplicity>)", fn)
        self.q = args[1]
        self.nb = 0
        self.loopdef = None

    def fresh(self):
        self.nb += 1
        return f"b{self.nb}"

    def test(self, node, sc, a, b):
        """if node then a else b (lines); Python evaluation order, `and` short-circuits"""
        if isinstance(node, ast.BoolOp) and isinstance(node.op, ast.And):
            cur = a
            # right-to-left so that the first conjunct is tested first
            for v in reversed(node.values):
                cur = self.test(v, sc, cur, b)
            return cur
        if isinstance(node, ast.Compare) and len(node.ops) == 1 and type(node.ops[0]) in (ast.Lt, ast.LtE, ast.Gt, ast.GtE):
            l, r = node.left, node.comparators[0]
            op = type(node.ops[0])
            flip = {ast.Lt: ast.Gt, ast.Gt: ast.Lt, ast.LtE: ast.GtE, ast.GtE: ast.LtE}
            sub = None
            if isinstance(l, ast.Name) and l.id == self.q and isinstance(r, ast.Subscript) and self_attr(r.value, A_MIN):
                sub = r
            elif isinstance(r, ast.Name) and r.id == self.q and isinstance(l, ast.Subscript) and self_attr(l.value, A_MIN):
                sub, op = l, flip[op]
            if sub is not None:
                # x >= m  <->  m <= x (leVal);  x < m (gtVal);  x > m (ltVal);  x <= m (geVal)
                fn = {ast.GtE: "Bnd.leVal", ast.Lt: "Bnd.gtVal", ast.Gt: "Bnd.ltVal", ast.LtE: "Bnd.geVal"}[op]
                v = self.fresh()
                return [f"match pyIdx mins {sc.ie(sub.slice)} with", "| .error e => .error e", f"| .ok {v} =>"] \
                    + ind([f"if {fn} {v} x then"] + ind(a, 2) + ["else"] + ind(b, 2), 2)
        if self.q not in {n.id for n in ast.walk(node) if isinstance(n, ast.Name)}:
            return [f"if {sc.it(node)} then"] + ind(a, 2) + ["else"] + ind(b, 2)
        raise U("test is not `<multiplicity> <op> self.dNchdetaMin_[<int expr>]` (joined by `and`)", node)

    def block(self, stmts, sc, ret, k):
        """lines of the Lean term for a statement list; ret(term) renders `return`, k() what happens when the block
        falls through (None: falling through is not allowed)"""
        if not stmts:
            if k is None:
                raise U("get_centrality_class can fall off its end (returns None)", self.fn)
            return k()
        st, rest = stmts[0], stmts[1:]
        if isinstance(st, ast.Return):
            if st.value is None:
                raise U("bare return", st)
            return ret(sc.ie(st.value))
        if isinstance(st, ast.If):
            # both branches continue with the statements after the `if`
            a = self.block(list(st.body) + rest, sc.copy(), ret, k)
            b = self.block(list(st.orelse) + rest, sc.copy(), ret, k)
            return self.test(st.test, sc, a, b)
        if isinstance(st, ast.Assign) and len(st.targets) == 1 and isinstance(st.targets[0], ast.Name) \
                and st.targets[0].id != self.q:
            sc.env[st.targets[0].id] = ("int", sc.ie(st.value))
            return self.block(rest, sc, ret, k)
        if isinstance(st, ast.Pass):
            return self.block(rest, sc, ret, k)
        if isinstance(st, ast.For):
            if self.loopdef is not None:
                raise U("more than one loop in get_centrality_class", st)
            if not (isinstance(st.target, ast.Name) and call_name(st.iter) == "range" and 1 <= len(st.iter.args) <= 2
                    and not st.iter.keywords and not st.orelse):
                raise U("loop is not `for <name> in range(a, b)`", st)
            for n in ast.walk(st):
                if isinstance(n, (ast.Break, ast.Continue, ast.While)) or (isinstance(n, ast.For) and n is not st):
                    raise U("break / continue / nested loop in get_centrality_class", n)
            a = sc.ie(st.iter.args[0]) if len(st.iter.args) == 2 else "(0 : Int)"
            b = sc.ie(st.iter.args[-1])
            iv = lname(st.target.id)
            bsc = sc.copy()
            bsc.env[st.target.id] = ("int", iv)
            self.loopdef = "pending"
            lines = self.block(list(st.body), bsc, lambda t: [f".ok (some {t})"], lambda: ["genLookupLoop mins x rest_"])
            self.loopdef = ["/-- the loop `for %s in %s` of `get_centrality_class`: `some c` = `return c` inside the loop -/"
                            % (st.target.id, ast.unparse(st.iter)),
                            "def genLookupLoop (mins : List (Bnd α)) (x : α) : List Int → Except Err (Option Int)",
                            "  | [] => .ok none",
                            f"  | {iv} :: rest_ =>"] + ind(lines, 4)
            for n in ast.walk(st):
                if isinstance(n, ast.Name) and isinstance(n.ctx, ast.Store):
                    sc.env[n.id] = ("poison", "assigned inside the loop")
            after = self.block(rest, sc, ret, k)
            return [f"match genLookupLoop mins x (pyRange {a} {b}) with", "| .error e => .error e",
                    "| .ok (some r) => " + " ".join(ret("r")), "| .ok none =>"] + ind(after, 2)
        raise U("statement outside the fragment in get_centrality_class: " + ast.dump(st)[:80], st)

    def render(self):
        sc = Scope({A_MIN: "mins"})
        lines = self.block(body_of(self.fn), sc, lambda t: [f".ok {t}"], None)
        if self.loopdef is None:
            self.loopdef = []
        d = ["/-- `get_centrality_class` (`x` is the query multiplicity `%s`) -/" % self.q,
             "def genLookup (mins : List (Bnd α)) (x : α) : Except Err Int :="] + ind(lines, 2)
        return self.loopdef, d


# ===================================================================================================================
def check_init(cls, init, create, lookup):
    """what the generated model takes for granted about the constructor"""
    body = body_of(init)
    params = [a.arg for a in init.args.args]
    seen = {}
    call_at = None
    for i, st in enumerate(body):
        tgt = None
        if isinstance(st, ast.Assign) and len(st.targets) == 1:
            tgt, val = st.targets[0], st.value
        elif isinstance(st, ast.AnnAssign) and st.value is not None:
            tgt, val = st.target, st.value
        if tgt is not None and self_attr(tgt) and tgt.attr in (A_EVENTS, A_BINS, A_MIN, A_MAX):
            if tgt.attr in seen:
                raise U(f"self.{tgt.attr} is assigned twice in __init__", st)
            seen[tgt.attr] = (i, val)
        if isinstance(st, ast.Expr) and isinstance(st.value, ast.Call) and self_attr(st.value.func) \
                and st.value.func.attr in (create.name, "_" + CLS + create.name) and not st.value.args:
            if call_at is not None:
                raise U("__create_centrality_classes is called twice", st)
            call_at = i
    if set(seen) != {A_EVENTS, A_BINS, A_MIN, A_MAX} or call_at is None:
        raise U("__init__ does not set the four attributes and call __create_centrality_classes at top level", init)
    if any(i > call_at for i, _ in seen.values()):
        raise U("an attribute of the fragment is assigned after __create_centrality_classes()", init)
    ev = seen[A_EVENTS][1]
    if not (isinstance(ev, ast.Name) and ev.id in params):
        raise U("self.events_multiplicity_ is not the constructor argument", init)
    for a in (A_MIN, A_MAX):
        v = seen[a][1]
        if not (isinstance(v, ast.List) and not v.elts):
            raise U(f"self.{a} does not start as []", init)
    if not isinstance(seen[A_BINS][1], ast.Name):
        raise U("self.centrality_bins_ is not assigned from a local list", init)
    # nothing else in the class writes or mutates the four attributes
    allowed = {id(n) for n in ast.walk(create)} | {id(n) for n in ast.walk(init)}
    for n in ast.walk(cls):
        if id(n) in allowed:
            continue
        if self_attr(n) and n.attr in (A_EVENTS, A_BINS, A_MIN, A_MAX) and isinstance(n.ctx, (ast.Store, ast.Del)):
            raise U(f"self.{n.attr} is assigned outside __init__ / __create_centrality_classes", n)
        if isinstance(n, ast.Call) and isinstance(n.func, ast.Attribute) and n.func.attr in MUTATORS \
                and self_attr(n.func.value) and n.func.value.attr in (A_EVENTS, A_BINS, A_MIN, A_MAX):
            raise U(f"self.{n.func.value.attr}.{n.func.attr}() outside __init__ / __create_centrality_classes", n)
    for st in body[call_at + 1:]:
        for n in ast.walk(st):
            if self_attr(n) and n.attr in (A_EVENTS, A_BINS, A_MIN, A_MAX):
                raise U("an attribute of the fragment is used after __create_centrality_classes() in __init__", n)
    for n in ast.walk(init):
        if isinstance(n, ast.Call) and isinstance(n.func, ast.Attribute) and n.func.attr in MUTATORS \
                and self_attr(n.func.value) and n.func.value.attr in (A_EVENTS, A_MIN, A_MAX):
            raise U(f"__init__ mutates self.{n.func.value.attr}", n)
    # class-level state (memo tables etc.) is outside the fragment
    for st in cls.body:
        if isinstance(st, (ast.Assign, ast.AnnAssign)) and not (isinstance(st, ast.AnnAssign) and st.value is None):
            raise U("class-level attribute (shared state) in CentralityClasses", st)


# ===================================================================================================================
#  __init__: edge cleaning (sortedness test + in-place sort, duplicate removal, range check)
# ===================================================================================================================
class Init:
    """`__init__` -> `genInit lo hi bins : Except Err (List γ)` (the list that becomes `centrality_bins_`, or the
    ValueError of the range check), with the two loops `genSortedLoop` (the `all(...)` generator) and `genDedupLoop`
    (the `for item in centrality_bins` loop with its list and its set).  `0` / `0.0` and `100` / `100.0` of the range
    check are the parameters `lo` / `hi` (the model is order-only); warnings, the duplicate flag and the argument type
    checks (`TypeError`) are not modelled."""

    def __init__(self, source, fn):
        self.source = source
        self.fn = fn
        params = [a.arg for a in fn.args.args]
        if len(params) != 3 or fn.args.vararg or fn.args.kwarg or fn.args.kwonlyargs:
            raise U("__init__ does not take exactly (self, events_multiplicity, centrality_bins)", fn)
        self.params = params
        self.P = None
        self.sorted_def = None
        self.dedup_def = None
        self.nt = 0

    @staticmethod
    def is_warn(st):
        return isinstance(st, ast.Expr) and call_name(st.value) in ("warnings.warn", "warn")

    def bound(self, node):
        """0 / 0.0 -> lo, 100 / 100.0 -> hi"""
        if isinstance(node, ast.Constant) and not isinstance(node.value, bool) and isinstance(node.value, (int, float)):
            if node.value == 0:
                return "lo"
            if node.value == 100:
                return "hi"
        raise U("range check against a constant other than 0 / 100", node)

    def range_test(self, node, var):
        if isinstance(node, ast.BoolOp):
            op = " || " if isinstance(node.op, ast.Or) else " && "
            return "(" + op.join(self.range_test(v, var) for v in node.values) + ")"
        if isinstance(node, ast.Compare) and len(node.ops) == 1 and type(node.ops[0]) in (ast.Lt, ast.LtE, ast.Gt, ast.GtE):
            l, r = node.left, node.comparators[0]
            op = CMP[type(node.ops[0])]
            if isinstance(l, ast.Name) and l.id == var:
                return f"decide (value {op} {self.bound(r)})"
            if isinstance(r, ast.Name) and r.id == var:
                return f"decide ({self.bound(l)} {op} value)"
        raise U("range check is not built from `<edge> <op> 0|100`", node)

    def sorted_loop(self, gen):
        """`all(<P[ie] op P[ie]> for V in range(a, b))` -> (definition lines, call text)"""
        if not (isinstance(gen, ast.GeneratorExp) and len(gen.generators) == 1 and not gen.generators[0].ifs
                and isinstance(gen.generators[0].target, ast.Name) and call_name(gen.generators[0].iter) == "range"
                and 1 <= len(gen.generators[0].iter.args) <= 2 and not gen.generators[0].iter.keywords):
            raise U("sortedness test is not all(... for <name> in range(a, b))", gen)
        g = gen.generators[0]
        sc = Scope({}, {self.P: ("list", "bins")})
        a = sc.ie(g.iter.args[0]) if len(g.iter.args) == 2 else "(0 : Int)"
        b = sc.ie(g.iter.args[-1])
        iv = lname(g.target.id)
        sc.env[g.target.id] = ("int", iv)
        e = gen.elt
        if not (isinstance(e, ast.Compare) and len(e.ops) == 1 and type(e.ops[0]) in (ast.Lt, ast.LtE, ast.Gt, ast.GtE)):
            raise U("sortedness test does not compare two neighbouring edges", e)
        sides = []
        for x in (e.left, e.comparators[0]):
            if not (isinstance(x, ast.Subscript) and isinstance(x.value, ast.Name) and x.value.id == self.P):
                raise U("sortedness test does not compare two entries of the edge list", x)
            sides.append(sc.ie(x.slice))
        d = ["/-- `all(%s)` in `__init__` (False at the first failing pair) -/" % ast.unparse(gen),
             "def genSortedLoop (bins : List γ) : List Int → Except Err Bool",
             "  | [] => .ok true",
             f"  | {iv} :: rest_ =>",
             f"    match pyIdx bins {sides[0]} with", "    | .error e => .error e", "    | .ok a1 =>",
             f"      match pyIdx bins {sides[1]} with", "      | .error e => .error e", "      | .ok a2 =>",
             f"        if decide (a1 {CMP[type(e.ops[0])]} a2) then genSortedLoop bins rest_",
             "        else .ok false"]
        return d, (a, b)

    def dedup_block(self, stmts, item, U_, S_, st, fin):
        """symbolic execution of the body of `for item in P`; st = (unique term, seen term)"""
        if not stmts:
            return fin(st)
        s, rest = stmts[0], stmts[1:]
        if isinstance(s, ast.Expr) and isinstance(s.value, ast.Call) and isinstance(s.value.func, ast.Attribute) \
                and isinstance(s.value.func.value, ast.Name) and len(s.value.args) == 1 and not s.value.keywords \
                and isinstance(s.value.args[0], ast.Name) and s.value.args[0].id == item:
            tgt, meth = s.value.func.value.id, s.value.func.attr
            if tgt == U_ and meth == "append":
                return self.dedup_block(rest, item, U_, S_, (f"({st[0]} ++ [item])", st[1]), fin)
            if tgt == S_ and meth == "add":
                return self.dedup_block(rest, item, U_, S_, (st[0], f"(item :: {st[1]})"), fin)
        if isinstance(s, ast.Assign) and len(s.targets) == 1 and isinstance(s.targets[0], ast.Name) \
                and isinstance(s.value, ast.Constant) and isinstance(s.value.value, bool) \
                and s.targets[0].id not in (U_, S_, item, self.P):
            self.flags.add(s.targets[0].id)
            return self.dedup_block(rest, item, U_, S_, st, fin)
        if isinstance(s, ast.Pass):
            return self.dedup_block(rest, item, U_, S_, st, fin)
        if isinstance(s, ast.If):
            t = s.test
            neg = False
            if isinstance(t, ast.UnaryOp) and isinstance(t.op, ast.Not):
                t, neg = t.operand, True
            if not (isinstance(t, ast.Compare) and len(t.ops) == 1 and isinstance(t.ops[0], (ast.In, ast.NotIn))
                    and isinstance(t.left, ast.Name) and t.left.id == item
                    and isinstance(t.comparators[0], ast.Name) and t.comparators[0].id == S_):
                raise U("test in the duplicate-removal loop is not `item [not] in <set>`", s)
            if isinstance(t.ops[0], ast.NotIn):
                neg = not neg
            cond = f"decide (item ∈ {st[1]})"
            a = self.dedup_block(list(s.body) + rest, item, U_, S_, st, fin)
            b = self.dedup_block(list(s.orelse) + rest, item, U_, S_, st, fin)
            return [f"if {'!(' + cond + ')' if neg else cond} then"] + ind(a, 2) + ["else"] + ind(b, 2)
        raise U("statement outside the fragment in the duplicate-removal loop: " + ast.dump(s)[:80], s)

    def render(self):
        body = body_of(self.fn)
        ev_param = None
        for st in body:
            if isinstance(st, ast.Assign) and len(st.targets) == 1 and self_attr(st.targets[0], A_EVENTS) \
                    and isinstance(st.value, ast.Name):
                ev_param = st.value.id
        rest_params = [p for p in self.params[1:] if p != ev_param]
        if ev_param is None or len(rest_params) != 1:
            raise U("cannot tell which constructor argument is the edge list", self.fn)
        self.P = rest_params[0]
        self.flags = set()
        cur = "bins"          # Lean term of the current value of the edge list
        nb = 0
        lists, sets = {}, {}  # python local -> Lean term
        lines = []            # emitted prefix lines (each continues on the next line, same indent handled below)
        result = None

        def emit(i, cur, lists, sets):
            nonlocal nb, result
            if i == len(body):
                raise U("__init__ ends without calling __create_centrality_classes()")
            st = body[i]
            # argument type checks
            if isinstance(st, ast.If) and not st.orelse and len(st.body) == 1 and isinstance(st.body[0], ast.Raise):
                t = st.test
                exc = st.body[0].exc
                exc_name = exc.func.id if isinstance(exc, ast.Call) and isinstance(exc.func, ast.Name) else getattr(exc, "id", None)
                if exc_name == "TypeError" and isinstance(t, ast.UnaryOp) and isinstance(t.op, ast.Not) \
                        and call_name(t.operand) == "isinstance":
                    return emit(i + 1, cur, lists, sets)
                if exc_name == "ValueError" and call_name(t) == "any" and len(t.args) == 1 \
                        and isinstance(t.args[0], ast.GeneratorExp):
                    g = t.args[0]
                    if not (len(g.generators) == 1 and not g.generators[0].ifs and isinstance(g.generators[0].target, ast.Name)
                            and isinstance(g.generators[0].iter, ast.Name) and g.generators[0].iter.id == self.P):
                        raise U("range check is not any(... for <name> in <edge list>)", t)
                    test = self.range_test(g.elt, g.generators[0].target.id)
                    return [f"if {cur}.any (fun value => {test}) then .error .value", "else"] \
                        + ind(emit(i + 1, cur, lists, sets), 2)
                raise U("a raise in __init__ outside the fragment", st)
            # sortedness test + in-place sort
            if isinstance(st, ast.If) and not st.orelse and isinstance(st.test, ast.UnaryOp) and isinstance(st.test.op, ast.Not) \
                    and call_name(st.test.operand) == "all" and len(st.test.operand.args) == 1:
                if self.sorted_def is not None or cur != "bins":
                    raise U("second sortedness test in __init__", st)
                acts = [x for x in st.body if not self.is_warn(x)]
                # either the in-place `<edge list>.sort()` or the copy `<edge list> = sorted(<edge list>)`
                call = None
                if len(acts) == 1 and isinstance(acts[0], ast.Expr) and call_name(acts[0].value) == self.P + ".sort" \
                        and not acts[0].value.args:
                    call = acts[0].value
                elif len(acts) == 1 and isinstance(acts[0], ast.Assign) and len(acts[0].targets) == 1 \
                        and isinstance(acts[0].targets[0], ast.Name) and acts[0].targets[0].id == self.P \
                        and call_name(acts[0].value) == "sorted" and len(acts[0].value.args) == 1 \
                        and isinstance(acts[0].value.args[0], ast.Name) and acts[0].value.args[0].id == self.P:
                    call = acts[0].value
                if call is None:
                    raise U("the sortedness test does not guard exactly `<edge list>.sort()` / "
                            "`<edge list> = sorted(<edge list>)`", st)
                rev = False
                for kw in call.keywords:
                    if kw.arg == "reverse" and isinstance(kw.value, ast.Constant) and isinstance(kw.value.value, bool):
                        rev = kw.value.value
                    else:
                        raise U("sort with a key / non-literal reverse flag", call)
                self.sorted_def, (a, b) = self.sorted_loop(st.test.operand.args[0])
                nb += 1
                new = f"bins{nb}"
                srt = "sortDesc" if rev else "sortAsc"
                return [f"match genSortedLoop {cur} (pyRange {a} {b}) with", "| .error e => .error e", "| .ok t1 =>"] \
                    + ind([f"let {new} := if !t1 then {srt} {cur} else {cur}"] + emit(i + 1, new, lists, sets), 2)
            # locals of the duplicate removal
            if isinstance(st, ast.Assign) and len(st.targets) == 1 and isinstance(st.targets[0], ast.Name):
                n, v = st.targets[0].id, st.value
                if n in (self.P, ev_param):
                    raise U("a constructor argument is re-assigned", st)
                if isinstance(v, ast.List) and not v.elts:
                    return emit(i + 1, cur, {**lists, n: "[]"}, sets)
                if call_name(v) == "set" and not v.args and not v.keywords:
                    return emit(i + 1, cur, lists, {**sets, n: "[]"})
                if isinstance(v, ast.Constant) and isinstance(v.value, bool):
                    self.flags.add(n)
                    return emit(i + 1, cur, lists, sets)
                raise U("assignment outside the fragment in __init__: " + ast.dump(st)[:80], st)
            if isinstance(st, ast.For):
                if self.dedup_def is not None:
                    raise U("second loop in __init__", st)
                if not (isinstance(st.target, ast.Name) and isinstance(st.iter, ast.Name) and st.iter.id == self.P
                        and not st.orelse):
                    raise U("loop in __init__ is not `for <item> in <edge list>`", st)
                for n in ast.walk(st):
                    if isinstance(n, (ast.Break, ast.Continue, ast.Return, ast.Raise, ast.While)) or \
                            (isinstance(n, ast.For) and n is not st):
                        raise U("break / continue / raise / nested loop in the duplicate-removal loop", n)
                used = {n.id for n in ast.walk(st) if isinstance(n, ast.Name)}
                ul = [x for x in lists if x in used]
                us = [x for x in sets if x in used]
                if len(ul) != 1 or len(us) != 1 or lists[ul[0]] != "[]" or sets[us[0]] != "[]":
                    raise U("the duplicate-removal loop does not use exactly one fresh list and one fresh set", st)
                U_, S_ = ul[0], us[0]
                un, sn = lname(U_), lname(S_)
                bl = self.dedup_block(list(st.body), st.target.id, U_, S_, (un, sn),
                                      lambda s_: [f"genDedupLoop rest_ {s_[0]} {s_[1]}"])
                self.dedup_def = ["/-- the loop `for %s in %s` of `__init__`: `%s` (list) and `%s` (set, as a list) -/"
                                  % (st.target.id, self.P, U_, S_),
                                  "def genDedupLoop : List γ → List γ → List γ → List γ",
                                  f"  | [], {un}, {sn} => {un}",
                                  f"  | item :: rest_, {un}, {sn} =>"] + ind(bl, 4)
                new_lists = {**lists, U_: un}
                new_sets = {k: v for k, v in sets.items() if k != S_}
                return [f"let {un} := genDedupLoop {cur} [] []"] + emit(i + 1, cur, new_lists, new_sets)
            # warnings
            if self.is_warn(st):
                return emit(i + 1, cur, lists, sets)
            if isinstance(st, ast.If) and not st.orelse and isinstance(st.test, ast.Name) and st.test.id in self.flags \
                    and all(self.is_warn(x) for x in st.body):
                return emit(i + 1, cur, lists, sets)
            # attributes
            tgt = val = None
            if isinstance(st, ast.Assign) and len(st.targets) == 1:
                tgt, val = st.targets[0], st.value
            elif isinstance(st, ast.AnnAssign):
                tgt, val = st.target, st.value
            if tgt is not None and self_attr(tgt):
                if tgt.attr == A_BINS:
                    if not (isinstance(val, ast.Name) and val.id in lists and lists[val.id] != "[]"):
                        raise U("self.centrality_bins_ is not the list built by the duplicate-removal loop", st)
                    result = lists[val.id]
                elif tgt.attr == A_EVENTS:
                    pass
                elif not (isinstance(val, ast.List) and not val.elts):
                    raise U(f"self.{tgt.attr} is not initialised with []", st)
                return emit(i + 1, cur, lists, sets)
            if isinstance(st, ast.Expr) and isinstance(st.value, ast.Call) and self_attr(st.value.func) \
                    and "create_centrality_classes" in st.value.func.attr:
                if result is None:
                    raise U("self.centrality_bins_ is not set before __create_centrality_classes()", st)
                return [f".ok {result}"]
            raise U("statement outside the fragment in __init__: " + ast.dump(st)[:80], st)

        lines = emit(0, cur, lists, sets)
        if self.sorted_def is None or self.dedup_def is None:
            raise U("__init__ has no sortedness test / duplicate-removal loop of the fragment", self.fn)
        d = ["/-- `__init__`: the list that becomes `centrality_bins_` (edge list `%s`; `lo` = 0, `hi` = 100) -/" % self.P,
             "def genInit (lo hi : γ) (bins : List γ) : Except Err (List γ) :="] + ind(lines, 2)
        return self.sorted_def, self.dedup_def, d


def render(source: str, golden_init=None):
    tree = ast.parse(source)
    cls = next((n for n in tree.body if isinstance(n, ast.ClassDef) and n.name == CLS), None)
    if cls is None:
        raise Untranslatable("class CentralityClasses not found")
    fns = {f.name: f for f in cls.body if isinstance(f, ast.FunctionDef)}
    init = fns.get("__init__")
    create = fns.get("__create_centrality_classes") or fns.get("_CentralityClasses__create_centrality_classes")
    lookup = fns.get("get_centrality_class")
    if init is None or create is None or lookup is None:
        raise Untranslatable("__init__ / __create_centrality_classes / get_centrality_class not found")
    if len(create.args.args) != 1 or create.decorator_list or lookup.decorator_list or init.decorator_list:
        raise U("unexpected signature / decorator", create)
    check_init(cls, init, create, lookup)
    rank, loopdef, build = Create(source, create).render()
    lloop, ldef = Lookup(source, lookup).render()
    init_tie = "T (rendered: sortedness test + sort, duplicate removal, range check; attributes / call order checked)"
    try:
        sdef, ddef, idef = Init(source, init).render()
        init_lines = ["section clean",
                      "variable {γ : Type} [LE γ] [LT γ] [DecidableLE γ] [DecidableLT γ] [DecidableEq γ]", ""] \
            + sdef + [""] + ddef + [""] + idef + ["", "end clean"]
    except Untranslatable as e:
        # region-wise fallback: the edge cleaning of the committed golden model takes over (tie C for this region)
        if golden_init is None:
            raise
        init_lines = golden_init
        init_tie = "C (golden model of the edge cleaning; translator could not re-derive: %s); attributes / call order checked" % e
    L = ["-- GENERATED by harness/translate/centrality.py from src/sparkx/CentralityClasses.py -- do not edit",
         "import SparkxVerif.Core.Centrality", "",
         "set_option linter.unusedVariables false", "",
         "namespace SparkxVerif.Gen.Centrality", "open SparkxVerif.Centrality", "",
         "section rank",
         "variable {F : Type} [Add F] [Sub F] [Mul F] [Div F] [Neg F] [NatCast F]", ""]
    L += rank + ["", "end rank", "", "section order",
                 "variable {α γ : Type} [LE α] [LT α] [DecidableLE α] [DecidableLT α]", ""]
    L += renumber(loopdef) + [""] + renumber(build) + [""]
    if lloop:
        L += renumber(lloop) + [""]
    L += renumber(ldef) + ["", "end order", "", INIT_BEGIN] + init_lines + [INIT_END, "", "end SparkxVerif.Gen.Centrality"]
    regions = [dict(file="src/sparkx/CentralityClasses.py", region=f.name, lines=[f.lineno, f.end_lineno],
                    sha=pyexpr.src_hash(source, f), tie=t)
               for f, t in ((create, "T (rendered: guards, ranking, rank expression, class loop)"),
                            (lookup, "T (rendered completely)"),
                            (init, init_tie))]
    return "\n".join(L) + "\n", regions


INIT_BEGIN = "-- BEGIN __init__ (edge cleaning)"
INIT_END = "-- END __init__"


def golden_init_section(golden_text):
    """the lines between the markers in a committed Gen/Centrality.lean, or None"""
    ls = golden_text.split("\n")
    if INIT_BEGIN in ls and INIT_END in ls:
        return ls[ls.index(INIT_BEGIN) + 1:ls.index(INIT_END)]
    return None
