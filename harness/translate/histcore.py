"""Tie T for C09: the filling / scaling core of src/sparkx/Histogram.py -> Gen/HistCore.lean.

A small typed symbolic executor over the Python `ast` of the class `Histogram`.  Every method of the
fragment is executed once per *argument-type specialisation* (the class dispatches on `isinstance` /
`is None`; the model has one operation per case), with the static tests decided by the kinds of the
arguments and everything else rendered, statement by statement, into a Lean term over
`SparkxVerif.Hist.State α`:

  __init__            -> initTuple (hist_min, hist_max : α, num_bins : Int) , initEdges (list / ndarray)
  bin_centers, bin_width, bin_bounds_left, bin_bounds_right, bin_boundaries   (getters, inlined where called)
  add_value           -> addValueS (scalar) addValueSW (scalar, scalar weight) addValueL (list / array)
                         addValueLS (list, scalar weight) addValueLL (list, list of weights)
  add_histogram       -> addHistogram
  scale_histogram     -> scaleS (number) scaleL (list / array)
  statistical_error   -> statisticalError
  make_density        -> makeDensity

Kinds: num (α, not NaN) · onum (Option α, `none` = NaN) · vec (List α) · ovec (List (Option α)) · mat (rows) ·
nat · int · bool · lit (Python literal) · none · tuple.  `if np.isnan(x): raise` on an onum / `np.isnan(x).any()` on
an ovec is a *refining* test: a `match` that rebinds the name at kind num / vec in what follows.

Modelled primitives (the same as in Core/Histogram.lean): `np.digitize` -> `digitize`, `np.linspace(a, b, num=k)`
-> `npLinspace`, `np.sqrt` -> the parameter `sqrt`, `np.sum` -> `sumL`, `np.zeros/ones` -> `List.replicate`,
`np.vstack((A, row))` -> `A ++ [row]`, `A[-1]` -> `lastRow`, `A[-1, j] += w` -> `modifyLast (addAtPy · j w)` (Python
index semantics for a negative `j`), `A[-1] *= x` -> `modifyLast` of `map` / `zipWith`, `A[k] = row` -> `List.set`,
`x[:-1]` / `x[1:]` -> `dropLast` / `tail`, `sum(1 for x in xs if P)` -> `(xs.filter P).length`.
NOT generated: numpy's refusal of element-wise operations on arrays of different length (the generated
definitions use `zipWith` / `List.set`); the equivalence theorems that need it assume the shape invariant `Shape s`
(proved for every history in Lemmas/HistShape).  `np.zeros(k)` for a possibly negative `k` raises ValueError.
A statement `if <test>: <only warnings.warn(...) and assignments of the message>` is dropped together with its test
(the test of the out-of-range warning reads `bin_edges_[0]` / `[-1]`, which exist on every constructed object).
`self.<array> is None` is decided statically False (every array is assigned by both constructor branches,
checked here).

Anything outside this fragment raises Untranslatable (golden fallback, tie = correspondence only).
"""
import ast

from . import pyexpr
from .pyexpr import Untranslatable

CLS = "Histogram"
FIELDS = {
    "number_of_bins_": ("nBins", "nat"),
    "number_of_histograms_": ("nHist", "nat"),
    "bin_edges_": ("edges", "vec"),
    "histograms_": ("hist", "mat"),
    "histograms_raw_count_": ("raw", "mat"),
    "error_": ("err", "mat"),
    "scaling_": ("scal", "mat"),
    "systematic_error_": ("sys", "mat"),
}
SCALAR_T = {"int", "float", "np.number", "np.integer", "np.floating", "numbers.Number", "np.float64", "np.int64"}
VECTOR_T = {"list", "np.ndarray"}
TUPLE_T = {"tuple"}
SPECS = {
    ("add_value", ("onum", "none")): "addValueS",
    ("add_value", ("onum", "onum")): "addValueSW",
    ("add_value", ("ovec", "none")): "addValueL",
    ("add_value", ("ovec", "onum")): "addValueLS",
    ("add_value", ("ovec", "ovec")): "addValueLL",
    ("scale_histogram", ("num",)): "scaleS",
    ("scale_histogram", ("vec",)): "scaleL",
    ("statistical_error", ()): "statisticalError",
    ("make_density", ()): "makeDensity",
    ("add_histogram", ()): "addHistogram",
}
LEAN_T = {"num": "α", "onum": "Option α", "vec": "List α", "ovec": "List (Option α)", "int": "Int", "nat": "Nat",
          "mat": "List (List α)"}
ERR = {"ValueError": "value", "TypeError": "type", "IndexError": "index", "KeyError": "key",
       "ZeroDivisionError": "zerodiv"}
ZERO = "((0 : Nat) : α)"


class V:
    def __init__(self, kind, text=None, extra=None):
        self.kind, self.text, self.extra = kind, text, extra

    def __repr__(self):
        return f"V({self.kind},{self.text})"


def dotted(node):
    if isinstance(node, ast.Name):
        return node.id
    if isinstance(node, ast.Attribute):
        b = dotted(node.value)
        return None if b is None else b + "." + node.attr
    return None


def lname(py):
    return py + "_"


def self_attr(node):
    if isinstance(node, ast.Attribute) and isinstance(node.value, ast.Name) and node.value.id == "self":
        return node.attr
    return None


def num_lit(v):
    return pyexpr._num_generic(v)


class Tr:
    def __init__(self, source):
        self.source = source
        self.tree = ast.parse(source)
        self.cls = None
        for n in ast.walk(self.tree):
            if isinstance(n, ast.ClassDef) and n.name == CLS:
                self.cls = n
        if self.cls is None:
            raise Untranslatable("class Histogram not found")
        self.methods = {f.name: f for f in self.cls.body if isinstance(f, ast.FunctionDef)}
        self.defs = []            # (lean name, text)
        self.done = {}            # lean name -> uses_sqrt
        self.in_progress = set()
        self.used = {}            # python method name -> FunctionDef (hashed regions)
        self.tmp = 0
        self.cur_sqrt = [False]
        self.mode = "method"

    # ------------------------------------------------------------------ helpers
    def fresh(self, base="t"):
        self.tmp += 1
        return f"{base}{self.tmp}'"

    def method(self, name):
        f = self.methods.get(name)
        if f is None:
            raise Untranslatable(f"Histogram.{name} not found")
        self.used[name] = f
        return f

    def as_num(self, v):
        if v.kind == "num":
            return v.text
        if v.kind == "lit":
            return num_lit(v.extra)
        if v.kind == "nat":
            return f"(({v.text} : Nat) : α)"
        raise Untranslatable(f"expected a number, got {v.kind}")

    def as_int(self, v):
        if v.kind == "int":
            return v.text
        if v.kind == "nat":
            return f"(({v.text} : Nat) : Int)"
        if v.kind == "lit" and isinstance(v.extra, int) and not isinstance(v.extra, bool):
            return f"({v.extra} : Int)" if v.extra >= 0 else f"(-{-v.extra} : Int)"
        raise Untranslatable(f"expected an integer, got {v.kind}")

    def as_nat(self, v):
        if v.kind == "nat":
            return v.text
        if v.kind == "lit" and isinstance(v.extra, int) and not isinstance(v.extra, bool) and v.extra >= 0:
            return f"({v.extra} : Nat)"
        raise Untranslatable(f"expected a natural number, got {v.kind}")

    def is_intlike(self, v):
        return v.kind in ("nat", "int") or (v.kind == "lit" and isinstance(v.extra, int) and not isinstance(v.extra, bool))

    # ------------------------------------------------------------------ static tests
    def type_class(self, node):
        names = [node] if not isinstance(node, ast.Tuple) else list(node.elts)
        out = set()
        for n in names:
            d = dotted(n)
            if d in SCALAR_T:
                out.add("scalar")
            elif d in VECTOR_T:
                out.add("vector")
            elif d in TUPLE_T:
                out.add("tuple")
            else:
                raise Untranslatable(f"isinstance against unknown type {ast.dump(n)[:60]}")
        return out

    def static(self, node, env):
        """True / False when the test is decided by the kinds of the arguments, None when it is dynamic"""
        if isinstance(node, ast.Compare) and len(node.ops) == 1 and isinstance(node.ops[0], (ast.Is, ast.IsNot)):
            r = node.comparators[0]
            if isinstance(r, ast.Constant) and r.value is None:
                l = node.left
                if self_attr(l) in FIELDS:
                    isnone = False
                elif isinstance(l, ast.Name) and l.id in env:
                    isnone = env[l.id].kind == "none"
                else:
                    raise Untranslatable("`is None` on " + ast.dump(l)[:60])
                return isnone if isinstance(node.ops[0], ast.Is) else not isnone
        if isinstance(node, ast.Call) and isinstance(node.func, ast.Name) and node.func.id == "isinstance" \
                and len(node.args) == 2 and not node.keywords:
            v = self.expr(node.args[0], env)
            cl = self.type_class(node.args[1])
            k = {"num": "scalar", "onum": "scalar", "nat": "scalar", "int": "scalar", "lit": "scalar",
                 "vec": "vector", "ovec": "vector", "tuple": "tuple"}.get(v.kind)
            if k is None:
                raise Untranslatable(f"isinstance on a value of kind {v.kind}")
            if k == "scalar" and v.kind in ("nat", "int") and cl == {"scalar"}:
                return True
            return k in cl
        if isinstance(node, ast.Call) and dotted(node.func) == "np.isnan" and len(node.args) == 1 \
                and isinstance(node.args[0], ast.Name) and env.get(node.args[0].id, V("?")).kind in ("num", "nat", "int", "lit"):
            return False
        if isinstance(node, ast.Call) and isinstance(node.func, ast.Attribute) and node.func.attr == "any" \
                and not node.args and isinstance(node.func.value, ast.Call) \
                and dotted(node.func.value.func) == "np.isnan" and len(node.func.value.args) == 1 \
                and isinstance(node.func.value.args[0], ast.Name) \
                and env.get(node.func.value.args[0].id, V("?")).kind == "vec":
            return False
        if isinstance(node, ast.UnaryOp) and isinstance(node.op, ast.Not):
            r = self.static(node.operand, env)
            return None if r is None else not r
        if isinstance(node, ast.BoolOp):
            vals = []
            for x in node.values:
                r = self.static(x, env)
                if isinstance(node.op, ast.And) and r is False:
                    return False
                if isinstance(node.op, ast.Or) and r is True:
                    return True
                vals.append(r)
            if all(r is not None for r in vals):
                return all(vals) if isinstance(node.op, ast.And) else any(vals)
            return None
        if isinstance(node, ast.Compare) and len(node.ops) == 1 and isinstance(node.ops[0], (ast.Eq, ast.NotEq)):
            try:
                a = self.expr(node.left, env)
                b = self.expr(node.comparators[0], env)
            except Untranslatable:
                return None
            if a.kind == "lit" and b.kind == "lit":
                r = a.extra == b.extra
                return r if isinstance(node.ops[0], ast.Eq) else not r
        return None

    def dyn_test(self, node, env):
        """Bool-valued Lean term of a dynamic test, partially evaluated"""
        r = self.static(node, env)
        if r is not None:
            return "true" if r else "false"
        if isinstance(node, ast.BoolOp):
            parts = []
            for x in node.values:
                r = self.static(x, env)
                if r is None:
                    parts.append(self.dyn_test(x, env))
                # static True in `and` / static False in `or` are neutral; the absorbing cases were decided above
            op = " && " if isinstance(node.op, ast.And) else " || "
            return parts[0] if len(parts) == 1 else "(" + op.join(parts) + ")"
        if isinstance(node, ast.UnaryOp) and isinstance(node.op, ast.Not):
            return f"(!{self.dyn_test(node.operand, env)})"
        v = self.expr(node, env)
        if v.kind != "bool":
            raise Untranslatable("test is not a boolean: " + ast.dump(node)[:80])
        return v.text

    # ------------------------------------------------------------------ expressions
    def field(self, attr, env):
        if ("self", attr) in env:
            return env[("self", attr)]
        if self.mode == "init":
            raise Untranslatable(f"self.{attr} read before assignment in __init__")
        f, k = FIELDS[attr]
        return V(k, f"s.{f}")

    def getter(self, name, env):
        """inline a method whose body is `if self.x is None: raise` ... `return <expr>`"""
        f = self.method(name)
        if len(f.args.args) != 1:
            raise Untranslatable(f"{name} is not a getter")
        for st in f.body:
            if isinstance(st, ast.Expr) and isinstance(st.value, ast.Constant) and isinstance(st.value.value, str):
                continue
            if isinstance(st, ast.If) and not st.orelse and self.static(st.test, {}) is False:
                continue
            if isinstance(st, ast.Return) and st.value is not None:
                genv = {k: v for k, v in env.items() if isinstance(k, tuple)}
                return self.expr(st.value, genv)
            raise Untranslatable(f"{name} is not a getter (statement {type(st).__name__})")
        raise Untranslatable(f"{name} has no return")

    def arith(self, op, a, b):
        sym = {ast.Add: "+", ast.Sub: "-", ast.Mult: "*", ast.Div: "/"}.get(type(op))
        if sym is None:
            raise Untranslatable("operator " + type(op).__name__)
        if self.is_intlike(a) and self.is_intlike(b) and sym != "/":
            if a.kind == "lit" and b.kind == "lit":
                return V("lit", extra={"+": a.extra + b.extra, "-": a.extra - b.extra, "*": a.extra * b.extra}[sym])
            if sym == "-" or "int" in (a.kind, b.kind):
                return V("int", f"({self.as_int(a)} {sym} {self.as_int(b)})")
            return V("nat", f"({self.as_nat(a)} {sym} {self.as_nat(b)})")
        sa = a.kind in ("num", "lit", "nat")
        sb = b.kind in ("num", "lit", "nat")
        if sa and sb:
            return V("num", f"({self.as_num(a)} {sym} {self.as_num(b)})")
        if a.kind == "vec" and b.kind == "vec":
            return V("vec", f"(List.zipWith (fun x' y' => x' {sym} y') {a.text} {b.text})")
        if a.kind == "vec" and sb:
            return V("vec", f"({a.text}.map (fun x' => x' {sym} {self.as_num(b)}))")
        if sa and b.kind == "vec":
            return V("vec", f"({b.text}.map (fun x' => {self.as_num(a)} {sym} x'))")
        raise Untranslatable(f"arithmetic on {a.kind} {sym} {b.kind}")

    def compare(self, op, a, b):
        if self.is_intlike(a) and self.is_intlike(b):
            if "int" in (a.kind, b.kind):
                x, y = self.as_int(a), self.as_int(b)
            else:
                x, y = self.as_nat(a), self.as_nat(b)
            sym = {ast.Eq: "=", ast.NotEq: "≠", ast.Lt: "<", ast.LtE: "≤", ast.Gt: ">", ast.GtE: "≥"}.get(type(op))
            if sym is None:
                raise Untranslatable("comparison " + type(op).__name__)
            return V("bool", f"decide ({x} {sym} {y})")
        if a.kind in ("num", "lit", "nat") and b.kind in ("num", "lit", "nat"):
            x, y = self.as_num(a), self.as_num(b)
            if isinstance(op, ast.Eq):
                return V("bool", f"(numEq {x} {y})")
            if isinstance(op, ast.NotEq):
                return V("bool", f"(!(numEq {x} {y}))")
            sym = {ast.Lt: "<", ast.LtE: "≤", ast.Gt: ">", ast.GtE: "≥"}.get(type(op))
            if sym is None:
                raise Untranslatable("comparison " + type(op).__name__)
            return V("bool", f"decide ({x} {sym} {y})")
        raise Untranslatable(f"comparison of {a.kind} with {b.kind}")

    def length(self, v):
        if v.kind in ("vec", "ovec", "mat"):
            return V("nat", f"{v.text}.length")
        if v.kind == "tuple":
            return V("lit", extra=len(v.extra))
        raise Untranslatable(f"len of {v.kind}")

    def expr(self, node, env):
        if isinstance(node, ast.Constant):
            if node.value is None:
                return V("none")
            if isinstance(node.value, bool):
                return V("bool", "true" if node.value else "false")
            if isinstance(node.value, (int, float)):
                return V("lit", extra=node.value)
            if isinstance(node.value, str):
                return V("str")
            raise Untranslatable("constant " + repr(node.value))
        if isinstance(node, ast.Name):
            if node.id in env:
                v = env[node.id]
                if v.kind == "opaque":
                    raise Untranslatable(f"`{node.id}` (set on a dropped warning path) is used")
                return v
            raise Untranslatable(f"unknown name {node.id}")
        a = self_attr(node)
        if a is not None:
            if a in FIELDS:
                return self.field(a, env)
            raise Untranslatable(f"unknown attribute self.{a}")
        if isinstance(node, ast.Attribute) and node.attr == "shape":
            v = self.expr(node.value, env)
            if v.kind in ("vec", "ovec"):
                return V("shape1", f"{v.text}.length")
            raise Untranslatable(f".shape of {v.kind}")
        if isinstance(node, ast.UnaryOp) and isinstance(node.op, ast.USub):
            v = self.expr(node.operand, env)
            if v.kind == "lit":
                return V("lit", extra=-v.extra)
            if v.kind == "num":
                raise Untranslatable("unary minus (the carrier has no Neg)")
        if isinstance(node, ast.BinOp):
            return self.arith(node.op, self.expr(node.left, env), self.expr(node.right, env))
        if isinstance(node, ast.BoolOp) or (isinstance(node, ast.UnaryOp) and isinstance(node.op, ast.Not)):
            return V("bool", self.dyn_test(node, env))
        if isinstance(node, ast.Compare):
            if len(node.ops) != 1:
                raise Untranslatable("chained comparison")
            r = self.static(node, env)
            if r is not None:
                return V("bool", "true" if r else "false")
            a, b = self.expr(node.left, env), self.expr(node.comparators[0], env)
            if a.kind == "shape1" and b.kind == "shape1" and isinstance(node.ops[0], (ast.Eq, ast.NotEq)):
                sym = "=" if isinstance(node.ops[0], ast.Eq) else "≠"
                return V("bool", f"decide ({a.text} {sym} {b.text})")
            return self.compare(node.ops[0], a, b)
        if isinstance(node, ast.Subscript):
            return self.subscript(node, env)
        if isinstance(node, ast.Call):
            return self.call(node, env)
        if isinstance(node, ast.List):
            if len(node.elts) == 1:
                v = self.expr(node.elts[0], env)
                if v.kind == "vec":
                    return V("rows", f"[{v.text}]")
            raise Untranslatable("list display " + ast.dump(node)[:60])
        if isinstance(node, ast.Tuple):
            return V("tuple", extra=[self.expr(e, env) for e in node.elts])
        raise Untranslatable("expression " + ast.dump(node)[:80])

    def const_index(self, node):
        if isinstance(node, ast.Constant) and isinstance(node.value, int):
            return node.value
        if isinstance(node, ast.UnaryOp) and isinstance(node.op, ast.USub) and isinstance(node.operand, ast.Constant) \
                and isinstance(node.operand.value, int):
            return -node.operand.value
        return None

    def subscript(self, node, env):
        v = self.expr(node.value, env)
        sl = node.slice
        if isinstance(sl, ast.Slice):
            lo = None if sl.lower is None else self.const_index(sl.lower)
            hi = None if sl.upper is None else self.const_index(sl.upper)
            if sl.step is not None or v.kind != "vec":
                raise Untranslatable("slice " + ast.dump(node)[:60])
            if sl.lower is None and hi == -1:
                return V("vec", f"{v.text}.dropLast")
            if lo == 1 and sl.upper is None:
                return V("vec", f"{v.text}.tail")
            raise Untranslatable("slice other than [:-1] / [1:]")
        c = self.const_index(sl)
        if v.kind == "tuple" and c is not None and 0 <= c < len(v.extra):
            return v.extra[c]
        if v.kind == "mat" and c == -1:
            return V("vec", f"(lastRow {v.text})")
        if v.kind == "shape1" and c == 0:
            return V("nat", v.text)
        raise Untranslatable("subscript " + ast.dump(node)[:80])

    def call(self, node, env):
        fn = dotted(node.func)
        args = node.args
        kw = {k.arg: k.value for k in node.keywords}
        if fn == "len" and len(args) == 1 and not kw:
            return self.length(self.expr(args[0], env))
        if fn in ("np.asarray", "np.array") and len(args) == 1 and not kw:
            v = self.expr(args[0], env)
            if v.kind == "rows":
                return V("mat", v.text)
            if v.kind in ("vec", "mat"):
                return v
            raise Untranslatable(f"np.asarray of {v.kind}")
        if fn in ("np.zeros", "np.ones") and len(args) == 1 and not kw:
            n = self.expr(args[0], env)
            fill = ZERO if fn == "np.zeros" else "((1 : Nat) : α)"
            if n.kind == "int":
                self.pre.append((f"decide ({n.text} < 0)", "value"))
                return V("vec", f"(List.replicate ({n.text}).toNat {fill})")
            return V("vec", f"(List.replicate {self.as_nat(n)} {fill})")
        if fn == "np.vstack" and len(args) == 1 and not kw:
            t = self.expr(args[0], env)
            if t.kind == "tuple" and len(t.extra) == 2 and t.extra[0].kind == "mat" and t.extra[1].kind == "vec":
                return V("mat", f"({t.extra[0].text} ++ [{t.extra[1].text}])")
            raise Untranslatable("np.vstack of something else than (array, row)")
        if fn == "np.sqrt" and len(args) == 1 and not kw:
            v = self.expr(args[0], env)
            self.cur_sqrt[0] = True
            if v.kind == "vec":
                return V("vec", f"({v.text}.map sqrt)")
            if v.kind == "num":
                return V("num", f"(sqrt {v.text})")
            raise Untranslatable(f"np.sqrt of {v.kind}")
        if fn == "np.sum" and len(args) == 1 and not kw:
            v = self.expr(args[0], env)
            if v.kind == "vec":
                return V("num", f"(sumL {v.text})")
            raise Untranslatable(f"np.sum of {v.kind}")
        if fn == "np.digitize" and len(args) == 2 and not kw:
            x, e = self.expr(args[0], env), self.expr(args[1], env)
            if x.kind == "num" and e.kind == "vec":
                return V("nat", f"(digitize {e.text} {x.text})")
            raise Untranslatable(f"np.digitize({x.kind}, {e.kind})")
        if fn == "np.linspace" and len(args) in (2, 3) and set(kw) <= {"num"}:
            a, b = self.expr(args[0], env), self.expr(args[1], env)
            n = self.expr(args[2] if len(args) == 3 else kw.get("num"), env) if (len(args) == 3 or "num" in kw) else None
            if n is None:
                raise Untranslatable("np.linspace without num")
            return V("vec", f"(npLinspace {self.as_num(a)} {self.as_num(b)} {self.as_int(n)})")
        if fn == "np.atleast_1d" and len(args) == 1 and not kw:
            v = self.expr(args[0], env)
            if v.kind in ("vec", "ovec"):
                return v
            raise Untranslatable(f"np.atleast_1d of {v.kind}")
        if fn == "sum" and len(args) == 1 and not kw and isinstance(args[0], ast.GeneratorExp):
            g = args[0]
            if len(g.generators) == 1 and isinstance(g.elt, ast.Constant) and g.elt.value == 1 \
                    and isinstance(g.generators[0].target, ast.Name) and not g.generators[0].is_async:
                it = self.expr(g.generators[0].iter, env)
                if it.kind != "vec":
                    raise Untranslatable(f"generator over {it.kind}")
                x = g.generators[0].target.id
                e2 = dict(env)
                e2[x] = V("num", lname(x))
                conds = [self.dyn_test(c, e2) for c in g.generators[0].ifs]
                cond = " && ".join(conds) if conds else "true"
                return V("nat", f"({it.text}.filter (fun {lname(x)} => {cond})).length")
            raise Untranslatable("sum over a generator of another form")
        if fn == "any" and len(args) == 1 and not kw and isinstance(args[0], (ast.GeneratorExp, ast.ListComp)):
            g = args[0]
            if len(g.generators) == 1 and isinstance(g.generators[0].target, ast.Name) and not g.generators[0].ifs:
                it = self.expr(g.generators[0].iter, env)
                if it.kind != "vec":
                    raise Untranslatable(f"generator over {it.kind}")
                x = g.generators[0].target.id
                e2 = dict(env)
                e2[x] = V("num", lname(x))
                return V("bool", f"({it.text}.any (fun {lname(x)} => {self.dyn_test(g.elt, e2)}))")
        # np.isnan(x) / np.isnan(x).any() outside a refining `if`: decided when x is already refined
        if fn == "np.isnan" and len(args) == 1:
            v = self.expr(args[0], env)
            if v.kind in ("num", "nat", "int", "lit"):
                return V("bool", "false")
            raise Untranslatable("np.isnan outside `if np.isnan(x): raise`")
        if isinstance(node.func, ast.Attribute) and node.func.attr == "any" and not args and not kw \
                and isinstance(node.func.value, ast.Call) and dotted(node.func.value.func) == "np.isnan":
            v = self.expr(node.func.value.args[0], env)
            if v.kind == "vec":
                return V("bool", "false")
            raise Untranslatable("np.isnan(...).any() outside `if ...: raise`")
        m = self_attr(node.func)
        if m is not None and not args and not kw:
            return self.getter(m, env)
        raise Untranslatable("call " + ast.dump(node)[:100])

    # ------------------------------------------------------------------ statements (continuation passing)
    def raise_text(self, st):
        exc = st.exc
        name = dotted(exc.func) if isinstance(exc, ast.Call) else dotted(exc)
        if name not in ERR:
            raise Untranslatable(f"raise of {name}")
        k = ERR[name]
        if self.mode == "init":
            return f".error .{k}"
        return f"(s, some .{k})"

    def err_text(self, k):
        return f".error .{k}" if self.mode == "init" else f"(s, some .{k})"

    def effect_free(self, body):
        """only `warnings.warn(...)`, `pass` and assignments of plain names (made opaque)"""
        names = []
        for st in body:
            if isinstance(st, ast.Pass):
                continue
            if isinstance(st, ast.Expr) and isinstance(st.value, ast.Call) and dotted(st.value.func) in ("warnings.warn", "warn"):
                continue
            if isinstance(st, ast.Assign) and len(st.targets) == 1 and isinstance(st.targets[0], ast.Name):
                names.append(st.targets[0].id)
                continue
            return None
        return names if any(isinstance(st, ast.Expr) for st in body) else None

    def pure_test(self, node):
        for n in ast.walk(node):
            if isinstance(n, (ast.Call, ast.Lambda, ast.Await, ast.Yield, ast.NamedExpr)):
                return False
        return True

    def refining(self, test, env):
        """`np.isnan(x)` on an onum name / `np.isnan(x).any()` on an ovec name -> (name, kind)"""
        if isinstance(test, ast.Call) and dotted(test.func) == "np.isnan" and len(test.args) == 1 \
                and isinstance(test.args[0], ast.Name) and env.get(test.args[0].id, V("?")).kind == "onum":
            return test.args[0].id, "onum"
        if isinstance(test, ast.Call) and isinstance(test.func, ast.Attribute) and test.func.attr == "any" \
                and not test.args and isinstance(test.func.value, ast.Call) \
                and dotted(test.func.value.func) == "np.isnan" and len(test.func.value.args) == 1 \
                and isinstance(test.func.value.args[0], ast.Name) \
                and env.get(test.func.value.args[0].id, V("?")).kind == "ovec":
            return test.func.value.args[0].id, "ovec"
        return None

    def with_pre(self, env, ind, stmt, rest):
        """render one simple statement (`stmt(rest')`), wrap it in the checks its numpy primitives registered, then
        continue with `rest` on the environment the statement produced"""
        saved = self.pre
        self.pre = []
        self.tmp += 1
        mark = f"\x00REST{self.tmp}\x00"
        holder = {}

        def fake(e):
            holder["env"] = e
            return mark
        try:
            text = stmt(fake)
            pre = self.pre
        finally:
            self.pre = saved
        e = dict(holder.get("env", env))
        facts = set(e.get("#facts", ()))
        out = ""
        for cond, kind in pre:
            if cond in facts:
                continue
            facts.add(cond)
            out += f"if {cond} then {self.err_text(kind)} else\n{ind}"
        e["#facts"] = facts
        if mark not in text:
            return out + text
        return out + text.replace(mark, rest(e))

    def set_state(self, field, text):
        return f"let s := {{ s with {field} := {text} }}"

    def assign_field(self, attr, v, env, ind, rest):
        f, k = FIELDS[attr]
        if self.mode == "init":
            if v.kind == "none":
                env[("self", attr)] = V("none")
                return rest(env)
            if k == "nat":
                if not self.is_intlike(v):
                    raise Untranslatable(f"self.{attr} = value of kind {v.kind}")
                kind = "int" if v.kind == "int" else "nat"
                text = self.as_int(v) if kind == "int" else self.as_nat(v)
                ty = "Int" if kind == "int" else "Nat"
            elif k == v.kind:
                kind, text, ty = k, v.text, LEAN_T[k]
            elif v.kind == "none":
                env[("self", attr)] = V("none")
                return rest(env)
            else:
                raise Untranslatable(f"self.{attr} = value of kind {v.kind}")
            env[("self", attr)] = V(kind, lname(attr))
            return f"let {lname(attr)} : {ty} := {text}\n{ind}" + rest(env)
        if k == "nat":
            text = self.as_nat(v) if v.kind != "int" else None
            if text is None:
                raise Untranslatable(f"self.{attr} = integer expression that may be negative")
        elif k == v.kind:
            text = v.text
        else:
            raise Untranslatable(f"self.{attr} = value of kind {v.kind}")
        return self.set_state(f, text) + f"\n{ind}" + rest(env)

    def block(self, stmts, env, ind, k):
        """Lean text of `stmts` followed by the continuation `k(env)`"""
        if not stmts:
            return k(env)
        st, rest_st = stmts[0], stmts[1:]

        def rest(e):
            return self.block(rest_st, e, ind, k)

        if isinstance(st, ast.Pass) or (isinstance(st, ast.Expr) and isinstance(st.value, ast.Constant)):
            return rest(env)
        if isinstance(st, ast.AnnAssign) and st.value is not None:
            st = ast.Assign(targets=[st.target], value=st.value)
        if isinstance(st, ast.Raise):
            return self.raise_text(st)
        if isinstance(st, ast.Return):
            if self.in_loop:
                raise Untranslatable("return inside a loop")
            if self.mode == "init":
                raise Untranslatable("return in __init__")
            if st.value is not None and not (isinstance(st.value, ast.Name) and st.value.id == "self") \
                    and self_attr(st.value) not in FIELDS:
                raise Untranslatable("return of something else than self / an attribute")
            return "(s, none)"
        if isinstance(st, ast.If):
            return self.if_stmt(st, env, ind, rest)
        if isinstance(st, ast.Assign):
            if len(st.targets) != 1:
                raise Untranslatable("multiple assignment")
            tgt = st.targets[0]
            return self.with_pre(env, ind, lambda r: self.assign(tgt, st.value, env, ind, r), rest)
        if isinstance(st, ast.AugAssign):
            return self.with_pre(env, ind, lambda r: self.augassign(st, env, ind, r), rest)
        if isinstance(st, ast.For):
            return self.for_stmt(st, env, ind, rest)
        if isinstance(st, ast.Expr) and isinstance(st.value, ast.Call):
            m = self_attr(st.value.func)
            if m is not None:
                if self.in_loop == "pure":
                    raise Untranslatable("call of a method that may raise inside a fold loop")
                return f"bindR ({self.self_call(st.value, env)}) fun s =>\n{ind}" + rest(env)
        raise Untranslatable("statement " + ast.dump(st)[:100])

    def if_stmt(self, st, env, ind, rest):
        r = self.static(st.test, env)
        if r is True:
            return self.block(st.body, dict(env), ind, rest)
        if r is False:
            return self.block(st.orelse, dict(env), ind, rest)
        # a warning and nothing else
        if not st.orelse:
            names = self.effect_free(st.body)
            if names is not None and self.pure_test(st.test):
                e2 = dict(env)
                for n in names:
                    e2[n] = V("opaque")
                self.dropped.append(ast.get_source_segment(self.source, st.test) or "?")
                return rest(e2)
        ref = self.refining(st.test, env)
        if ref is not None:
            name, kind = ref
            if not (len(st.body) == 1 and isinstance(st.body[0], ast.Raise)) or st.orelse:
                raise Untranslatable("np.isnan test that does not just raise")
            e2 = dict(env)
            if kind == "onum":
                e2[name] = V("num", lname(name))
                return (f"match {lname(name)} with\n{ind}| none => {self.raise_text(st.body[0])}\n"
                        f"{ind}| some {lname(name)} =>\n{ind}" + rest(e2))
            e2[name] = V("vec", lname(name))
            return (f"match allSome {lname(name)} with\n{ind}| none => {self.raise_text(st.body[0])}\n"
                    f"{ind}| some {lname(name)} =>\n{ind}" + rest(e2))
        cond = self.dyn_test(st.test, env)
        i2 = ind + "  "
        a = self.block(st.body, dict(env), i2, rest)
        b = self.block(st.orelse, dict(env), i2, rest)
        return f"if {cond} then\n{i2}({a})\n{ind}else\n{i2}({b})"

    def assign(self, tgt, value, env, ind, rest):
        a = self_attr(tgt)
        if a is not None:
            if a not in FIELDS:
                raise Untranslatable(f"assignment to unknown attribute self.{a}")
            return self.assign_field(a, self.expr(value, env), env, ind, rest)
        if isinstance(tgt, ast.Name):
            v = self.expr(value, env)
            e2 = dict(env)
            if v.kind in ("lit", "none", "str", "tuple"):
                e2[tgt.id] = v if v.kind != "str" else V("opaque")
                return rest(e2)
            if v.kind not in LEAN_T:
                raise Untranslatable(f"local of kind {v.kind}")
            e2[tgt.id] = V(v.kind, lname(tgt.id))
            return f"let {lname(tgt.id)} : {LEAN_T[v.kind]} := {v.text}\n{ind}" + rest(e2)
        if isinstance(tgt, ast.Subscript):
            a = self_attr(tgt.value)
            if a in FIELDS and FIELDS[a][1] == "mat" and self.mode == "method":
                i = self.expr(tgt.slice, env)
                v = self.expr(value, env)
                if i.kind in ("nat", "lit") and v.kind == "vec":
                    f = FIELDS[a][0]
                    return self.set_state(f, f"(s.{f}.set {self.as_nat(i)} {v.text})") + f"\n{ind}" + rest(env)
        raise Untranslatable("assignment target " + ast.dump(tgt)[:80])

    def augassign(self, st, env, ind, rest):
        tgt = st.target
        if isinstance(tgt, ast.Name):
            cur = self.expr(tgt, env)
            v = self.arith(st.op, cur, self.expr(st.value, env))
            e2 = dict(env)
            if v.kind == "lit":
                # a counter that started as a literal becomes a Nat variable from here on
                e2[tgt.id] = v
                return rest(e2)
            e2[tgt.id] = V(v.kind, lname(tgt.id))
            return f"let {lname(tgt.id)} : {LEAN_T[v.kind]} := {v.text}\n{ind}" + rest(e2)
        a = self_attr(tgt)
        if a in FIELDS:
            v = self.arith(st.op, self.field(a, env), self.expr(st.value, env))
            return self.assign_field(a, v, env, ind, rest)
        if isinstance(tgt, ast.Subscript) and self.mode == "method":
            a = self_attr(tgt.value)
            if a in FIELDS and FIELDS[a][1] == "mat":
                f = FIELDS[a][0]
                sym = {ast.Add: "+", ast.Mult: "*"}.get(type(st.op))
                v = self.expr(st.value, env)
                sl = tgt.slice
                if isinstance(sl, ast.Tuple) and len(sl.elts) == 2 and self.const_index(sl.elts[0]) == -1 and sym == "+":
                    j = self.expr(sl.elts[1], env)
                    w = self.as_num(v)
                    if j.kind == "int":
                        upd = f"addAtPy r' {j.text} {w}"
                    else:
                        upd = f"addAt r' {self.as_nat(j)} {w}"
                    return self.set_state(f, f"modifyLast (fun r' => {upd}) s.{f}") + f"\n{ind}" + rest(env)
                if self.const_index(sl) == -1 and sym is not None:
                    if v.kind == "vec":
                        upd = f"List.zipWith (fun x' y' => x' {sym} y') r' {v.text}"
                    else:
                        upd = f"r'.map (fun x' => x' {sym} {self.as_num(v)})"
                    return self.set_state(f, f"modifyLast (fun r' => {upd}) s.{f}") + f"\n{ind}" + rest(env)
        raise Untranslatable("augmented assignment " + ast.dump(st)[:100])

    def assigned_names(self, body):
        out = []
        for n in body:
            for x in ast.walk(n):
                if isinstance(x, (ast.Assign, ast.AugAssign)):
                    tg = x.targets if isinstance(x, ast.Assign) else [x.target]
                    for t in tg:
                        if isinstance(t, ast.Name) and t.id not in out:
                            out.append(t.id)
        return out

    def for_stmt(self, st, env, ind, rest):
        if st.orelse or self.in_loop:
            raise Untranslatable("for-else / nested loop")
        if self.mode != "method":
            raise Untranslatable("loop outside a method")
        # iteration source
        it = st.iter
        if isinstance(it, ast.Call) and dotted(it.func) == "zip" and len(it.args) == 2 and not it.keywords:
            a, b = self.expr(it.args[0], env), self.expr(it.args[1], env)
            if not (isinstance(st.target, ast.Tuple) and len(st.target.elts) == 2
                    and all(isinstance(e, ast.Name) for e in st.target.elts)):
                raise Untranslatable("zip loop without a pair target")
            ek = {"vec": "num", "ovec": "onum"}
            if a.kind not in ek or b.kind not in ek:
                raise Untranslatable(f"zip of {a.kind} and {b.kind}")
            src = f"(List.zip {a.text} {b.text})"
            n1, n2 = st.target.elts[0].id, st.target.elts[1].id
            binder = "p'"
            unpack = f"let {lname(n1)} := p'.1\n{ind}    let {lname(n2)} := p'.2\n{ind}    "
            new = {n1: V(ek[a.kind], lname(n1)), n2: V(ek[b.kind], lname(n2))}
        else:
            a = self.expr(it, env)
            ek = {"vec": "num", "ovec": "onum", "mat": "vec"}
            if a.kind not in ek or not isinstance(st.target, ast.Name):
                raise Untranslatable(f"loop over {a.kind}")
            src = a.text
            binder = lname(st.target.id)
            unpack = ""
            new = {st.target.id: V(ek[a.kind], binder)}
        body = [b for b in st.body if not isinstance(b, ast.Pass)]
        e2 = dict(env)
        e2.update(new)
        # (b) one call of a method that may raise
        if len(body) == 1 and isinstance(body[0], ast.Expr) and isinstance(body[0].value, ast.Call) \
                and self_attr(body[0].value.func) is not None:
            call = self.self_call(body[0].value, e2)
            return f"bindR (forE (fun s {binder} =>\n{ind}    {unpack}{call}) s {src}) fun s =>\n{ind}" + rest(env)
        # (a) a fold over the state and the locals the body re-assigns
        carried = [n for n in self.assigned_names(body) if n in env]
        for n in self.assigned_names(body):
            if n not in env:
                raise Untranslatable(f"loop body introduces the local `{n}`")
        # literals that the body re-assigns become variables
        pre = ""
        for n in carried:
            v = env[n]
            if v.kind == "lit":
                if not (isinstance(v.extra, int) and v.extra >= 0):
                    raise Untranslatable("loop-carried literal that is not a natural number")
                pre += f"let {lname(n)} : Nat := {v.extra}\n{ind}"
                env = dict(env)
                env[n] = V("nat", lname(n))
                e2[n] = env[n]
            elif v.kind not in ("nat", "int", "num"):
                raise Untranslatable(f"loop-carried local of kind {v.kind}")
        tys = ["State α"] + [LEAN_T[env[n].kind] for n in carried]
        ty = " × ".join(tys)
        names = ["s"] + [lname(n) for n in carried]

        def proj(i):
            if len(names) == 1:
                return "a'"
            return "a'" + ".2" * i + (".1" if i < len(names) - 1 else "")

        i2 = ind + "    "
        open_ = "".join(f"let {nm} := {proj(i)}\n{i2}" for i, nm in enumerate(names))
        tup = "(" + ", ".join(names) + ")" if len(names) > 1 else "s"
        self.in_loop = "pure"
        try:
            inner = self.block(body, e2, i2, lambda e: self.loop_end(e, carried, tup))
        finally:
            self.in_loop = None
        close = "".join(f"let {nm} := {proj(i)}\n{ind}" for i, nm in enumerate(names))
        return (f"{pre}let a' : {ty} := {src}.foldl (fun (a' : {ty}) {binder} =>\n{i2}{unpack}{open_}{inner}) {tup}\n{ind}"
                f"{close}" + rest(env))

    def loop_end(self, env, carried, tup):
        for n in carried:
            if env[n].kind not in ("nat", "int", "num"):
                raise Untranslatable(f"loop-carried local `{n}` changes kind")
        return tup

    def self_call(self, node, env):
        """call of a state-changing method: Lean text of type Res α"""
        m = self_attr(node.func)
        f = self.method(m)
        params = [a.arg for a in f.args.args[1:]]
        defaults = f.args.defaults
        given = {}
        for p, a in zip(params, node.args):
            given[p] = self.expr(a, env)
        if len(node.args) > len(params):
            raise Untranslatable(f"too many arguments for {m}")
        for k in node.keywords:
            if k.arg not in params or k.arg in given:
                raise Untranslatable(f"keyword {k.arg} of {m}")
            given[k.arg] = self.expr(k.value, env)
        nd = len(defaults)
        for i, p in enumerate(params):
            if p not in given:
                j = i - (len(params) - nd)
                if j < 0:
                    raise Untranslatable(f"missing argument {p} of {m}")
                given[p] = self.expr(defaults[j], {})
        kinds = []
        texts = []
        for p in params:
            v = given[p]
            if m == "add_value" and v.kind in ("num", "lit", "nat"):
                kinds.append("onum")
                texts.append(f"(some {self.as_num(v)})")
            elif m == "add_value" and v.kind == "vec":
                kinds.append("ovec")
                texts.append(f"({v.text}.map some)")
            elif v.kind in ("lit", "nat"):
                kinds.append("num")
                texts.append(self.as_num(v))
            elif v.kind == "none":
                kinds.append("none")
            else:
                kinds.append(v.kind)
                texts.append(v.text)
        name = self.specialise(m, tuple(kinds))
        if self.done[name]:
            self.cur_sqrt[0] = True
        return " ".join([name] + (["sqrt"] if self.done[name] else []) + ["s"] + texts)

    # ------------------------------------------------------------------ definitions
    def specialise(self, m, kinds):
        key = (m, kinds)
        if key not in SPECS:
            raise Untranslatable(f"no specialisation of {m} for argument kinds {kinds}")
        name = SPECS[key]
        if name in self.done:
            return name
        if name in self.in_progress:
            raise Untranslatable(f"{m} calls itself at the same argument kinds {kinds}")
        self.in_progress.add(name)
        f = self.method(m)
        if f.args.vararg or f.args.kwarg or f.args.kwonlyargs:
            raise Untranslatable(f"{m}: unsupported signature")
        params = [a.arg for a in f.args.args[1:]]
        if len(params) != len(kinds):
            raise Untranslatable(f"{m}: {len(params)} parameters, fragment expects {len(kinds)}")
        saved = (self.cur_sqrt, self.mode, self.in_loop, self.pre)
        self.cur_sqrt, self.mode, self.in_loop, self.pre = [False], "method", None, []
        try:
            env = {}
            sig = []
            for p, k in zip(params, kinds):
                if k == "none":
                    env[p] = V("none")
                else:
                    env[p] = V(k, lname(p))
                    sig.append(f"({lname(p)} : {LEAN_T[k]})")
            body = self.block(f.body, env, "  ", lambda e: "(s, none)")
            uses = self.cur_sqrt[0]
        finally:
            self.cur_sqrt, self.mode, self.in_loop, self.pre = saved
        kinds_doc = ", ".join(f"{p}: {k}" for p, k in zip(params, kinds)) or "no arguments"
        head = (f"/-- `{CLS}.{m}` as written in the source, specialised to ({kinds_doc}) -/\n"
                f"def {name} " + ("(sqrt : α → α) " if uses else "") + "(s : State α) " + " ".join(sig)
                + (" " if sig else "") + ": Res α :=\n  ")
        self.defs.append((name, head + body + "\n"))
        self.done[name] = uses
        self.in_progress.discard(name)
        return name

    def init_def(self, name, argkind):
        f = self.method("__init__")
        params = [a.arg for a in f.args.args[1:]]
        if len(params) != 1:
            raise Untranslatable("__init__ takes more than the binning")
        p = params[0]
        self.mode, self.in_loop, self.pre = "init", None, []
        env = {}
        if argkind == "tuple":
            env[p] = V("tuple", extra=[V("num", "hist_min"), V("num", "hist_max"), V("int", "num_bins")])
            sig = "(hist_min hist_max : α) (num_bins : Int)"
            doc = "a tuple (hist_min, hist_max, num_bins)"
        else:
            env[p] = V("vec", lname(p))
            sig = f"({lname(p)} : List α)"
            doc = "a list / array of bin edges"

        def finish(e):
            parts = []
            for attr, (fld, k) in FIELDS.items():
                v = e.get(("self", attr))
                if v is None or v.kind == "none":
                    raise Untranslatable(f"__init__ leaves self.{attr} unset (the fragment decides `is None` statically)")
                if k == "nat":
                    if v.kind == "int":
                        t = f"({v.text}).toNat"
                    elif v.kind == "lit":
                        t = self.as_nat(v)
                    else:
                        t = v.text
                else:
                    if v.kind != k:
                        raise Untranslatable(f"self.{attr} has kind {v.kind}")
                    t = v.text
                parts.append(f"{fld} := {t}")
            return ".ok { " + ", ".join(parts) + " }"

        # number_of_histograms_ = 1 is a literal: keep it
        body = self.block(f.body, env, "  ", finish)
        self.mode = "method"
        head = (f"/-- `{CLS}.__init__` as written in the source, for {doc} -/\n"
                f"def {name} {sig} : Except Err (State α) :=\n  ")
        self.defs.append((name, head + body + "\n"))

    def getter_def(self, name, m, doc):
        self.mode, self.in_loop, self.pre = "method", None, []
        v = self.getter(m, {})
        if v.kind != "vec":
            raise Untranslatable(f"{m} returns a value of kind {v.kind}")
        self.defs.append((name, f"/-- `{CLS}.{m}`: {doc} -/\ndef {name} (s : State α) : List α :=\n  {v.text}\n"))


PREAMBLE = """/-
GENERATED by harness/translate/histcore.py from src/sparkx/Histogram.py -- do not edit.
Regenerated on every run of ./check C09 from the tree under test; golden copy: lean/golden/Gen/HistCore.lean.
The filling / scaling core of `Histogram`, one definition per argument-type specialisation (see the
translator's docstring for the rendering rules).  Equivalence with Core/Histogram.lean: Lemmas/HistCoreGen.lean.
-/
import SparkxVerif.Core.Histogram

set_option linter.unusedVariables false

namespace SparkxVerif.Gen.HistCore
open SparkxVerif SparkxVerif.Hist

section
variable {α : Type} [Add α] [Sub α] [Mul α] [Div α] [NatCast α]
  [LE α] [LT α] [DecidableLE α] [DecidableLT α]

/-! ### fixed prelude: Python / numpy primitives the rendering uses -/

/-- `a == b` on numbers -/
def numEq (a b : α) : Bool := decide (a ≤ b) && decide (b ≤ a)

/-- a call that may raise, then the rest of the method on the state the call left behind -/
def bindR (r : Res α) (k : State α → Res α) : Res α :=
  match r with
  | (s, some e) => (s, some e)
  | (s, none) => k s

/-- `for x in xs: <call that may raise>` -/
def forE {β : Type} (f : State α → β → Res α) : State α → List β → Res α
  | s, [] => (s, none)
  | s, x :: r =>
    match f s x with
    | (s', none) => forE f s' r
    | (s', some e) => (s', some e)

/-- `row[j] += w` with Python's index semantics (a negative `j` counts from the end) -/
def addAtPy (r : List α) (j : Int) (w : α) : List α :=
  if j < 0 then (if j.natAbs ≤ r.length then addAt r (r.length - j.natAbs) w else r) else addAt r j.toNat w

/-- `np.linspace(a, b, num=k)` through the model's `linspace a b (number of intervals)` -/
def npLinspace (a b : α) (num : Int) : List α := linspace a b (num.toNat - 1)

/-! ### generated definitions -/

"""

EPILOGUE = """
/-! ### dispatch (fixed): the model's operations routed to the generated specialisations; operations outside the
translated fragment (set_error, add_bin, remove_bin, average*, ...) stay with the hand model -/

def genStep (sqrt : α → α) (s : State α) : Op α → Res α
  | .fill v none => addValueS s v
  | .fill v (some w) => addValueSW s v w
  | .fillList vs .none => addValueL s vs
  | .fillList vs (.scalar w) => addValueLS s vs w
  | .fillList vs (.list ws) => addValueLL s vs ws
  | .addHist => addHistogram s
  | .scale c => scaleS s c
  | .scaleList cs => scaleL s cs
  | .statErr => statisticalError sqrt s
  | .makeDensity => makeDensity sqrt s
  | op => step sqrt s op

def genRun (sqrt : α → α) (s : State α) (ops : List (Op α)) : State α :=
  ops.foldl (fun s op => (genStep sqrt s op).1) s

end

end SparkxVerif.Gen.HistCore
"""


def render(source: str):
    t = Tr(source)
    t.dropped = []
    t.pre = []
    t.in_loop = None
    t.init_def("initTuple", "tuple")
    t.init_def("initEdges", "vec")
    t.getter_def("binCenters", "bin_centers", "`(bin_edges_[:-1] + bin_edges_[1:]) / 2`")
    t.getter_def("binWidth", "bin_width", "`bin_edges_[1:] - bin_edges_[:-1]`")
    t.getter_def("binBoundsLeft", "bin_bounds_left", "`bin_edges_[:-1]`")
    t.getter_def("binBoundsRight", "bin_bounds_right", "`bin_edges_[1:]`")
    t.getter_def("binBoundaries", "bin_boundaries", "`bin_edges_`")
    for key in SPECS:
        t.specialise(*key)
    for need, uses in (("statisticalError", True), ("makeDensity", True)):
        if not t.done[need]:
            raise Untranslatable(f"{need} does not use np.sqrt")
    for name in ("addValueS", "addValueSW", "addValueL", "addValueLS", "addValueLL", "addHistogram", "scaleS", "scaleL"):
        if t.done[name]:
            raise Untranslatable(f"{name} uses np.sqrt (the fixed dispatch passes it none)")
    text = PREAMBLE + "\n".join(d for _, d in t.defs) + EPILOGUE
    regions = [dict(file="src/sparkx/Histogram.py", what=f"{CLS}.{m}", hash=pyexpr.src_hash(source, f))
               for m, f in sorted(t.used.items())]
    notes = ["dropped (warning only): if " + d for d in sorted(set(t.dropped))]
    return text, regions, notes
