"""Tie T for C16: `Lattice3D.add_particle_data` and everything it goes through -> Gen/Smear.lean.

Translated (every method body is compiled AS FOUND, statement by statement, in Python's evaluation order; nothing
is matched against an expected formula):

  add_particle_data, add_same_spaced_grid, reset, find_closest_indices, __find_closest_index, __is_within_range,
  get_coordinates, __get_value, set_value_nearest_neighbor, get_value_nearest_neighbor,
  __get_indices_nearest_neighbor, __get_index_nearest_neighbor, set_value_by_index, get_value_by_index,
  __is_valid_index, and of __init__ the geometry record (`np.linspace`, `np.zeros`) and the derived attributes
  `cell_volume_`, `spacing_*_`, `n_sigma_*_`.

The compiler is a typed symbolic executor (a fork of translate/lattice.py, which serves C17 and is not touched):

  * a method is a Lean function into `Except Err τ`; anything that can raise (`values[i]`, `grid_[i, j, k]`, a method
    call, a constructor call, `None + x`, a negative node count) is sequenced with `Except.bind` in evaluation order;
  * pure local values are kept SYMBOLIC (substituted, no `let`): renaming a local, hoisting a subexpression into a
    local or inlining one gives the same Lean text; bound names come from a counter, never from Python names
    (parameters excepted);
  * `self` is `L : Lat α α` (Core/Lattice.lean: geometry + C-order grid) plus `A : Attrs α`, the attributes
    `__init__` derives and nothing assigns afterwards (`cell_volume_`, `spacing_*_`, `n_sigma_*_`); a lattice built by
    a constructor call carries `initAttrs …` of its arguments; a lattice parameter comes with its own `Attrs`;
  * `if` with one branch that leaves (raise / continue / return): continuation style; `x is None` tests refine the
    optional value on the surviving path (`match … with | none => … | some v => …`);
    `if` whose branches both fall through: the variables they assign are joined (`(if c then .ok (…) else .ok (…)).bind`,
    or a plain `if c then a else b` when neither branch can raise);
  * loops: `for i, j, k in np.ndindex(shape)`, three directly nested `for … in range(n)` (the same index triples in
    the same order: rendered as the same `ndindex` fold), `for i in range(n)`, `for p in <list of particles>`; a loop
    is a `List.foldlM` whose state is exactly the variables the body changes (found by a trial compilation);
    `continue` ends the body with the current state; `break`, `return` inside a loop, `while`: not in the fragment;
  * a binary `+` / `*` of two numbers is written with its operands in one canonical order (they commute bit for bit in
    IEEE arithmetic and on ints), so `a * b` and `b * a` give the same Lean text; nothing is re-associated;
  * numbers: Python ints are `Int`, node counts `Nat`, floats `α`; a float literal is the exact ratio of two naturals
    read off its decimal form (both < 2^53, so the IEEE quotient is the literal); `round(x)` is the parameter
    `pyround : α → Int`, `np.isnan` the parameter `isnan : α → Bool`, `np.linspace` the parameter `lin`;
    `min` / `max` / `abs` are the primitives `minP` / `maxP` / `absG`;
  * the smearing kernel stays abstract, exactly as in Core/Smear.lean: `multivariate_normal(…)` evaluated inside the
    particle loop yields the particle's table `kv` of pdf values IN CALL ORDER, every `.pdf(…)` takes the next entry
    (`popK`); the arguments of both calls, and locals that only feed them (`gamma`, `diff_space`, …), are opaque: they
    may mention the particle, coordinates, `sigma`, numpy scalar functions, and nothing that has an effect; an opaque
    value flowing anywhere else is rejected.

Anything outside this fragment raises `Untranslatable` (the caller then falls back to the golden model and the
correspondence, DESIGN 2.1 (i)).  Free: local names, statement order where Python's semantics allow it, how conditions
are composed, temporaries, `ndindex` vs nested `range`.  Fixed: method names and arities, attribute names.
"""
import ast
import re
from fractions import Fraction

from . import pyexpr
from .pyexpr import Untranslatable

CLS = "Lattice3D"
FILE = "Lattice3D.py"

# attribute of a lattice object -> (field of `Lat α α`, type)
FIELDS = {
    "x_min_": ("xmin", "F"), "x_max_": ("xmax", "F"), "y_min_": ("ymin", "F"), "y_max_": ("ymax", "F"),
    "z_min_": ("zmin", "F"), "z_max_": ("zmax", "F"),
    "num_points_x_": ("nx", "N"), "num_points_y_": ("ny", "N"), "num_points_z_": ("nz", "N"),
    "x_values_": ("xs", "AF"), "y_values_": ("ys", "AF"), "z_values_": ("zs", "AF"),
    "grid_": ("grid", "G"),
}
FIELD_ORDER = ["xmin", "xmax", "ymin", "ymax", "zmin", "zmax", "nx", "ny", "nz", "xs", "ys", "zs", "grid"]
# attributes derived by the constructor -> (field of `Attrs α`, type)
DERIVED = {
    "cell_volume_": ("cell_volume", "F"),
    "spacing_x_": ("spacing_x", "OPTF"), "spacing_y_": ("spacing_y", "OPTF"), "spacing_z_": ("spacing_z", "OPTF"),
    "n_sigma_x_": ("n_sigma_x", "F"), "n_sigma_y_": ("n_sigma_y", "F"), "n_sigma_z_": ("n_sigma_z", "F"),
}
# constructor attributes nothing in this fragment reads (C17's business)
IGNORED_INIT = {"density_x_", "density_y_", "density_z_"}
INIT_PARAMS = ["F"] * 6 + ["N"] * 3
# what the loop over particles may read of a particle (anything else only inside kernel arguments)
PTL_FIELDS = ["x", "y", "z", "E", "charge", "baryon_number", "strangeness", "px", "py", "pz"]

LEAN_TY = {"F": "α", "I": "Int", "N": "Nat", "B": "Bool", "AF": "List α", "G": "List α", "LAT": "Lat α α",
           "OPTF": "Option α", "T3I": "Int × Int × Int", "T3F": "α × α × α", "SHAPE": "Nat × Nat × Nat",
           "NDX": "List (Nat × Nat × Nat)", "STR": "String", "PTL": "Ptl α", "LPTL": "List (Ptl α)", "KOBJ": "List α",
           "RNG": "List Nat"}

# method -> (Lean name, parameter types, result type, mutates self, warning flag is part of the result)
SIGS = {
    "__is_valid_index": ("isValidIndex", ["I", "I", "I"], "B", False, False),
    "set_value_by_index": ("setValueByIndex", ["I", "I", "I", "F"], None, True, True),
    "get_value_by_index": ("getValueByIndex", ["I", "I", "I"], "OPTF", False, False),
    "__get_index_nearest_neighbor": ("getIndexNN", ["F", "AF"], "I", False, False),
    "__get_indices_nearest_neighbor": ("getIndicesNN", ["F", "F", "F"], "T3I", False, False),
    "set_value_nearest_neighbor": ("setValueNN", ["F", "F", "F", "F"], None, True, True),
    "get_value_nearest_neighbor": ("getValueNN", ["F", "F", "F"], "OPTF", False, False),
    "__get_value": ("getCoord", ["I", "AF", "I"], "F", False, False),
    "get_coordinates": ("getCoordinates", ["I", "I", "I"], "T3F", False, False),
    "__find_closest_index": ("findClosestIndex", ["F", "AF"], "I", False, False),
    "__is_within_range": ("isWithinRange", ["F", "F", "F"], "B", False, False),
    "find_closest_indices": ("findClosestIndices", ["F", "F", "F"], "T3I", False, True),
    "reset": ("reset", [], None, True, False),
    "add_same_spaced_grid": ("addSameSpacedGrid", ["LAT", "F", "F", "F"], None, True, False),
    "add_particle_data": ("addParticleData", ["LPTL", "F", "STR", "STR", "B"], None, True, False),
}
ROOT = "add_particle_data"
EXC = {"ValueError": ".value", "TypeError": ".type", "IndexError": ".index"}
NUMERIC = ("F", "I", "N", "LIT")
STATEFUL = ("LAT", "KOBJ")
# numpy / math scalar functions allowed inside the opaque kernel arguments
OPAQUE_FUNCS = {"sqrt", "exp", "log", "sin", "cos", "abs", "absolute", "square", "power", "eye", "array", "asarray",
                "identity", "diag", "dot", "float", "hypot"}


class Val:
    def __init__(self, term, ty, items=None, attrs=None):
        self.term, self.ty, self.items, self.attrs = term, ty, items, attrs

    def key(self):
        if self.ty == "T":
            return ("T", tuple(x.key() for x in self.items))
        return (self.term, self.ty, self.attrs)

    def __repr__(self):
        return f"Val({self.term!r}, {self.ty})"


def nm(py):
    """Lean identifier of a Python parameter name (suffix: never a Lean keyword, never one of my temporaries)"""
    return py + "_"


def ratio(fr, ty="α"):
    a, b = fr.numerator, fr.denominator
    if a >= 2 ** 53 or b >= 2 ** 53:
        raise Untranslatable(f"float literal {float(fr)!r}: not a ratio of two exactly representable naturals")
    return f"((({a} : Nat) : {ty}) / (({b} : Nat) : {ty}))"


def lit(v, want):
    if want == "I":
        return f"({v} : Int)" if v >= 0 else f"(-{-v} : Int)"
    if want == "N":
        if v < 0:
            raise Untranslatable(f"negative literal {v} where a node count is expected")
        return f"({v} : Nat)"
    if want == "F":
        return f"(({v} : Nat) : α)" if v >= 0 else f"(-(({-v} : Nat) : α))"
    raise Untranslatable(f"literal {v} used as {want}")


def co(v, want):
    """coerce a value to the wanted type (Python's implicit numeric conversions only)"""
    if v.ty == want:
        return v.term
    if v.ty == "LIT":
        return lit(v.term, want)
    if v.ty == "N" and want == "I":
        return f"(({v.term} : Nat) : Int)"
    if v.ty == "N" and want == "F":
        return f"(({v.term} : Nat) : α)"
    if v.ty == "I" and want == "F":
        return f"(ofInt {v.term})"
    if v.ty == "NONE" and want == "OPTF":
        return "none"
    if (v.ty, want) == ("F", "OPTF"):
        return f"(some {v.term})"
    if v.ty in ("LIT", "N", "I") and want == "OPTF":
        return f"(some {co(v, 'F')})"
    if v.ty == "T" and want in ("T3I", "T3F") and len(v.items) == 3:
        e = want[2]
        return "(" + ", ".join(co(x, e) for x in v.items) + ")"
    if v.ty == "OPQ":
        raise Untranslatable("a kernel-argument value (opaque) used outside the kernel arguments")
    raise Untranslatable(f"a value of type {v.ty} where {want} is expected")


def join_num(a, b):
    """common type of two numeric operands"""
    for x in (a, b):
        if x.ty == "OPQ":
            raise Untranslatable("a kernel-argument value (opaque) used outside the kernel arguments")
        if x.ty not in NUMERIC:
            raise Untranslatable(f"arithmetic / comparison on {x.ty}")
    ts = {a.ty, b.ty} - {"LIT"}
    if not ts:
        return "LIT"
    if len(ts) == 1:
        return ts.pop()
    if ts == {"N", "I"}:
        return "I"
    if "F" in ts:
        return "F"
    raise Untranslatable(f"mixed operands {a.ty} and {b.ty}")


def unify(tys):
    """type of a variable assigned values of these types on different paths"""
    ts = set(tys)
    if len(ts) == 1:
        return ts.pop()
    if ts <= {"LIT", "N", "I", "F"}:
        if "F" in ts:
            return "F"
        return "I"
    if ts <= {"NONE", "F", "OPTF", "LIT", "N", "I"} and ("NONE" in ts or "OPTF" in ts):
        return "OPTF"
    raise Untranslatable("a variable has different types on different paths: " + ", ".join(sorted(ts)))


class St:
    """symbolic state along one path"""

    def __init__(self, env, L, A=None, warned="false", selfattrs=None):
        self.env = env              # Python name -> Val
        self.L = L                  # Lean term of `self` (None: method that does not touch self)
        self.A = A                  # Lean term of self's derived attributes
        self.warned = warned        # Lean Bool term
        self.pend = []              # (temporary, Except-valued term) still to be bound, in evaluation order
        self.selfattrs = selfattrs  # inside __init__: attribute -> Val assigned so far
        self.refine = {}            # term of an optional value -> Val it is known to hold on this path
        self.loopfin = None         # inside a loop body: what `continue` does
        self.ptl = None             # inside the loop over particles: Lean term of the current particle
        self.kobj_made = False      # a frozen distribution was already created for the current particle on this path

    def copy(self):
        s = St(dict(self.env), self.L, self.A, self.warned, None if self.selfattrs is None else dict(self.selfattrs))
        s.refine, s.loopfin, s.ptl, s.kobj_made = dict(self.refine), self.loopfin, self.ptl, self.kobj_made
        return s


def or_(a, b):
    if a == "true" or b == "true":
        return "true"
    if a == "false":
        return b
    if b == "false":
        return a
    return f"({a} || {b})"


def okey(term):
    """ordering key of an operand: its text without the numbers of temporaries (two temporaries keep source order)"""
    return re.sub(r"\d+", "#", term)


def proj(t, i, n):
    """component i of an n-tuple bound to t"""
    if n == 1:
        return t
    return t + ".2" * i + (".1" if i < n - 1 else "")


def leaves(stmts):
    """does control never fall off the end of this statement list?"""
    if not stmts:
        return False
    s = stmts[-1]
    if isinstance(s, (ast.Raise, ast.Return, ast.Continue)):
        return True
    if isinstance(s, ast.If):
        return leaves(s.body) and leaves(s.orelse)
    return False


class Tr:
    def __init__(self, source):
        self.source = source
        self.tree = ast.parse(source)
        self.done = {}       # method -> dict(text, uses)
        self.order = []
        self.active = []
        self.regions = []
        self.ntmp = 0
        self.nmark = 0
        self.uses = set()

    # ------------------------------------------------------------------ helpers
    def tmp(self):
        self.ntmp += 1
        return f"t{self.ntmp}'"

    def fdef(self, name):
        f = pyexpr.find_function(self.tree, name, CLS)
        if f is None:
            raise Untranslatable(f"method {name} not found in class {CLS}")
        return f

    def bind(self, st, term):
        t = self.tmp()
        st.pend.append((t, term))
        return t

    def let(self, st, term, ty):
        """the result of an external call / a constructor call gets a name (pure, but worth one)"""
        t = self.tmp()
        st.pend.append((t, term, LEAN_TY[ty]))
        return t

    def flush(self, st, ind):
        pad = "  " * ind
        out = ""
        for e in st.pend:
            if len(e) == 3:
                out += f"{pad}let {e[0]} : {e[2]} := {e[1]}\n"
            else:
                out += f"{pad}({e[1]}).bind fun {e[0]} =>\n"
        st.pend = []
        return out

    def effects(self, st):
        """pending entries that can raise (a `let` cannot)"""
        return [e for e in st.pend if len(e) == 2]

    def refined(self, v, st):
        if v.ty == "OPTF" and v.term in st.refine:
            return st.refine[v.term]
        return v

    # ------------------------------------------------------------------ opaque kernel arguments
    def opaque_ok(self, n, st):
        """an expression that can only compute a number from the particle, coordinates and constants"""
        if isinstance(n, ast.Constant):
            return isinstance(n.value, (int, float)) and not isinstance(n.value, bool)
        if isinstance(n, ast.Name):
            v = st.env.get(n.id)
            return v is not None and v.ty in ("F", "I", "N", "LIT", "OPQ", "PTL")
        if isinstance(n, ast.Attribute):
            return isinstance(n.value, ast.Name) and n.value.id in st.env and st.env[n.value.id].ty == "PTL"
        if isinstance(n, ast.UnaryOp):
            return isinstance(n.op, (ast.USub, ast.UAdd)) and self.opaque_ok(n.operand, st)
        if isinstance(n, ast.BinOp):
            return isinstance(n.op, (ast.Add, ast.Sub, ast.Mult, ast.Div, ast.Pow)) and \
                self.opaque_ok(n.left, st) and self.opaque_ok(n.right, st)
        if isinstance(n, (ast.List, ast.Tuple)):
            return all(self.opaque_ok(e, st) for e in n.elts)
        if isinstance(n, ast.Call):
            mod, name = self.callname(n)
            args = list(n.args) + [k.value for k in n.keywords]
            if mod in ("np", "numpy", "math") and name in OPAQUE_FUNCS:
                return all(self.opaque_ok(a, st) for a in args)
            if mod in st.env and st.env[mod].ty == "PTL" and not args:
                return True             # a getter of the particle (p_abs(), …)
            if (mod, name) in (("", "float"), ("", "abs")):
                return all(self.opaque_ok(a, st) for a in args)
            return False
        return False

    # ------------------------------------------------------------------ expressions
    def ev(self, n, st):
        if isinstance(n, ast.Constant):
            v = n.value
            if v is None:
                return Val("none", "NONE")
            if isinstance(v, bool):
                return Val("true" if v else "false", "B")
            if isinstance(v, int):
                return Val(v, "LIT")
            if isinstance(v, float):
                if v != v or v in (float("inf"), float("-inf")):
                    raise Untranslatable(f"literal {v!r}")
                if v == int(v) and abs(v) < 2 ** 53:
                    return Val(int(v), "LIT")
                fr = Fraction(repr(v))      # the decimal the programmer wrote (shortest repr)
                if float(fr) != v:
                    raise Untranslatable(f"literal {v!r}")
                return Val(ratio(fr) if fr > 0 else f"(-{ratio(-fr)})", "F")
            if isinstance(v, str):
                if '"' in v or "\\" in v or "\n" in v:
                    raise Untranslatable("string literal with quotes / escapes")
                return Val(f'"{v}"', "STR")
            raise Untranslatable(f"literal {v!r}")
        if isinstance(n, ast.Name):
            if n.id in st.env:
                v = st.env[n.id]
                if v.ty == "IGN":
                    raise Untranslatable(f"use of `{n.id}` (outside the translated fragment)")
                return self.refined(v, st)
            if n.id == "self":
                return self.selfval(st)
            raise Untranslatable(f"name `{n.id}`")
        if isinstance(n, ast.Attribute):
            return self.refined(self.attr(n, st), st)
        if isinstance(n, ast.Subscript):
            return self.subscript(n, st)
        if isinstance(n, ast.UnaryOp):
            if isinstance(n.op, ast.Not):
                v = self.ev(n.operand, st)
                if v.ty != "B":
                    raise Untranslatable("`not` of a non-boolean")
                return Val({"true": "false", "false": "true"}.get(v.term, f"(!{v.term})"), "B")
            v = self.ev(n.operand, st)
            if isinstance(n.op, ast.UAdd) and v.ty in NUMERIC:
                return v
            if isinstance(n.op, ast.USub):
                if v.ty == "LIT":
                    return Val(-v.term, "LIT")
                if v.ty == "N":
                    return Val(f"(-{co(v, 'I')})", "I")
                if v.ty in ("F", "I"):
                    return Val(f"(-{v.term})", v.ty)
            raise Untranslatable("unary operator on " + v.ty)
        if isinstance(n, ast.BinOp):
            return self.binop(n, st)
        if isinstance(n, ast.Compare):
            return self.compare_pure(n, st)
        if isinstance(n, ast.BoolOp):
            return self.boolop(n, st)
        if isinstance(n, (ast.Tuple, ast.List)):
            return Val(None, "T", [self.ev(e, st) for e in n.elts])
        if isinstance(n, ast.Call):
            return self.call(n, st)
        if isinstance(n, ast.IfExp):
            c = self.ev(n.test, st)
            if c.ty != "B":
                raise Untranslatable("conditional expression on " + c.ty)
            a, b = st.copy(), st.copy()
            x, y = self.ev(n.body, a), self.ev(n.orelse, b)
            if a.pend or b.pend:
                raise Untranslatable("conditional expression whose branches can raise / call external functions")
            if c.term == "true":
                return x
            if c.term == "false":
                return y
            t = unify([x.ty, y.ty])
            return Val(f"(if {c.term} then {co(x, t)} else {co(y, t)})", t)
        raise Untranslatable("expression " + ast.dump(n)[:90])

    def selfval(self, st):
        if st.L is None:
            raise Untranslatable("use of `self` in a method modelled as a function of its arguments")
        return Val(st.L, "LAT", attrs=st.A)

    def none_test(self, n, st):
        """`x is None` / `x is not None` / `x == None` on an optional value -> (value, True when testing `is None`)"""
        if not (isinstance(n, ast.Compare) and len(n.ops) == 1 and isinstance(n.ops[0], (ast.Is, ast.IsNot, ast.Eq, ast.NotEq))):
            return None
        a, b = n.left, n.comparators[0]
        if isinstance(a, ast.Constant) and a.value is None:
            a, b = b, a
        if not (isinstance(b, ast.Constant) and b.value is None):
            return None
        return a, isinstance(n.ops[0], (ast.Is, ast.Eq))

    def boolop(self, n, st):
        """and / or in value position; an `is None` test refines the optional value for the operands to its right"""
        isand = isinstance(n.op, ast.And)
        first, rest = n.values[0], n.values[1:]
        nxt = rest[0] if len(rest) == 1 else ast.BoolOp(op=n.op, values=rest)
        nt = self.none_test(first, st)
        if nt is not None:
            o = self.ev(nt[0], st)
            if o.ty == "OPTF":
                # `x is None or REST` : REST sees x as a number; `x is not None and REST` likewise
                if nt[1] != isand:
                    r = self.tmp()
                    inner = st.copy()
                    inner.pend = []
                    inner.refine[o.term] = Val(r, "F")
                    v = self.ev(nxt, inner)
                    if inner.pend:
                        raise Untranslatable("and/or operand that can raise")
                    if v.ty != "B":
                        raise Untranslatable("and/or of non-booleans")
                    short = "false" if isand else "true"
                    return Val(f"(match {o.term} with | none => {short} | some {r} => {v.term})", "B")
        a = self.ev(first, st)
        b = self.ev(nxt, st)
        if a.ty != "B" or b.ty != "B":
            raise Untranslatable("and/or of non-booleans")
        op = " && " if isand else " || "
        return Val(f"({a.term}{op}{b.term})", "B")

    def attr(self, n, st):
        # <lattice>.grid_.shape
        if n.attr == "shape":
            g = self.ev(n.value, st)
            if g.ty != "G" or g.items is None:
                raise Untranslatable(".shape of something that is not a lattice's grid_")
            o = g.items
            return Val(f"({o}.nx, {o}.ny, {o}.nz)", "SHAPE", items=[f"{o}.nx", f"{o}.ny", f"{o}.nz"])
        if isinstance(n.value, ast.Name) and n.value.id == "self" and st.selfattrs is not None:
            if n.attr in st.selfattrs:
                return st.selfattrs[n.attr]
            raise Untranslatable(f"self.{n.attr} read in __init__ before it is assigned")
        o = self.ev(n.value, st)
        if o.ty == "PTL":
            if n.attr not in PTL_FIELDS:
                raise Untranslatable(f"particle attribute .{n.attr} outside the kernel arguments")
            return Val(f"{o.term}.{n.attr}", "F")
        if o.ty != "LAT":
            raise Untranslatable(f"attribute .{n.attr} of {o.ty}")
        if n.attr in DERIVED:
            if o.attrs is None:
                raise Untranslatable(f".{n.attr} of a lattice whose constructor attributes are not known")
            f, ty = DERIVED[n.attr]
            return Val(f"{o.attrs}.{f}", ty)
        if n.attr not in FIELDS:
            raise Untranslatable(f"attribute .{n.attr} (outside the translated fragment)")
        f, ty = FIELDS[n.attr]
        return Val(f"{o.term}.{f}", ty, items=o.term if ty == "G" else None)

    def index3(self, sl, st):
        if not (isinstance(sl, ast.Tuple) and len(sl.elts) == 3):
            raise Untranslatable("grid_ indexed with something other than three indices")
        return [co(self.ev(e, st), "I") for e in sl.elts]

    def subscript(self, n, st):
        o = self.ev(n.value, st)
        if o.ty == "G":
            if o.items is None:
                raise Untranslatable("indexing a grid that is not an attribute of a lattice")
            i, j, k = self.index3(n.slice, st)
            return Val(self.bind(st, f"{o.items}.rawGet {i} {j} {k}"), "F")
        if o.ty == "AF":
            i = co(self.ev(n.slice, st), "I")
            return Val(self.bind(st, f"pyGet {o.term} {i}"), "F")
        raise Untranslatable("subscript of " + o.ty)

    def unwrap(self, v, st):
        """an operand of arithmetic: `None` raises TypeError"""
        if v.ty == "OPTF":
            return Val(self.bind(st, f"unwrapOpt {v.term}"), "F")
        return v

    def binop(self, n, st):
        a = self.ev(n.left, st)
        b = self.ev(n.right, st)
        op = {ast.Add: "+", ast.Sub: "-", ast.Mult: "*", ast.Div: "/"}.get(type(n.op))
        if op is None:
            raise Untranslatable("operator " + type(n.op).__name__)
        a, b = self.unwrap(a, st), self.unwrap(b, st)
        # numpy broadcasting: array of coordinates with a scalar
        if a.ty == "AF" and b.ty in ("F", "LIT", "N") and op in "+-*/":
            return Val(f"({a.term}.map (fun a' => a' {op} {co(b, 'F')}))", "AF")
        if b.ty == "AF" and a.ty in ("F", "LIT", "N") and op in "+-*/":
            return Val(f"({b.term}.map (fun a' => {co(a, 'F')} {op} a'))", "AF")
        t = join_num(a, b)
        if op == "/":
            if t in ("LIT", "N", "I"):
                if t == "I":
                    raise Untranslatable("true division of Python ints held as Int")
                t = "F"     # int / int is a float in Python
            return Val(f"({co(a, t)} / {co(b, t)})", t)
        if t == "LIT":
            return Val({"+": a.term + b.term, "-": a.term - b.term, "*": a.term * b.term}[op], "LIT")
        if t == "N" and op == "-":
            t = "I"         # a difference of counts can be negative
        x, y = co(a, t), co(b, t)
        if op in "+*" and okey(y) < okey(x):
            x, y = y, x     # `+` and `*` of two numbers commute bit for bit (IEEE, ints): one canonical operand order
        return Val(f"({x} {op} {y})", t)

    def cmp1(self, a, op, b):
        if a.ty == "STR" and b.ty == "STR":
            if isinstance(op, ast.Eq):
                return f"decide ({a.term} = {b.term})"
            if isinstance(op, ast.NotEq):
                return f"(!decide ({a.term} = {b.term}))"
            raise Untranslatable("ordering of strings")
        if a.ty == "SHAPE" and b.ty == "SHAPE":
            if isinstance(op, ast.Eq):
                return f"decide ({a.term} = {b.term})"
            if isinstance(op, ast.NotEq):
                return f"(!decide ({a.term} = {b.term}))"
            raise Untranslatable("ordering of shapes")
        t = join_num(a, b)
        if t == "LIT":
            t = "I"
        x, y = co(a, t), co(b, t)
        if isinstance(op, ast.Lt):
            return f"decide ({x} < {y})"
        if isinstance(op, ast.Gt):
            return f"decide ({y} < {x})"
        if isinstance(op, ast.LtE):
            return f"decide ({x} ≤ {y})"
        if isinstance(op, ast.GtE):
            return f"decide ({y} ≤ {x})"
        if t in ("I", "N"):
            if isinstance(op, ast.Eq):
                return f"decide ({x} = {y})"
            if isinstance(op, ast.NotEq):
                return f"(!decide ({x} = {y}))"
        raise Untranslatable(f"comparison {type(op).__name__} on {t}")

    def compare_pure(self, n, st):
        """a comparison (chain) in value position: operands are evaluated once, left to right"""
        nt = self.none_test(n, st)
        if nt is not None:
            o = self.ev(nt[0], st)
            if o.ty == "NONE":
                return Val("true" if nt[1] else "false", "B")
            if o.ty == "OPTF":
                return Val(f"{o.term}.isNone" if nt[1] else f"{o.term}.isSome", "B")
            if o.ty in ("F", "I", "N", "LIT", "LAT", "STR"):
                return Val("false" if nt[1] else "true", "B")
            raise Untranslatable("None test on " + o.ty)
        vs = [self.ev(n.left, st)] + [self.ev(c, st) for c in n.comparators]
        parts = [self.cmp1(vs[i], n.ops[i], vs[i + 1]) for i in range(len(n.ops))]
        return Val(parts[0] if len(parts) == 1 else "(" + " && ".join(parts) + ")", "B")

    def callname(self, c):
        f = c.func
        if isinstance(f, ast.Name):
            return ("", f.id)
        if isinstance(f, ast.Attribute):
            if isinstance(f.value, ast.Name):
                return (f.value.id, f.attr)
            if isinstance(f.value, ast.Attribute) and isinstance(f.value.value, ast.Name):
                return (f.value.value.id + "." + f.value.attr, f.attr)
            return ("<expr>", f.attr)
        return ("?", "?")

    def kw(self, c, allowed):
        out = {}
        for k in c.keywords:
            if k.arg not in allowed:
                raise Untranslatable(f"keyword argument {k.arg} of {self.callname(c)[1]}")
            out[k.arg] = k.value
        return out

    def call(self, c, st):
        mod, name = self.callname(c)
        # ---- methods of self / of a local lattice / of the kernel object
        if mod == "self":
            return self.callmethod(None, name, c, st)
        if mod in st.env and st.env[mod].ty == "LAT":
            return self.callmethod(mod, name, c, st)
        if mod in st.env and st.env[mod].ty == "KOBJ" and name == "pdf":
            if c.keywords or len(c.args) != 1 or not self.opaque_ok(c.args[0], st):
                raise Untranslatable("pdf(...) whose argument is not a plain kernel argument")
            t = self.bind(st, f"popK {st.env[mod].term}")
            st.env[mod] = Val(f"{t}.2", "KOBJ")
            return Val(f"{t}.1", "F")
        # ---- the frozen distribution: the particle's table of pdf values, in call order
        if name == "multivariate_normal" and mod in ("", "scipy.stats", "stats"):
            if st.ptl is None:
                raise Untranslatable("multivariate_normal(...) outside the loop over the particles")
            args = list(c.args) + [k.value for k in c.keywords]
            if any(k.arg not in ("mean", "cov") for k in c.keywords) or len(args) > 2 or \
                    not all(self.opaque_ok(a, st) for a in args):
                raise Untranslatable("multivariate_normal(...) arguments")
            if st.kobj_made:
                # the recorded pdf values are ONE sequence per particle: two live objects would interleave it
                raise Untranslatable("a second multivariate_normal(...) object for the same particle")
            st.kobj_made = True
            return Val(f"{st.ptl}.kv", "KOBJ")
        # ---- constructor
        if (mod, name) == ("", CLS):
            if c.keywords or len(c.args) != 9:
                raise Untranslatable("constructor call that does not pass exactly the nine geometry arguments positionally")
            self.method("__init__")
            args = []
            for a, t in zip(c.args, INIT_PARAMS):
                v = self.ev(a, st)
                if t == "N" and v.ty == "I":
                    args.append(self.bind(st, f"natOfInt {v.term}"))    # numpy: negative dimensions -> ValueError
                else:
                    args.append(co(v, t))
            self.uses.add("lin")
            ta = self.bind(st, f"initAttrs lin {' '.join(args)} none none none")
            return Val(self.let(st, f"init lin {' '.join(args)}", "LAT"), "LAT", attrs=ta)
        # ---- numpy / builtins
        if (mod, name) in (("np", "array"), ("np", "asarray"), ("numpy", "array"), ("numpy", "asarray")):
            kws = self.kw(c, {"dtype"})
            if "dtype" in kws and not (isinstance(kws["dtype"], ast.Name) and kws["dtype"].id == "float") \
                    and not (isinstance(kws["dtype"], ast.Attribute) and kws["dtype"].attr == "float64"):
                raise Untranslatable("np.array dtype")
            if len(c.args) != 1:
                raise Untranslatable("np.array arguments")
            v = self.ev(c.args[0], st)
            if v.ty != "AF":
                raise Untranslatable("np.array of " + v.ty)
            return v
        if (mod, name) in (("np", "abs"), ("np", "absolute"), ("np", "fabs"), ("", "abs"), ("math", "fabs"),
                           ("numpy", "abs")) and len(c.args) == 1 and not c.keywords:
            v = self.unwrap(self.ev(c.args[0], st), st)
            if v.ty == "AF":
                return Val(f"({v.term}.map absG)", "AF")
            if v.ty in ("F", "N", "LIT", "I"):
                return Val(f"(absG {co(v, 'F')})", "F")
            raise Untranslatable("abs of " + v.ty)
        if (mod, name) in (("", "min"), ("", "max")) and len(c.args) == 2 and not c.keywords:
            a, b = (self.unwrap(self.ev(x, st), st) for x in c.args)
            t = join_num(a, b)
            if t != "F":
                raise Untranslatable(f"{name} of {a.ty}, {b.ty}")
            return Val(f"({name}P {co(a, 'F')} {co(b, 'F')})", "F")
        if (mod, name) in (("np", "isnan"), ("numpy", "isnan"), ("math", "isnan")) and len(c.args) == 1 and not c.keywords:
            v = self.unwrap(self.ev(c.args[0], st), st)
            if v.ty in ("LIT", "N", "I"):
                return Val("false", "B")
            if v.ty != "F":
                raise Untranslatable("isnan of " + v.ty)
            self.uses.add("isnan")
            return Val(f"(isnan {v.term})", "B")
        if (mod, name) == ("", "round") and len(c.args) == 1 and not c.keywords:
            v = self.unwrap(self.ev(c.args[0], st), st)
            if v.ty in ("LIT", "N", "I"):
                return v
            if v.ty != "F":
                raise Untranslatable("round of " + v.ty)
            self.uses.add("pyround")
            return Val(self.let(st, f"pyround {v.term}", "I"), "I")
        if ((mod, name) in (("np", "argmin"), ("numpy", "argmin")) and len(c.args) == 1 and not c.keywords) or \
                (name == "argmin" and not c.args and not c.keywords and mod not in ("np", "numpy")):
            arr = self.ev(c.args[0] if c.args else c.func.value, st)
            if arr.ty != "AF":
                raise Untranslatable("argmin of " + arr.ty)
            return Val(f"((argminFirst {arr.term} : Nat) : Int)", "I")
        if (mod, name) == ("", "int") and len(c.args) == 1 and not c.keywords:
            v = self.ev(c.args[0], st)
            if v.ty in ("I", "N", "LIT"):
                return v
            raise Untranslatable("int() of " + v.ty)
        if (mod, name) == ("", "float") and len(c.args) == 1 and not c.keywords:
            v = self.ev(c.args[0], st)
            if v.ty in ("F",):
                return v
            if v.ty in ("LIT", "N", "I"):
                return Val(co(v, "F"), "F")
            raise Untranslatable("float() of " + v.ty)
        if (mod, name) == ("", "isinstance") and len(c.args) == 2 and not c.keywords:
            v = self.ev(c.args[0], st)
            k = c.args[1]
            if v.ty == "LAT" and isinstance(k, ast.Name) and k.id == CLS:
                return Val("true", "B")        # operands of the model ARE lattices
            if v.ty == "AF" and isinstance(k, ast.Name) and k.id == "list":
                return Val(None, "UB")         # list or ndarray: not observable in the model
            raise Untranslatable("isinstance test")
        if (mod, name) in (("np", "linspace"), ("numpy", "linspace")) and len(c.args) == 3 and not c.keywords:
            a, b, k = (self.ev(x, st) for x in c.args)
            self.uses.add("lin")
            return Val(f"(lin {co(a, 'F')} {co(b, 'F')} {co(k, 'N')})", "AF")
        if (mod, name) in (("np", "zeros"), ("numpy", "zeros")) and len(c.args) == 1 and not c.keywords:
            sh = self.ev(c.args[0], st)
            if sh.ty != "T" or len(sh.items) != 3:
                raise Untranslatable("np.zeros shape")
            a, b, k = (co(x, "N") for x in sh.items)
            return Val(f"(List.replicate ({a} * {b} * {k}) ((0 : Nat) : α))", "G")
        if (mod, name) in (("np", "ndindex"), ("numpy", "ndindex")) and len(c.args) == 1 and not c.keywords:
            sh = self.ev(c.args[0], st)
            if sh.ty != "SHAPE":
                raise Untranslatable("np.ndindex of " + sh.ty)
            return Val(f"(ndindex {' '.join(sh.items)})", "NDX", items=sh.items)
        if (mod, name) == ("", "range") and len(c.args) == 1 and not c.keywords:
            k = self.ev(c.args[0], st)
            if k.ty not in ("N", "LIT"):
                raise Untranslatable("range of " + k.ty)
            return Val(f"(List.range {co(k, 'N')})", "RNG", items=[co(k, "N")])
        raise Untranslatable(f"call of {mod + '.' if mod else ''}{name}")

    def callmethod(self, recv, name, c, st):
        """a method of `self` (recv None) or of the local lattice variable `recv`"""
        if name not in SIGS:
            raise Untranslatable(f"call of .{name} (not in the translated fragment)")
        lname, ptys, rty, mutates, warnobs = SIGS[name]
        info = self.method(name)
        f = self.fdef(name)
        pnames = [a.arg for a in f.args.args[1:]]
        slots = [None] * len(ptys)
        if len(c.args) > len(ptys):
            raise Untranslatable(f"too many arguments for .{name}")
        for i, a in enumerate(c.args):
            if isinstance(a, ast.Starred):
                raise Untranslatable("starred argument")
            slots[i] = a
        for k in c.keywords:
            if k.arg not in pnames or slots[pnames.index(k.arg)] is not None:
                raise Untranslatable(f"keyword argument {k.arg} of .{name}")
            slots[pnames.index(k.arg)] = k.value
        if any(s is None for s in slots):
            raise Untranslatable(f"missing argument of .{name} (defaults are not modelled)")
        # Python evaluates positional arguments, then keyword arguments, in source order
        order = sorted(range(len(slots)), key=lambda i: (slots[i].lineno, slots[i].col_offset))
        vals = {}
        for i in order:
            v = self.ev(slots[i], st)
            if ptys[i] == "LAT":
                if v.ty != "LAT" or v.attrs is None:
                    raise Untranslatable(f"argument {i + 1} of .{name} is not a lattice with known attributes")
                vals[i] = f"{v.term} {v.attrs}"
            else:
                vals[i] = co(self.unwrap(v, st) if ptys[i] == "F" else v, ptys[i])
        args = [vals[i] for i in range(len(slots))]
        self.uses |= info["uses"]
        head = [lname] + [u for u in ("lin", "isnan", "pyround") if u in info["uses"]]
        me = self.selfval(st) if recv is None else st.env[recv]
        if info["self"]:
            head.append(me.term)
        if info["attrs"]:
            if me.attrs is None:
                raise Untranslatable(f".{name} needs the constructor attributes of its receiver")
            head.append(me.attrs)
        t = self.bind(st, " ".join(head + args))
        track = self.cur[1][4]      # does the method being compiled report warnings?
        if mutates:
            new = f"{t}.1" if warnobs else t
            if warnobs and track:
                st.warned = or_(st.warned, f"{t}.2")
            if recv is None:
                st.L = new
            else:
                st.env[recv] = Val(new, "LAT", attrs=me.attrs)
            return Val("none", "NONE")
        if warnobs:
            if track:
                st.warned = or_(st.warned, f"{t}.2")
            t = f"{t}.1"
        if rty in ("T3I", "T3F"):
            e = rty[2]
            return Val(None, "T", [Val(f"{t}.1", e), Val(f"{t}.2.1", e), Val(f"{t}.2.2", e)])
        return Val(t, rty)

    # ------------------------------------------------------------------ conditions (short-circuit, CPS)
    def cond(self, n, st, kt, kf, ind):
        """text that evaluates the condition in `st` and continues with kt(st', ind) / kf(st', ind);
        used when at most one continuation goes on (so nothing is duplicated)"""
        pad = "  " * ind
        if isinstance(n, ast.UnaryOp) and isinstance(n.op, ast.Not):
            return self.cond(n.operand, st, kf, kt, ind)
        nt = self.none_test(n, st)
        if nt is not None:
            o = self.ev(nt[0], st)
            if o.ty == "OPTF":
                pre = self.flush(st, ind)
                r = self.tmp()
                a, b = st.copy(), st.copy()
                b.refine[o.term] = Val(r, "F")
                kn, ks = (kt, kf) if nt[1] else (kf, kt)
                return (f"{pre}{pad}match {o.term} with\n{pad}| none =>\n{kn(a, ind + 1)}\n"
                        f"{pad}| some {r} =>\n{ks(b, ind + 1)}")
        if isinstance(n, ast.BoolOp) and any(self.none_test(x, st) is not None for x in n.values):
            # keep the refinements on the path that goes on
            rest = n.values[1:]
            nxt = rest[0] if len(rest) == 1 else ast.BoolOp(op=n.op, values=rest)
            if isinstance(n.op, ast.And):
                return self.cond(n.values[0], st, lambda s, i: self.cond(nxt, s, kt, kf, i), kf, ind)
            return self.cond(n.values[0], st, kt, lambda s, i: self.cond(nxt, s, kt, kf, i), ind)
        if isinstance(n, ast.Compare) and len(n.ops) > 1:
            # a chained comparison stops at the first false link: later operands are not evaluated
            a = self.ev(n.left, st)
            return self.chain(a, list(n.ops), list(n.comparators), st, kt, kf, ind)
        v = self.ev(n, st)
        if v.ty != "B":
            raise Untranslatable("condition of type " + v.ty)
        pre = self.flush(st, ind)
        if v.term == "true":
            return pre + kt(st, ind)
        if v.term == "false":
            return pre + kf(st, ind)
        a, b = st.copy(), st.copy()
        return f"{pre}{pad}if {v.term} then\n{kt(a, ind + 1)}\n{pad}else\n{kf(b, ind + 1)}"

    def chain(self, a, ops, comps, st, kt, kf, ind):
        pad = "  " * ind
        b = self.ev(comps[0], st)
        test = self.cmp1(a, ops[0], b)
        pre = self.flush(st, ind)
        s1, s2 = st.copy(), st.copy()
        if len(ops) == 1:
            yes = kt(s1, ind + 1)
        else:
            yes = self.chain(b, ops[1:], comps[1:], s1, kt, kf, ind + 1)
        return f"{pre}{pad}if {test} then\n{yes}\n{pad}else\n{kf(s2, ind + 1)}"

    # ------------------------------------------------------------------ statements
    def mark(self):
        self.nmark += 1
        return f"\0END{self.nmark}\0"

    def run(self, ss, st, ind, fin):
        """text of the statement list `ss` followed by `fin(st, ind)` when control falls off its end"""
        if not ss:
            return fin(st, ind)
        s, rest = ss[0], ss[1:]
        pad = "  " * ind
        go = lambda s_, i_: self.run(rest, s_, i_, fin)     # noqa: E731
        if isinstance(s, ast.Pass):
            return go(st, ind)
        if isinstance(s, ast.Expr):
            v = s.value
            if isinstance(v, ast.Constant) and isinstance(v.value, str):
                return go(st, ind)
            if isinstance(v, ast.Call):
                mod, name = self.callname(v)
                if (mod, name) == ("warnings", "warn"):
                    if self.cur[1][4]:
                        st.warned = "true"
                    return go(st, ind)
                if name in SIGS and SIGS[name][3] and (mod == "self" or (mod in st.env and st.env[mod].ty == "LAT")):
                    self.callmethod(None if mod == "self" else mod, name, v, st)
                    return self.flush(st, ind) + go(st, ind)
            raise Untranslatable("expression statement " + ast.dump(v)[:70])
        if isinstance(s, ast.Return):
            if st.loopfin is not None:
                raise Untranslatable("return inside a loop")
            return self.ret(s.value, st, ind)
        if isinstance(s, ast.Continue):
            if st.loopfin is None:
                raise Untranslatable("continue outside a loop")
            return st.loopfin(st, ind)
        if isinstance(s, ast.Raise):
            e = s.exc
            cls = e.func.id if isinstance(e, ast.Call) and isinstance(e.func, ast.Name) else \
                e.id if isinstance(e, ast.Name) else None
            if cls not in EXC or s.cause is not None:
                raise Untranslatable("raise of " + str(cls))
            return f"{pad}.error {EXC[cls]}"
        if isinstance(s, ast.If):
            if self.unobservable(s.test, st):
                # a test the model cannot observe (list vs ndarray): the branch must be a pure conversion
                if s.orelse:
                    raise Untranslatable("isinstance(values, list) with an else branch")
                b = st.copy()
                m = self.mark()
                txt = self.run(list(s.body), b, ind, lambda s_, i_: m)
                if txt != m or b.pend or b.L != st.L or b.warned != st.warned or \
                        {k: v.key() for k, v in b.env.items()} != {k: v.key() for k, v in st.env.items()}:
                    raise Untranslatable("a branch on isinstance(values, list) that is not a pure conversion")
                return go(st, ind)
            if leaves(s.body) or leaves(s.orelse) or not rest:
                return self.cond(s.test, st,
                                 lambda s_, i_: self.run(list(s.body) + rest, s_, i_, fin),
                                 lambda s_, i_: self.run(list(s.orelse) + rest, s_, i_, fin), ind)
            return self.join_if(s, rest, st, ind, fin)
        if isinstance(s, (ast.Assign, ast.AnnAssign)):
            if isinstance(s, ast.AnnAssign):
                if s.value is None:
                    return go(st, ind)
                targets = [s.target]
            else:
                targets = s.targets
            if len(targets) != 1:
                raise Untranslatable("chained assignment")
            return self.assign(targets[0], s.value, st, ind, go)
        if isinstance(s, ast.AugAssign):
            binop = ast.BinOp(left=self._as_load(s.target), op=s.op, right=s.value)
            ast.copy_location(binop, s)
            ast.fix_missing_locations(binop)
            if isinstance(s.target, ast.Attribute):
                raise Untranslatable("augmented assignment to an attribute")
            return self.assign(s.target, binop, st, ind, go)
        if isinstance(s, ast.For):
            return self.loop(s, rest, st, ind, fin)
        raise Untranslatable("statement " + type(s).__name__)

    def unobservable(self, test, st):
        """`isinstance(values, list)`: list or ndarray is not a distinction of the model"""
        if not (isinstance(test, ast.Call) and self.callname(test) == ("", "isinstance")):
            return False
        probe = st.copy()
        keep = self.ntmp
        try:
            v = self.ev(test, probe)
        except Untranslatable:
            return False
        finally:
            self.ntmp = keep
        return v.ty == "UB"

    @staticmethod
    def _as_load(t):
        return ast.parse(ast.unparse(t), mode="eval").body

    # ---- state of a path, as far as a join / a loop has to carry it
    @staticmethod
    def snapshot(st):
        d = {k: v for k, v in st.env.items()}
        return d

    def differing(self, base, ends):
        """names whose value differs from `base` at some end (in `base` order, then new names defined at every end),
        plus the pseudo-names `self` / `warned`"""
        keys = []
        for k, v in base.env.items():
            if any(k in e.env and e.env[k].key() != v.key() for e in ends):
                keys.append(k)
        gone = [k for k in base.env if any(k not in e.env for e in ends)]
        new = []
        if ends:
            for k in ends[0].env:
                if k not in base.env and all(k in e.env for e in ends):
                    new.append(k)
        spec = []
        if any(e.L != base.L for e in ends):
            spec.append("self")
        if any(e.warned != base.warned for e in ends):
            spec.append("warned")
        return keys, new, gone, spec

    def end_val(self, e, k):
        if k == "self":
            return Val(e.L, "LAT", attrs=e.A)
        if k == "warned":
            return Val(e.warned, "B")
        return e.env[k]

    def carried_type(self, vals):
        if any(v.ty == "T" for v in vals):
            raise Untranslatable("a tuple assigned on different paths")
        if any(v.ty == "OPQ" for v in vals):
            return "OPQ"
        t = unify([v.ty for v in vals])
        if t == "LIT":
            if len({v.term for v in vals}) == 1:
                return "LIT"
            t = "I"
        if t == "NONE":
            return "NONE"
        if t not in LEAN_TY:
            raise Untranslatable("a value of type " + t + " assigned on different paths")
        if t == "LAT" and len({v.attrs for v in vals}) != 1:
            raise Untranslatable("lattices with different constructor attributes on different paths")
        return t

    def join_if(self, s, rest, st, ind, fin):
        """`if` whose branches both fall through: the variables they change are joined"""
        pad = "  " * ind
        c = self.ev(s.test, st)
        if c.ty != "B":
            raise Untranslatable("condition of type " + c.ty)
        pre = self.flush(st, ind)
        if c.term in ("true", "false"):
            return pre + self.run((list(s.body) if c.term == "true" else list(s.orelse)) + rest, st, ind, fin)
        ends, marks = [], []

        def end(s_, i_):
            ends.append(s_)
            marks.append(self.mark())
            return "  " * i_ + marks[-1]
        a, b = st.copy(), st.copy()
        ta = self.run(list(s.body), a, ind + 1, end)
        na = len(ends)
        tb = self.run(list(s.orelse), b, ind + 1, end)
        if any(e.pend for e in ends):
            raise Untranslatable("internal: pending effects at a join")
        keys, new, gone, spec = self.differing(st, ends)
        st.kobj_made = st.kobj_made or any(e.kobj_made for e in ends)
        allk = keys + new + spec
        tys = {k: self.carried_type([self.end_val(e, k) for e in ends]) for k in allk}
        opq = [k for k in allk if tys[k] == "OPQ"]
        const = [k for k in allk if tys[k] in ("LIT", "NONE")]     # the same literal on every path
        carried = [k for k in allk if k not in opq and k not in const]
        for k in gone:
            st.env.pop(k, None)
        for k in opq:
            st.env[k] = Val(None, "OPQ")
        for k in const:
            self.set_key(st, k, self.end_val(ends[0], k))
        pure = na == 1 and len(ends) == 2 and ta.strip() == marks[0] and tb.strip() == marks[1]
        if pure:
            for k in carried:
                x, y = self.end_val(ends[0], k), self.end_val(ends[1], k)
                t = tys[k]
                self.set_key(st, k, Val(f"(if {c.term} then {self.as_type(x, t)} else {self.as_type(y, t)})", t, attrs=x.attrs))
            return pre + self.run(rest, st, ind, fin)
        n = len(carried)
        texts = ta + "\n" + pad + "else\n" + tb
        for e, m in zip(ends, marks):
            tup = ", ".join(self.as_type(self.end_val(e, k), tys[k]) for k in carried)
            texts = texts.replace(m, ".ok " + ((f"({tup})" if n != 1 else tup) if n else "()"))
        t = self.tmp()
        for i, k in enumerate(carried):
            self.set_key(st, k, Val(proj(t, i, n), tys[k], attrs=self.end_val(ends[0], k).attrs))
        sty = self.tuple_type([tys[k] for k in carried])
        return (f"{pre}{pad}((if {c.term} then\n{texts}) : Except Err ({sty})).bind fun {t} =>\n"
                + self.run(rest, st, ind, fin))

    @staticmethod
    def tuple_type(ts):
        if not ts:
            return "Unit"
        if len(ts) == 1:
            return LEAN_TY[ts[0]]
        return " × ".join(f"({LEAN_TY[t]})" if " " in LEAN_TY[t] else LEAN_TY[t] for t in ts)

    @staticmethod
    def as_type(v, t):
        if v.ty == t:
            return v.term
        return co(v, t)

    @staticmethod
    def set_key(st, k, v):
        if k == "self":
            st.L = v.term
        elif k == "warned":
            st.warned = v.term
        else:
            st.env[k] = v

    def store_attr(self, target, v, st, ind, go):
        """<lattice>.grid_ = v   (a local lattice, or self)"""
        if target.attr != "grid_" or v.ty != "G":
            raise Untranslatable(f"assignment to .{target.attr}")
        if isinstance(target.value, ast.Name) and target.value.id == "self":
            pre = self.flush(st, ind)
            st.L = f"{{ {self.selfval(st).term} with grid := {v.term} }}"
            return pre + go(st, ind)
        if isinstance(target.value, ast.Name) and target.value.id in st.env and st.env[target.value.id].ty == "LAT":
            x = target.value.id
            pre = self.flush(st, ind)
            st.env[x] = Val(f"{{ {st.env[x].term} with grid := {v.term} }}", "LAT", attrs=st.env[x].attrs)
            return pre + go(st, ind)
        raise Untranslatable("assignment to an attribute of " + ast.dump(target.value)[:40])

    def assign(self, target, value, st, ind, go):
        if isinstance(target, ast.Name):
            if self.is_opaque_assign(value, st):
                st.env[target.id] = Val(None, "OPQ")
                return go(st, ind)
            v = self.ev(value, st)
            pre = self.flush(st, ind)
            if v.ty == "UB":
                raise Untranslatable("assignment of an unobservable test")
            st.env[target.id] = v               # pure values stay symbolic
            return pre + go(st, ind)
        if isinstance(target, (ast.Tuple, ast.List)):
            v = self.ev(value, st)
            if v.ty != "T" or len(v.items) != len(target.elts) or not all(isinstance(e, ast.Name) for e in target.elts):
                raise Untranslatable("unpacking")
            pre = self.flush(st, ind)
            for e, x in zip(target.elts, v.items):
                st.env[e.id] = x
            return pre + go(st, ind)
        if isinstance(target, ast.Subscript):
            o = self.ev(target.value, st)
            if o.ty != "G" or o.items is None:
                raise Untranslatable("item assignment to something other than a lattice's grid_")
            owner = target.value.value if isinstance(target.value, ast.Attribute) else None
            if not isinstance(owner, ast.Name):
                raise Untranslatable("item assignment to the grid of an expression")
            # Python: right-hand side first, then the target's index expressions
            v = self.unwrap(self.ev(value, st), st)
            i, j, k = self.index3(target.slice, st)
            cur = self.ev(owner, st)
            t = self.bind(st, f"{cur.term}.rawSet {i} {j} {k} {co(v, 'F')}")
            if owner.id == "self":
                st.L = t
            else:
                st.env[owner.id] = Val(t, "LAT", attrs=cur.attrs)
            return self.flush(st, ind) + go(st, ind)
        if isinstance(target, ast.Attribute):
            v = self.ev(value, st)
            return self.store_attr(target, v, st, ind, go)
        raise Untranslatable("assignment target " + type(target).__name__)

    def is_opaque_assign(self, value, st):
        """a local that only feeds the kernel arguments: cannot be translated, but is a plain kernel argument"""
        if st.ptl is None:
            return False
        probe = st.copy()
        keep = self.ntmp
        try:
            self.ev(value, probe)
            return False
        except Untranslatable:
            return self.opaque_ok(value, st)
        finally:
            self.ntmp = keep

    # ------------------------------------------------------------------ loops
    def loop_header(self, s, st):
        """-> (iterator Val, element type, list of (python name, projection of the element), body)"""
        if s.orelse:
            raise Untranslatable("for ... else")
        it = self.ev(s.iter, st)
        tg = s.target
        if it.ty == "NDX" and isinstance(tg, (ast.Tuple, ast.List)) and len(tg.elts) == 3 \
                and all(isinstance(e, ast.Name) for e in tg.elts):
            return it, "Nat × Nat × Nat", [(e.id, pr, "N") for e, pr in zip(tg.elts, (".1", ".2.1", ".2.2"))], list(s.body)
        if it.ty == "RNG" and isinstance(tg, ast.Name):
            # three directly nested range loops = the ndindex triples in the same order
            b1 = s.body
            if len(b1) == 1 and isinstance(b1[0], ast.For) and not b1[0].orelse and isinstance(b1[0].target, ast.Name):
                b2 = b1[0].body
                if len(b2) == 1 and isinstance(b2[0], ast.For) and not b2[0].orelse and isinstance(b2[0].target, ast.Name):
                    try:
                        it2, it3 = self.ev(b1[0].iter, st), self.ev(b2[0].iter, st)
                    except Untranslatable:
                        it2 = it3 = None
                    names = [tg.id, b1[0].target.id, b2[0].target.id]
                    if it2 is not None and it2.ty == "RNG" and it3.ty == "RNG" and len(set(names)) == 3:
                        dims = [it.items[0], it2.items[0], it3.items[0]]
                        ndx = Val(f"(ndindex {' '.join(dims)})", "NDX", items=dims)
                        return ndx, "Nat × Nat × Nat", [(n_, pr, "N") for n_, pr in zip(names, (".1", ".2.1", ".2.2"))], list(b2[0].body)
            return it, "Nat", [(tg.id, "", "N")], list(s.body)
        if it.ty == "LPTL" and isinstance(tg, ast.Name):
            return it, "Ptl α", [(tg.id, "", "PTL")], list(s.body)
        raise Untranslatable("for loop over " + it.ty)

    def assigned_names(self, body):
        out = set()
        for n in ast.walk(ast.Module(body=list(body), type_ignores=[])):
            if isinstance(n, ast.Name) and isinstance(n.ctx, ast.Store):
                out.add(n.id)
        return out

    def loop_body(self, body, st, state, elem_ty, targets, ind):
        """compile the body with `state` (list of keys) carried; -> (text, ends, acc name, types)"""
        acc, p = self.tmp(), self.tmp()
        b = st.copy()
        b.pend = []
        tys = {}
        n = len(state)
        for i, k in enumerate(state):
            v0 = self.end_val(st, k)
            t = v0.ty
            if t == "LIT":
                t = "F"          # an accumulator started from a literal
            if t not in LEAN_TY:
                raise Untranslatable(f"a loop changes a value of type {t}")
            tys[k] = t
            self.set_key(b, k, Val(proj(acc, i, n), t, attrs=v0.attrs,
                                   items=(proj(acc, i, n) if t == "G" else None)))
        for name, pr, ty in targets:
            b.env[name] = Val(f"{p}{pr}", ty)
            if ty == "PTL":
                b.ptl = f"{p}{pr}"
                b.kobj_made = False
        ends, marks = [], []

        def end(s_, i_):
            ends.append(s_)
            marks.append(self.mark())
            return "  " * i_ + marks[-1]
        b.loopfin = end
        text = self.run(body, b, ind + 1, end)
        return text, ends, marks, acc, p, tys, b

    def loop(self, s, rest, st, ind, fin):
        pad = "  " * ind
        it, elem_ty, targets, body = self.loop_header(s, st)
        pre = self.flush(st, ind)
        tnames = {t[0] for t in targets}
        for t in tnames:
            st.env.pop(t, None)
        assigned = self.assigned_names(body)
        cands = [k for k, v in st.env.items() if (k in assigned or v.ty in STATEFUL) and v.ty != "OPQ"]
        if st.L is not None:
            cands.append("self")
        cands.append("warned")
        # trial compilation with everything that might change carried: which of it does change?
        keep = (self.ntmp, self.nmark, set(self.uses))
        saved_done = (dict(self.done), list(self.order), list(self.regions))
        _, ends, _, acc, _, tys, b0 = self.loop_body(body, st, cands, elem_ty, targets, ind)
        n = len(cands)
        changed = []
        for i, k in enumerate(cands):
            if any(self.end_val(e, k).key()[0] != proj(acc, i, n) for e in ends):
                changed.append(k)
        self.ntmp, self.nmark = keep[0], keep[1]
        # (methods compiled during the trial stay compiled: their text does not depend on the caller)
        text, ends, marks, acc, p, tys, b0 = self.loop_body(body, st, changed, elem_ty, targets, ind)
        n = len(changed)
        base_keys = {k: v.key() for k, v in st.env.items()}
        for e in ends:
            if e.pend:
                raise Untranslatable("internal: pending effects at the end of a loop body")
            for k, kv in base_keys.items():
                if k in changed:
                    continue
                if k not in e.env or e.env[k].key() != kv:
                    if st.env[k].ty == "OPQ" or (k in e.env and e.env[k].ty == "OPQ"):
                        continue
                    raise Untranslatable(f"loop body changes `{k}` in a way the loop state cannot carry")
            if "self" not in changed and e.L != st.L:
                raise Untranslatable("internal: loop changes self")
        if not any(t[2] == "PTL" for t in targets):
            st.kobj_made = st.kobj_made or any(e.kobj_made for e in ends)
        for e, m in zip(ends, marks):
            tup = ", ".join(self.as_type(self.end_val(e, k), tys[k]) for k in changed)
            text = text.replace(m, ".ok " + ((f"({tup})" if n != 1 else tup) if n else "()"))
        sty = self.tuple_type([tys[k] for k in changed])
        init = ", ".join(self.as_type(self.end_val(st, k), tys[k]) for k in changed)
        init = (f"({init})" if n != 1 else init) if n else "()"
        t = self.tmp()
        for i, k in enumerate(changed):
            v0 = self.end_val(st, k)
            self.set_key(st, k, Val(proj(t, i, n), tys[k], attrs=v0.attrs))
        # names assigned in the body that held an opaque value stay opaque
        return (f"{pre}{pad}(List.foldlM (m := Except Err) (fun ({acc} : {sty}) ({p} : {elem_ty}) =>\n{text}) {init} {it.term})"
                f".bind fun {t} =>\n" + self.run(rest, st, ind, fin))

    # ------------------------------------------------------------------ results
    def ret(self, node, st, ind):
        pad = "  " * ind
        name, (lname, ptys, rty, mutates, warnobs) = self.cur
        if mutates:
            if node is not None and not (isinstance(node, ast.Constant) and node.value is None):
                raise Untranslatable(f"{name} returns a value")
            pre = self.flush(st, ind)
            return f"{pre}{pad}.ok " + (f"({st.L}, {st.warned})" if warnobs else st.L)
        if node is None:
            node = ast.Constant(value=None)
        if isinstance(node, ast.IfExp):
            return self.cond(node.test, st, lambda s_, i_: self.ret(node.body, s_, i_),
                             lambda s_, i_: self.ret(node.orelse, s_, i_), ind)
        v = self.ev(node, st)
        if rty == "INFER":
            rty = {"F": "OPTF" if self.infer_opt else "F", "NONE": "OPTF", "LIT": "F", "N": "F", "I": "F"}.get(v.ty)
            if rty is None:
                raise Untranslatable("derived attribute of type " + v.ty)
            self.inferred.add(rty)
        if self.cur_self_const and st.L != "L":
            raise Untranslatable(f"{name} modifies self")
        t = co(v, rty)
        pre = self.flush(st, ind)
        return f"{pre}{pad}.ok " + (f"({t}, {st.warned})" if warnobs else t)

    # ------------------------------------------------------------------ one method
    def method(self, name):
        if name in self.done:
            return self.done[name]
        if name in self.active:
            raise Untranslatable(f"recursion through {name}")
        if name == "__init__":
            return self.init()
        self.active.append(name)
        saved = (getattr(self, "cur", None), self.uses, getattr(self, "cur_self_const", None), self.ntmp)
        self.ntmp = 0
        lname, ptys, rty, mutates, warnobs = SIGS[name]
        f = self.fdef(name)
        a = f.args
        if a.kwonlyargs or a.kwarg or a.posonlyargs or not a.args or a.vararg:
            raise Untranslatable(f"{name}: parameter list")
        if f.decorator_list:
            raise Untranslatable(f"{name}: decorated")
        params = a.args[1:]
        if a.args[0].arg != "self":
            raise Untranslatable("first parameter is not called self")
        if len(params) != len(ptys):
            raise Untranslatable(f"{name}: expected {len(ptys)} parameters, found {len(params)}")
        plist = [(p.arg, t) for p, t in zip(params, ptys)]
        self.cur = (name, SIGS[name])
        self.uses = set()
        self.cur_self_const = not mutates
        env = {}
        for p, t in plist:
            env[p] = Val(nm(p), t, attrs=(nm(p) + "A" if t == "LAT" else None))
        st = St(env, "L", "A")
        body = self.run(list(f.body), st, 1, lambda s_, i_: self.ret(None, s_, i_))
        uses_self = re.search(r"(?<![A-Za-z0-9_'.])L(?![A-Za-z0-9_'])", body) is not None
        uses_attrs = re.search(r"(?<![A-Za-z0-9_'.])A(?![A-Za-z0-9_'])", body) is not None
        if mutates:
            res = "Lat α α × Bool" if warnobs else "Lat α α"
        else:
            res = LEAN_TY[rty]
            if warnobs:
                res = f"({res}) × Bool"
        binders = []
        if "lin" in self.uses:
            binders.append("(lin : α → α → Nat → List α)")
        if "isnan" in self.uses:
            binders.append("(isnan : α → Bool)")
        if "pyround" in self.uses:
            binders.append("(pyround : α → Int)")
        if uses_self:
            binders.append("(L : Lat α α)")
        if uses_attrs:
            binders.append("(A : Attrs α)")
        for p, t in plist:
            binders.append(f"({nm(p)} : {LEAN_TY[t]})")
            if t == "LAT":
                binders.append(f"({nm(p)}A : Attrs α)")
        text = (f"/-- `{CLS}.{name}` as written in the source -/\n"
                f"def {lname} {' '.join(binders)} : Except Err ({res}) :=\n{body}\n")
        info = dict(text=text, uses=set(self.uses), self=uses_self, attrs=uses_attrs, lean=lname)
        self.done[name] = info
        self.order.append(name)
        self.regions.append(dict(file=FILE, region=name, sha=pyexpr.src_hash(self.source, f)))
        self.active.pop()
        self.cur, uses_prev, self.cur_self_const, self.ntmp = saved
        self.uses = uses_prev
        return info

    # ------------------------------------------------------------------ the constructor
    def init(self):
        f = self.fdef("__init__")
        a = f.args
        if a.vararg or a.kwarg or a.kwonlyargs or a.posonlyargs or len(a.args) != 13:
            raise Untranslatable("__init__: parameter list (nine geometry arguments and three n_sigma expected)")
        params = [p.arg for p in a.args[1:]]
        geo, nsig = params[:9], params[9:]
        if len(a.defaults) != 3 or not all(isinstance(d, ast.Constant) and d.value is None for d in a.defaults):
            raise Untranslatable("__init__: the three n_sigma parameters must default to None")
        saved = (getattr(self, "cur", None), self.uses, getattr(self, "cur_self_const", None))
        saved_ntmp = self.ntmp
        self.active.append("__init__")
        self.uses = set()
        self.cur = ("__init__", ("init", [], None, False, False))
        env = {p: Val(nm(p), t) for p, t in zip(geo, INIT_PARAMS)}
        for p in nsig:
            env[p] = Val(nm(p), "OPTF")
        st = St(env, None, selfattrs={})
        derived = {}
        for s in f.body:
            if isinstance(s, ast.Expr) and isinstance(s.value, ast.Constant) and isinstance(s.value.value, str):
                continue
            if isinstance(s, ast.AnnAssign) and s.value is not None:
                tgt, val = s.target, s.value
            elif isinstance(s, ast.Assign) and len(s.targets) == 1:
                tgt, val = s.targets[0], s.value
            else:
                raise Untranslatable("__init__: statement " + type(s).__name__)
            if isinstance(tgt, ast.Name):
                # a local of the constructor (hoisted subexpression): kept symbolic
                v = self.ev(val, st)
                if st.pend:
                    raise Untranslatable(f"__init__: local {tgt.id} computed by an expression that can raise")
                st.env[tgt.id] = v
                continue
            if not (isinstance(tgt, ast.Attribute) and isinstance(tgt.value, ast.Name) and tgt.value.id == "self"):
                raise Untranslatable("__init__: assignment to something other than an attribute of self")
            at = tgt.attr
            if at in IGNORED_INIT:
                for n in ast.walk(val):
                    if isinstance(n, ast.Call):
                        raise Untranslatable(f"__init__: {at} (outside the fragment) is computed by a call")
                continue
            if at in FIELDS:
                v = self.ev(val, st)
                if st.pend:
                    raise Untranslatable(f"__init__: {at} computed by an expression that can raise")
                fty = FIELDS[at][1]
                if fty in ("AF", "G"):
                    if v.ty != fty:
                        raise Untranslatable(f"__init__: {at} of type {v.ty}")
                    st.selfattrs[at] = Val(v.term, fty)
                else:
                    st.selfattrs[at] = Val(co(v, fty), fty)
                continue
            if at in DERIVED:
                if at in derived:
                    raise Untranslatable(f"__init__: {at} assigned twice")
                derived[at] = (val, dict(st.selfattrs), dict(st.env))
                continue
            raise Untranslatable(f"__init__: attribute {at} (outside the translated fragment)")
        missing = [k for k in FIELDS if k not in st.selfattrs]
        if missing:
            raise Untranslatable("__init__: attributes not assigned: " + ", ".join(missing))
        missing = [k for k in DERIVED if k not in derived]
        if missing:
            raise Untranslatable("__init__: derived attributes not assigned: " + ", ".join(missing))
        byfield = {FIELDS[k][0]: st.selfattrs[k].term for k in FIELDS}
        gbind = " ".join(f"({nm(p)} : {LEAN_TY[t]})" for p, t in zip(geo, INIT_PARAMS))
        nbind = " ".join(f"({nm(p)} : Option α)" for p in nsig)
        fields = ",\n    ".join(f"{k} := {byfield[k]}" for k in FIELD_ORDER)
        text = (f"/-- `{CLS}.__init__`: the record built from the nine geometry arguments -/\n"
                f"def init (lin : α → α → Nat → List α) {gbind} : Lat α α :=\n  {{ {fields} }}\n")
        # derived attributes: one definition each, as functions of the constructor arguments, in assignment order
        for at in derived:
            val, attrs, env_at = derived[at]
            self.cur = ("__init__." + at, ("attr_" + at, [], "INFER", False, False))
            self.cur_self_const = False
            self.infer_opt = DERIVED[at][1] == "OPTF"
            self.inferred = set()
            s2 = St(dict(env_at), None, selfattrs=attrs)
            self.ntmp = 0
            body = self.ret(val, s2, 1)
            want = DERIVED[at][1]
            if self.inferred != {want}:
                raise Untranslatable(f"__init__: {at} is not of type {want} on every branch")
            text += (f"\n/-- `self.{at}` as computed by `__init__` -/\n"
                     f"def attr_{at} (lin : α → α → Nat → List α) {gbind} {nbind} : Except Err ({LEAN_TY[want]}) :=\n{body}\n")
        args = " ".join(nm(p) for p in geo + nsig)
        text += ("\n/-- the attributes `__init__` derives, evaluated in the order of its statements -/\n"
                 f"def initAttrs (lin : α → α → Nat → List α) {gbind} {nbind} : Except Err (Attrs α) :=\n")
        for at in derived:
            text += f"  (attr_{at} lin {args}).bind fun {at} =>\n"
        text += "  .ok { " + ", ".join(f"{DERIVED[at][0]} := {at}" for at in DERIVED) + " }\n"
        info = dict(text=text, uses={"lin"}, self=False, attrs=False, lean="init")
        self.done["__init__"] = info
        self.order.append("__init__")
        self.regions.append(dict(file=FILE, region="__init__", sha=pyexpr.src_hash(self.source, f)))
        self.active.pop()
        self.cur, self.uses, self.cur_self_const = saved
        self.ntmp = saved_ntmp
        return info


HEADER = """-- GENERATED by harness/translate/smear.py from src/sparkx/Lattice3D.py -- do not edit
import SparkxVerif.Core.Lattice
import SparkxVerif.Core.Smear

set_option linter.unusedVariables false

namespace SparkxVerif.Gen.Smear
open SparkxVerif.Lattice (Err Lat pyGet argminFirst absG ndindex)
open SparkxVerif.Smear (minP maxP)

/-! fixed prelude (not derived from the source): the records and the primitives the generated text is written over -/

/-- the attributes of a `Lattice3D` object that `__init__` derives and nothing assigns afterwards -/
structure Attrs (α : Type) where
  cell_volume : α
  spacing_x : Option α
  spacing_y : Option α
  spacing_z : Option α
  n_sigma_x : α
  n_sigma_y : α
  n_sigma_z : α

/-- a particle as `add_particle_data` reads it; `kv` = the values its frozen `multivariate_normal` object returns
from `.pdf(…)`, in call order (scipy is not modelled: Core/Smear.lean takes the same table as a parameter) -/
structure Ptl (α : Type) where
  x : α
  y : α
  z : α
  E : α
  charge : α
  baryon_number : α
  strangeness : α
  px : α
  py : α
  pz : α
  kv : List α

/-- the next `.pdf(…)` value of a frozen distribution (running out of recorded values cannot happen on the real
object; the model answers `ValueError`) -/
def popK {α : Type} : List α → Except Err (α × List α)
  | [] => .error .value
  | v :: rest => .ok (v, rest)

/-- `None` as an operand of arithmetic: `TypeError` -/
def unwrapOpt {α : Type} : Option α → Except Err α
  | none => .error .type
  | some v => .ok v

/-- a Python int used as a node count (`np.linspace` / `np.zeros` raise `ValueError` on a negative one) -/
def natOfInt (i : Int) : Except Err Nat := if i < 0 then .error .value else .ok i.toNat

/-- a Python int in float arithmetic -/
def ofInt {α : Type} [Neg α] [NatCast α] (i : Int) : α :=
  if i < 0 then -((i.natAbs : Nat) : α) else ((i.toNat : Nat) : α)

variable {α : Type} [LT α] [LE α] [DecidableLT α] [DecidableLE α] [Add α] [Sub α] [Neg α] [NatCast α] [Mul α] [Div α]
"""


def render(source: str):
    tr = Tr(source)
    tr.method("__init__")
    tr.method(ROOT)
    L = [HEADER]
    for m in tr.order:
        L.append(tr.done[m]["text"])
    L.append("end SparkxVerif.Gen.Smear")
    info = {m: dict(lean=tr.done[m]["lean"], uses=sorted(tr.done[m]["uses"]), self=tr.done[m]["self"],
                    attrs=tr.done[m].get("attrs", False)) for m in tr.order}
    return "\n".join(L) + "\n", tr.regions, info
