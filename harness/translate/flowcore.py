"""Tie T for C12 (computational core): ReactionPlaneFlow / ScalarProductFlow / EventPlaneFlow -> Gen/FlowCore.lean.

A small symbolic executor for the "nested list loop" Python these three classes are written in.  It runs the PUBLIC
methods `integrated_flow` / `differential_flow` of the current source (private helper methods are inlined at their call
sites, whatever they are called and however the work is split between them) and emits, for each of them, one Lean
definition over the vocabulary of `Core/Flow.lean` (`Ops`, `Part`, `Ev`, `chainVal`, `dir`, `npow`, `sumL`):

  rpIntegrated rpDifferential | spResolution spIntegrated spDifferential | epRn epIntegrated epDifferential

How Python values are represented while executing
  * scalars: a Lean term of type α (real), κ (complex) or Bool;
  * lists: never materialised while they are only indexed - a list is (base list, bound variable, element), i.e.
    `[elem(x) for x in base]`.  `X[i]` with `i` from `for i in range(len(Y))` is defined iff X and Y have the SAME
    base (then it is elem(x_i)); otherwise Untranslatable.  The two samples of the scalar-product / event-plane
    estimators are the two fields of `evs : List (Ev α κ)` (`particle_data[e] = evs[e].flow`,
    `particle_data_event_plane[e] = evs[e].ref`: same number of events, as in the Core model and the driver);
  * `L = []` ... `L.append(v)` / `L.extend([v])` once per iteration (possibly under a guard) -> map / filter+map;
    `L[i] = v`, `L[i] /= v` inside `for i in range(len(L))` -> elementwise update;
  * loop-carried scalars (`acc += ...`): left folds with the source's initial value; carried variables that read
    each other (reaction plane: `if number_particles != 0.0`) become ONE fold over a tuple state, independent ones
    separate folds; `if` merges values (`if c then a else b`).
Patterns with a fixed rendering (the contracts of the Core model)
  * `np.exp(1j * n * p.phi())` (factors in any order, `float(self.n_)` allowed) -> `p.u`;
  * `C if np.isnan(p.weight) else p.weight` -> `p.w.getD C`;
  * `(1/n) * np.arctan2(z.imag, z.real)` -> the angle Psi(z); `np.cos(n * (A - B))` with A, B in {p.phi(), Psi(z)}
    -> `O.re (O.conj D(A) * D(B))`, D(p.phi()) = p.u, D(Psi(z)) = `dir O z` (direction, `dir 0 = 1` = arctan2(0,0) = 0);
    any other arithmetic on an angle is outside the fragment (that is how the Psi_n average of the event-plane result,
    3rd/4th component, drops out: it is never demanded);
  * `x == 0.0`, `x != 0.0`, `a >= b`, `a < b` ... -> `O.isZero`, `O.le`, `O.lt`;
  * the dispatch chain on `self.weight_` -> the parameter `wq p`; on `flow_as_function_of` -> `chainVal site.chain 0 sel p`
    (contents of both chains and of the accepted lists: Gen/FlowSelectors, translated by flowsel.py) with initial value 0.0
    checked here; `if flow_as_function_of not in [...]: raise ValueError` -> `none` iff `!site.accepted.contains sel`;
    other `isinstance` / `raise TypeError` argument checks are outside the value path;
  * `for bin in range(len(bins) - m)` with `bins[bin + j0]`, `bins[bin + j1]` -> iteration over
    `((edges.drop j0).zip (edges.drop j1)).take (edges.length - m)` (m >= j1 required: otherwise IndexError by construction);
  * a division at the top level of the public method by an accumulated count (reaction plane `/= number_particles`)
    -> `none` when the divisor is zero (ZeroDivisionError / nan), as in the Core model;
  * event-plane resolution: everything from the first nested `def` to the end of the function that contains it is the
    opaque contract `O.res x`, x the only translated local it reads (the root finding with Bessel functions).
Everything else raises Untranslatable (golden fallback, tie = correspondence-only).
"""
import ast
import re

from . import pyexpr
from .pyexpr import Untranslatable

R, C, B = "R", "C", "B"


# ------------------------------------------------------------------ symbolic values
class V:
    pass


class Sc(V):
    def __init__(self, term, ty):
        self.term, self.ty = term, ty


class PartV(V):
    def __init__(self, term):
        self.term = term


class PhiV(V):        # p.phi()
    def __init__(self, p):
        self.p = p


class AngleV(V):      # arctan2(z.imag, z.real)
    def __init__(self, z):
        self.z = z


class PsiV(V):        # (1/n) * arctan2(z.imag, z.real)
    def __init__(self, z):
        self.z = z


class ImagV(V):       # z.imag (only inside arctan2)
    def __init__(self, z):
        self.z = z


class ReV(Sc):        # z.real: a real scalar that remembers z (arctan2 pattern)
    def __init__(self, term, z):
        Sc.__init__(self, term, R)
        self.z = z


class Lst(V):
    def __init__(self, key, base, var, elem):
        self.key, self.base, self.var, self.elem = key, base, var, elem


class Empty(V):       # `[]` not yet filled
    pass


class Tup(V):
    def __init__(self, items):
        self.items = items


class Idx(V):
    def __init__(self, key, var):
        self.key, self.var = key, var


class StrP(V):
    def __init__(self, which):
        self.which = which


class NatN(V):        # self.n_ / float(self.n_)
    pass


class InvN(V):        # 1.0 / float(self.n_)
    pass


class ImUnit(V):      # 1j
    pass


class BinsV(V):
    pass


class LenV(V):
    def __init__(self, lst=None, bins_minus=None):
        self.lst, self.bins_minus = lst, bins_minus


class Bad(V):
    """a value outside the fragment; an error only if the demanded result depends on it"""
    def __init__(self, why):
        self.why = why


def nat(k):
    return f"(({k} : Nat) : α)"


def num(v):
    if isinstance(v, bool) or not isinstance(v, (int, float)):
        raise Untranslatable(f"literal {v!r}")
    if v != v or v in (float("inf"), float("-inf")):
        raise Untranslatable("non-finite literal")
    if float(v) == int(v) and abs(v) < 2 ** 53:
        k = int(v)
        return nat(k) if k >= 0 else f"(-{nat(-k)})"
    a, b = abs(float(v)).as_integer_ratio()
    t = f"({nat(a)} / {nat(b)})"
    return t if v > 0 else f"(-{t})"


def subst(term, old, new):
    return re.sub(r"(?<![\w.])" + re.escape(old) + r"(?![\w])", new, term)


def vsubst(v, old, new):
    if isinstance(v, ReV):
        return ReV(subst(v.term, old, new), subst(v.z, old, new))
    if isinstance(v, Sc):
        return Sc(subst(v.term, old, new), v.ty)
    if isinstance(v, PartV):
        return PartV(subst(v.term, old, new))
    if isinstance(v, PhiV):
        return PhiV(subst(v.p, old, new))
    if isinstance(v, (AngleV, PsiV, ImagV)):
        return type(v)(subst(v.z, old, new))
    if isinstance(v, Lst):
        return Lst(subst(v.key, old, new), subst(v.base, old, new), v.var, vsubst(v.elem, old, new))
    if isinstance(v, Tup):
        return Tup([vsubst(x, old, new) for x in v.items])
    return v


def mentions(term, name):
    return re.search(r"(?<![\w.])" + re.escape(name) + r"(?![\w])", term) is not None


def vterms(v):
    """all Lean text inside a value"""
    if isinstance(v, Sc):
        return [v.term]
    if isinstance(v, PartV):
        return [v.term]
    if isinstance(v, PhiV):
        return [v.p]
    if isinstance(v, (AngleV, PsiV, ImagV)):
        return [v.z]
    if isinstance(v, Lst):
        return [v.base] + vterms(v.elem)
    if isinstance(v, Tup):
        return [t for x in v.items for t in vterms(x)]
    return []


class Return(Exception):
    def __init__(self, value):
        self.value = value


# ------------------------------------------------------------------ the executor
class Exec:
    def __init__(self, source, cls, two_samples):
        self.source = source
        self.tree = ast.parse(source)
        self.cls = None
        for node in self.tree.body:
            if isinstance(node, ast.ClassDef) and node.name == cls:
                self.cls = node
        if self.cls is None:
            raise Untranslatable(f"class {cls} not found")
        self.clsname = cls
        self.methods = {f.name: f for f in self.cls.body if isinstance(f, ast.FunctionDef)}
        self.two = two_samples
        self.counter = 0
        self.used = []          # methods executed (for the region hashes)
        self.depth = 0          # call depth
        self.loops = []         # stack of loop frames
        self.guards = []        # stack of path conditions inside the innermost loop body / function
        self.opt_guards = []    # top-level partiality (-> Option)
        self.bin_terms = {}
        self.tail_regions = []

    def fresh(self, p):
        self.counter += 1
        return f"{p}{self.counter}"

    # ---------------------------------------------------------------- entry
    def run(self, method, argvals):
        f = self.methods.get(method)
        if f is None:
            raise Untranslatable(f"{self.clsname}.{method} not found")
        self.depth = 0
        self.loops, self.guards, self.opt_guards = [], [], []
        return self.call(f, argvals, top=True)

    def call(self, f, argvals, top=False):
        if f.name not in [u.name for u in self.used]:
            self.used.append(f)
        a = f.args
        if a.vararg or a.kwarg or a.kwonlyargs or a.posonlyargs:
            raise Untranslatable(f"{f.name}: signature")
        names = [x.arg for x in a.args]
        if not names or names[0] != "self":
            raise Untranslatable(f"{f.name}: not a method")
        names = names[1:]
        env = {}
        if isinstance(argvals, dict):
            for n in names:
                if n not in argvals:
                    raise Untranslatable(f"{f.name}: unexpected parameter {n}")
                env[n] = argvals[n]
        else:
            if len(argvals) != len(names):
                raise Untranslatable(f"{f.name}: called with {len(argvals)} arguments")
            env = dict(zip(names, argvals))
        saved = (self.loops, self.guards)
        self.loops, self.guards = [], []
        if not top:
            self.depth += 1
        try:
            self.block(self.body(f), env)
        except Return as r:
            return r.value
        finally:
            self.loops, self.guards = saved
            if not top:
                self.depth -= 1
        raise Untranslatable(f"{f.name}: no return value")

    @staticmethod
    def body(f):
        b = list(f.body)
        if b and isinstance(b[0], ast.Expr) and isinstance(b[0].value, ast.Constant) and isinstance(b[0].value.value, str):
            b = b[1:]
        return b

    # ---------------------------------------------------------------- statements
    def block(self, stmts, env):
        for i, st in enumerate(stmts):
            if isinstance(st, ast.FunctionDef):
                self.opaque_tail(stmts[i:], env)
                return
            self.stmt(st, env)

    def opaque_tail(self, stmts, env):
        if self.depth == 0 or self.loops or self.guards:
            raise Untranslatable("nested function definition outside a helper's top level")
        def free_of(stmts_, bound):
            """names read from the enclosing scope by a statement list (nested functions: their free names)"""
            out, local = set(), set(bound)
            for st in stmts_:
                for n in ast.walk(st):
                    if isinstance(n, ast.Name) and isinstance(n.ctx, ast.Store):
                        local.add(n.id)
                    elif isinstance(n, ast.FunctionDef):
                        local.add(n.name)
                    elif isinstance(n, ast.ExceptHandler) and n.name:
                        local.add(n.name)

            def walk(n):
                if isinstance(n, ast.FunctionDef):
                    out.update(free_of(n.body, [x.arg for x in n.args.args]) - local)
                    return
                if isinstance(n, ast.Lambda):
                    raise Untranslatable("lambda in the opaque tail")
                if isinstance(n, ast.Name) and isinstance(n.ctx, ast.Load) and n.id not in local:
                    out.add(n.id)
                for c in ast.iter_child_nodes(n):
                    walk(c)
            for st in stmts_:
                walk(st)
            return out
        free = [n for n in sorted(free_of(stmts, [])) if n in env]
        if len(free) != 1 or not isinstance(env[free[0]], Sc) or env[free[0]].ty != R:
            raise Untranslatable("opaque resolution tail must read exactly one translated real local, reads: " + ", ".join(free))
        if not any(isinstance(n, ast.Return) for st in stmts for n in ast.walk(st)):
            raise Untranslatable("opaque tail without return")
        import hashlib
        seg = "\n".join(ast.get_source_segment(self.source, s) or "" for s in stmts)
        self.tail_regions.append(dict(file=self.clsname + ".py", region="opaque resolution contract O.res(%s)" % free[0],
                                      sha=hashlib.sha256(seg.encode()).hexdigest()[:16]))
        raise Return(Sc(f"(O.res {env[free[0]].term})", R))

    def stmt(self, st, env):
        if isinstance(st, ast.Return):
            if self.loops or self.guards:
                raise Untranslatable("return inside a loop / branch")
            if st.value is None:
                raise Untranslatable("bare return")
            raise Return(self.ev(st.value, env))
        if isinstance(st, ast.Assign):
            if len(st.targets) != 1:
                raise Untranslatable("chained assignment")
            self.assign(st.targets[0], self.ev(st.value, env), env)
            return
        if isinstance(st, ast.AugAssign):
            cur = self.ev(self.as_load(st.target), env)
            val = self.binop(st.op, cur, self.ev(st.value, env), at_top=True)
            self.assign(st.target, val, env)
            return
        if isinstance(st, ast.For):
            self.for_(st, env)
            return
        if isinstance(st, ast.If):
            self.if_(st, env)
            return
        if isinstance(st, ast.Expr):
            if isinstance(st.value, ast.Constant):
                return
            self.expr_stmt(st.value, env)
            return
        if isinstance(st, ast.Pass):
            return
        raise Untranslatable("statement " + type(st).__name__)

    @staticmethod
    def as_load(t):
        t2 = ast.parse(ast.unparse(t), mode="eval").body
        return t2

    def assign(self, target, val, env):
        if isinstance(target, ast.Name):
            env[target.id] = val
            return
        if isinstance(target, ast.Tuple):
            if not isinstance(val, Tup) or len(val.items) != len(target.elts):
                raise Untranslatable("tuple unpacking of a non-tuple")
            for t, v in zip(target.elts, val.items):
                self.assign(t, v, env)
            return
        if isinstance(target, ast.Subscript) and isinstance(target.value, ast.Name) and isinstance(target.slice, ast.Name):
            lst, idx = env.get(target.value.id), env.get(target.slice.id)
            if isinstance(lst, Lst) and isinstance(idx, Idx) and lst.key == idx.key and self.loops \
                    and self.loops[-1]["idx"] is idx:
                env[("sub", target.value.id)] = val
                self.loops[-1]["stores"].add(target.value.id)
                return
            raise Untranslatable("indexed store outside `for i in range(len(L)): L[i] = ...`")
        raise Untranslatable("assignment target " + ast.unparse(target))

    def expr_stmt(self, call, env):
        if isinstance(call, ast.Call) and isinstance(call.func, ast.Attribute) and isinstance(call.func.value, ast.Name) \
                and call.func.attr in ("append", "extend") and len(call.args) == 1 and not call.keywords:
            name = call.func.value.id
            arg = call.args[0]
            if call.func.attr == "extend":
                if not (isinstance(arg, ast.List) and len(arg.elts) == 1):
                    raise Untranslatable("extend of something that is not a one-element list literal")
                arg = arg.elts[0]
            if not self.loops:
                raise Untranslatable("append outside a loop")
            fr = self.loops[-1]
            if name not in fr["builders"]:
                raise Untranslatable(f"append to {name}, which is not an empty list created just outside the innermost loop")
            if name in fr["appends"]:
                raise Untranslatable(f"two appends to {name} in one iteration")
            fr["appends"][name] = (list(fr["guards"]), self.ev(arg, env))
            return
        if isinstance(call, ast.Call) and isinstance(call.func, ast.Attribute) and call.func.attr == "warn":
            return
        raise Untranslatable("expression statement " + ast.unparse(call)[:60])

    # ---------------------------------------------------------------- if
    def is_raise_only(self, st):
        return len(st.body) == 1 and isinstance(st.body[0], ast.Raise) and not st.orelse

    def dispatch_chain(self, st, env):
        """`if S == "a": v = ... elif S == "b": v = ...` on a string parameter -> (StrP, var, particle term) or None"""
        chain = pyexpr.if_chain(st)
        which, var, part = None, None, None
        for test, body in chain:
            if test is None:
                return None
            if not (isinstance(test, ast.Compare) and len(test.ops) == 1 and isinstance(test.ops[0], ast.Eq)
                    and isinstance(test.comparators[0], ast.Constant) and isinstance(test.comparators[0].value, str)):
                return None
            try:
                s = self.ev(test.left, env)
            except Untranslatable:
                return None
            if not isinstance(s, StrP) or (which is not None and which != s.which):
                return None
            which = s.which
            if not (len(body) == 1 and isinstance(body[0], ast.Assign) and len(body[0].targets) == 1
                    and isinstance(body[0].targets[0], ast.Name)):
                raise Untranslatable("dispatch branch is not a single assignment")
            if var is not None and var != body[0].targets[0].id:
                raise Untranslatable("dispatch branches assign different variables")
            var = body[0].targets[0].id
            ps = {n.id for n in ast.walk(body[0].value) if isinstance(n, ast.Name) and isinstance(env.get(n.id), PartV)}
            others = {n.id for n in ast.walk(body[0].value) if isinstance(n, ast.Name)} - ps - {"self", "np", "float"}
            if len(ps) != 1 or others:
                raise Untranslatable("dispatch branch does not read exactly one particle")
            p = env[next(iter(ps))].term
            if part is not None and part != p:
                raise Untranslatable("dispatch branches read different particles")
            part = p
        return which, var, part

    def if_(self, st, env):
        if self.is_raise_only(st):
            self.validation(st, env)
            return
        d = self.dispatch_chain(st, env)
        if d is not None:
            which, var, part = d
            cur = env.get(var)
            if not (isinstance(cur, Sc) and cur.ty == R and cur.term == nat(0)):
                raise Untranslatable(f"dispatch variable {var} is not initialised with 0.0")
            if which == "weight":
                env[var] = Sc(f"(wq {part})", R)
            else:
                env[var] = Sc(f"(chainVal site.chain 0 sel {part})", R)
            return
        # all-raise chains (`if not isinstance: raise elif ...: raise else: self.x_ = ...`) do not occur in the executed
        # methods; a general if: execute both branches, merge
        c = self.ev(st.test, env)
        if not (isinstance(c, Sc) and c.ty == B):
            raise Untranslatable("condition is not a translated boolean: " + ast.unparse(st.test)[:60])
        frames = self.loops[-1]["guards"] if self.loops else self.guards
        e1, e2 = dict(env), dict(env)
        frames.append(c.term)
        self.block(st.body, e1)
        frames.pop()
        frames.append(f"(!{c.term})")
        self.block(st.orelse, e2)
        frames.pop()
        for k in set(e1) | set(e2):
            a, b = e1.get(k), e2.get(k)
            if a is None or b is None:
                if k in env:
                    raise Untranslatable("variable disappears in a branch")
                continue    # branch-local
            if a is b:
                env[k] = a
            else:
                env[k] = self.merge(c.term, a, b)

    def merge(self, c, a, b):
        if isinstance(a, Bad) or isinstance(b, Bad):
            return Bad("merge of an untranslated value")
        if isinstance(a, Sc) and isinstance(b, Sc):
            if a.ty != b.ty:
                if {a.ty, b.ty} == {R, C}:
                    a, b = self.toC(a), self.toC(b)
                else:
                    return Bad("merge of different types")
            if a.term == b.term:
                return Sc(a.term, a.ty)
            return Sc(f"(if {c} then {a.term} else {b.term})", a.ty)
        if isinstance(a, (PsiV, AngleV)) and isinstance(b, (PsiV, AngleV)) and a.z == b.z:
            return a
        return Bad("merge of non-scalars")

    def validation(self, st, env):
        """`if <test>: raise X`"""
        t = st.test
        if isinstance(t, ast.Compare) and len(t.ops) == 1 and isinstance(t.ops[0], ast.NotIn):
            s = self.ev(t.left, env)
            if isinstance(s, StrP) and s.which == "sel" and isinstance(t.comparators[0], ast.List):
                exc = st.body[0].exc
                nm = exc.func.id if isinstance(exc, ast.Call) and isinstance(exc.func, ast.Name) else None
                if nm != "ValueError" or self.depth != 0 or self.loops:
                    raise Untranslatable("selector validation does not raise ValueError at the top of the public method")
                self.opt_guards.append("(!site.accepted.contains sel)")
                return
            raise Untranslatable("membership validation of something that is not the selector")
        # isinstance checks: `not isinstance(x, T)`
        tt = t.operand if isinstance(t, ast.UnaryOp) and isinstance(t.op, ast.Not) else None
        if tt is not None and isinstance(tt, ast.Call) and isinstance(tt.func, ast.Name) and tt.func.id == "isinstance":
            return
        raise Untranslatable("raise guarded by " + ast.unparse(t)[:60])

    # ---------------------------------------------------------------- loops
    def iter_space(self, it, target, env):
        """-> (key, base term, element var, idx value or None, bindings)"""
        if not isinstance(target, ast.Name):
            raise Untranslatable("loop target")
        if isinstance(it, ast.Call) and isinstance(it.func, ast.Name) and it.func.id == "range" and len(it.args) == 1:
            n = self.ev(it.args[0], env)
            if isinstance(n, LenV) and n.lst is not None:
                lst = n.lst
                x = self.fresh("x")
                idx = Idx(lst.key, x)
                return lst.key, lst.base, x, idx, {target.id: idx}
            if isinstance(n, LenV) and n.bins_minus is not None:
                return ("bins", n.bins_minus), None, self.fresh("b"), "bins", {}
            raise Untranslatable("range over " + ast.unparse(it.args[0])[:60])
        lst = self.ev(it, env)
        if isinstance(lst, Lst):
            x = self.fresh("x")
            return lst.key, lst.base, x, None, {target.id: vsubst(lst.elem, lst.var, x)}
        raise Untranslatable("iteration over " + ast.unparse(it)[:60])

    def for_(self, st, env):
        if st.orelse:
            raise Untranslatable("for-else")
        key, base, x, idx, bind = self.iter_space(st.iter, st.target, env)
        if idx == "bins":
            m = key[1]
            offs = set()
            for n in ast.walk(st):
                if isinstance(n, ast.Subscript) and isinstance(n.value, ast.Name) and isinstance(env.get(n.value.id), BinsV):
                    offs.add(self.bin_offset(n.slice, st.target.id))
            if offs:
                offs = sorted(offs)
                if len(offs) != 2:
                    raise Untranslatable("bin loop reads %d different edges per bin (2 expected)" % len(offs))
                if m < offs[1]:
                    raise Untranslatable("bin loop indexes past the last edge (IndexError by construction)")
                term = f"(((edges.drop {offs[0]}).zip (edges.drop {offs[1]})).take (edges.length - {m}))"
                if m in self.bin_terms and self.bin_terms[m][0] != term:
                    raise Untranslatable("two bin loops with different windows")
                self.bin_terms[m] = (term, offs)
            if m not in self.bin_terms:
                raise Untranslatable("bin loop before the binning loop")
            base = self.bin_terms[m][0]
            key = base
            idx = Idx(key, x)
            idx.bin_offs = self.bin_terms[m][1]
            bind = {st.target.id: idx}
        assigned, called = set(), set()
        for n in ast.walk(ast.Module(body=st.body, type_ignores=[])):
            if isinstance(n, ast.Name) and isinstance(n.ctx, ast.Store):
                assigned.add(n.id)
            if isinstance(n, ast.Call) and isinstance(n.func, ast.Attribute) and isinstance(n.func.value, ast.Name) \
                    and n.func.attr in ("append", "extend"):
                called.add(n.func.value.id)
        carried = sorted(n for n in assigned if isinstance(env.get(n), (Sc, Bad, PsiV, AngleV)))
        for n in assigned:
            if n in env and n not in carried and n != st.target.id:
                raise Untranslatable(f"loop re-assigns the non-scalar {n}")
        builders = {n for n in called if isinstance(env.get(n), Empty)}
        frame = dict(idx=idx, guards=[], appends={}, builders=builders, stores=set(), var=x)
        env2 = dict(env)
        ph = {}
        for n in carried:
            v = env[n]
            if isinstance(v, Sc):
                ph[n] = self.fresh("acc")
                env2[n] = Sc(ph[n], v.ty)
            else:
                env2[n] = Bad("carried untranslated value")
        env2.update(bind)
        self.loops.append(frame)
        try:
            self.block(st.body, env2)
        finally:
            self.loops.pop()
        # ---- lists built by append
        for name, (guards, val) in frame["appends"].items():
            for g in guards:
                if any(mentions(g, p) for p in ph.values()):
                    raise Untranslatable("append guarded by a loop-carried value")
            if any(mentions(t, p) for t in vterms(val) for p in ph.values()):
                raise Untranslatable("appended value depends on a loop-carried value")
            b = base
            if guards:
                b = f"({base}.filter (fun {x} => {' && '.join(guards)}))"
            env[name] = Lst(b, b, x, val)
        for name in builders - set(frame["appends"]):
            raise Untranslatable(f"list {name} is never filled")
        # ---- elementwise stores
        for name in frame["stores"]:
            val = env2[("sub", name)]
            if any(mentions(t, p) for t in vterms(val) for p in ph.values()):
                raise Untranslatable("stored value depends on a loop-carried value")
            old = env[name]
            env[name] = Lst(old.key, old.base, x, val)
        # ---- carried scalars
        new = {}
        for n in carried:
            v2 = env2[n]
            if isinstance(v2, Sc) and n in ph and isinstance(env[n], Sc):
                if v2.ty != env[n].ty:
                    if env[n].ty == R and v2.ty == C:
                        env[n] = self.toC(env[n])   # `x = 0.0` later accumulated with complex values
                        v2 = Sc(subst(v2.term, ph[n], ph[n]), C)
                    else:
                        new[n] = Bad("carried variable changes type")
                        continue
                new[n] = v2
            else:
                new[n] = Bad("carried untranslated value")
        good = [n for n in carried if isinstance(new[n], Sc)]
        # a good variable that reads a bad one is bad
        changed = True
        badph = set()
        while changed:
            changed = False
            for n in list(good):
                if any(isinstance(new[m], Bad) and m in ph and mentions(new[n].term, ph[m]) for m in carried):
                    new[n] = Bad("depends on an untranslated carried value")
                    good.remove(n)
                    changed = True
        for n in carried:
            if isinstance(new[n], Bad):
                env[n] = new[n]
        # dependency groups among the good ones
        parent = {n: n for n in good}

        def find(a):
            while parent[a] != a:
                a = parent[a]
            return a
        for n in good:
            for m in good:
                if m != n and mentions(new[n].term, ph[m]):
                    parent[find(n)] = find(m)
        groups = {}
        for n in good:
            groups.setdefault(find(n), []).append(n)
        for g in groups.values():
            g.sort()
            if len(g) == 1:
                n = g[0]
                env[n] = Sc(f"({base}.foldl (fun {ph[n]} {x} => {new[n].term}) {env[n].term})", new[n].ty)
            else:
                st_ = self.fresh("st")

                def proj(i, k):
                    return st_ + ".2" * i + (".1" if i < k - 1 else "")
                k = len(g)
                body_terms = []
                for n in g:
                    t = new[n].term
                    for i, m in enumerate(g):
                        t = subst(t, ph[m], "(" + proj(i, k) + ")")
                    body_terms.append(t)

                def tup(ts):
                    return ts[0] if len(ts) == 1 else f"({ts[0]}, {tup(ts[1:])})"
                fold = f"({base}.foldl (fun {st_} {x} => {tup(body_terms)}) {tup([env[n].term for n in g])})"
                for i, n in enumerate(g):
                    p = fold + ".2" * i + ("" if i == k - 1 else ".1")
                    env[n] = Sc(f"({p})", new[n].ty)

    def bin_offset(self, sl, var):
        if isinstance(sl, ast.Name) and sl.id == var:
            return 0
        if isinstance(sl, ast.BinOp) and isinstance(sl.op, ast.Add):
            for a, b in ((sl.left, sl.right), (sl.right, sl.left)):
                if isinstance(a, ast.Name) and a.id == var and isinstance(b, ast.Constant) and isinstance(b.value, int) \
                        and not isinstance(b.value, bool) and b.value >= 0:
                    return b.value
        raise Untranslatable("bin edge index " + ast.unparse(sl))

    # ---------------------------------------------------------------- expressions
    def toC(self, v):
        if v.ty == C:
            return v
        if v.ty == R:
            return Sc(f"(O.ofReal {v.term})", C)
        raise Untranslatable("boolean used as a number")

    def mat(self, lst):
        """Lean list term of a list of scalars"""
        if not isinstance(lst, Lst):
            raise Untranslatable("not a list")
        e = lst.elem
        if isinstance(e, Sc):
            return f"({lst.base}.map (fun {lst.var} => {e.term}))", e.ty
        raise Untranslatable("list of non-scalars materialised")

    def binop(self, op, a, b, at_top=False):
        if isinstance(a, Bad) or isinstance(b, Bad):
            return Bad("arithmetic on an untranslated value")
        # patterns on angles
        if isinstance(op, ast.Mult):
            for x, y in ((a, b), (b, a)):
                if isinstance(x, InvN) and isinstance(y, AngleV):
                    return PsiV(y.z)
        if isinstance(op, ast.Div) and isinstance(b, NatN) and isinstance(a, Sc) and a.term == nat(1):
            return InvN()
        if isinstance(op, ast.Div) and isinstance(a, AngleV) and isinstance(b, NatN):
            return PsiV(a.z)
        if isinstance(op, ast.Sub) and isinstance(a, (PhiV, PsiV)) and isinstance(b, (PhiV, PsiV)):
            return Tup([Sc("angle-difference", B), a, b])
        if isinstance(op, ast.Mult):
            for x, y in ((a, b), (b, a)):
                if isinstance(x, NatN) and isinstance(y, Tup) and len(y.items) == 3 and isinstance(y.items[0], Sc) \
                        and y.items[0].term == "angle-difference":
                    return Tup([Sc("n-angle-difference", B), y.items[1], y.items[2]])
        # exp argument: products of 1j, n, phi
        if isinstance(op, ast.Mult):
            fa = a.items if isinstance(a, Tup) and a.items and isinstance(a.items[0], Sc) and a.items[0].term == "exp-arg" else None
            fb = b.items if isinstance(b, Tup) and b.items and isinstance(b.items[0], Sc) and b.items[0].term == "exp-arg" else None
            la = fa[1:] if fa else ([a] if isinstance(a, (ImUnit, NatN, PhiV)) else None)
            lb = fb[1:] if fb else ([b] if isinstance(b, (ImUnit, NatN, PhiV)) else None)
            if la is not None and lb is not None:
                return Tup([Sc("exp-arg", B)] + la + lb)
        if any(isinstance(v, (PhiV, PsiV, AngleV, ImagV, ImUnit, NatN, InvN, Tup)) for v in (a, b)):
            return Bad("arithmetic on an angle / harmonic outside the recognised patterns")
        if isinstance(a, LenV) or isinstance(b, LenV):
            if isinstance(op, ast.Sub) and isinstance(a, LenV) and a.bins_minus is not None and isinstance(b, Sc) \
                    and getattr(b, "intval", None) is not None:
                return LenV(bins_minus=a.bins_minus + b.intval)
            if isinstance(op, ast.Div) and isinstance(b, LenV) and b.lst is not None and isinstance(a, Sc):
                b = Sc(f"(({b.lst.base}.length : Nat) : α)", R)
            else:
                raise Untranslatable("arithmetic on a length")
        if not (isinstance(a, Sc) and isinstance(b, Sc)) or B in (a.ty, b.ty):
            raise Untranslatable("arithmetic on non-scalars")
        sym = {ast.Add: "+", ast.Sub: "-", ast.Mult: "*", ast.Div: "/"}.get(type(op))
        if isinstance(op, ast.Pow):
            k = getattr(b, "intval", None)
            if a.ty == R and k is not None and k >= 0:
                return Sc(f"(npow {a.term} {k})", R)
            raise Untranslatable("power with a non-literal / non-natural exponent")
        if sym is None:
            raise Untranslatable("operator " + type(op).__name__)
        if isinstance(op, ast.Div) and at_top and self.depth == 0 and not self.loops and not self.guards and b.ty == R:
            self.opt_guards.append(f"(O.isZero {b.term})")
        if a.ty == C or b.ty == C:
            a, b = self.toC(a), self.toC(b)
            zc = f"(O.ofReal {nat(0)})"
            if isinstance(op, ast.Add) and a.term == zc and b.term == zc:
                return Sc(zc, C)        # `0.0 + 0.0j`
            a, b = self.comm(op, a, b)
            return Sc(f"({a.term} {sym} {b.term})", C)
        if isinstance(op, ast.Mult) and a.term == b.term:
            return Sc(f"(npow {a.term} 2)", R)      # `x * x` is `x ** 2` (also exactly so at Float: 1 * x * x)
        a, b = self.comm(op, a, b)
        return Sc(f"({a.term} {sym} {b.term})", R)

    @staticmethod
    def comm(op, a, b):
        """canonical operand order of the commutative operations (exact also at Float): an accumulator first,
        otherwise by the shape of the term (variable numbers ignored; ties keep the source order)"""
        if not isinstance(op, (ast.Add, ast.Mult)):
            return a, b
        isacc = lambda t: re.fullmatch(r"acc\d+", t.term) is not None
        if isacc(a):
            return a, b
        if isacc(b):
            return b, a
        ka, kb = re.sub(r"\d+", "", a.term), re.sub(r"\d+", "", b.term)
        return (b, a) if kb < ka else (a, b)

    def compare(self, node, env):
        if len(node.ops) != 1:
            raise Untranslatable("chained comparison")
        op = node.ops[0]
        a, b = self.ev(node.left, env), self.ev(node.comparators[0], env)
        if isinstance(a, Bad) or isinstance(b, Bad):
            raise Untranslatable("comparison of an untranslated value")
        if not (isinstance(a, Sc) and isinstance(b, Sc) and a.ty == R and b.ty == R):
            raise Untranslatable("comparison of non-real values: " + ast.unparse(node)[:60])
        if isinstance(op, (ast.Eq, ast.NotEq)):
            if b.term == nat(0):
                t = f"(O.isZero {a.term})"
            elif a.term == nat(0):
                t = f"(O.isZero {b.term})"
            else:
                raise Untranslatable("equality test against something that is not 0")
            return Sc(t if isinstance(op, ast.Eq) else f"(!{t})", B)
        if isinstance(op, ast.GtE):
            return Sc(f"(O.le {b.term} {a.term})", B)
        if isinstance(op, ast.LtE):
            return Sc(f"(O.le {a.term} {b.term})", B)
        if isinstance(op, ast.Lt):
            return Sc(f"(O.lt {a.term} {b.term})", B)
        if isinstance(op, ast.Gt):
            return Sc(f"(O.lt {b.term} {a.term})", B)
        raise Untranslatable("comparison " + type(op).__name__)

    def ev(self, node, env):
        if isinstance(node, ast.Constant):
            v = node.value
            if isinstance(v, complex):
                if v == 1j:
                    return ImUnit()
                if v == 0:
                    return Sc(f"(O.ofReal {nat(0)})", C)
                raise Untranslatable(f"complex literal {v!r}")
            if isinstance(v, bool) or not isinstance(v, (int, float)):
                raise Untranslatable(f"literal {v!r}")
            s = Sc(num(v), R)
            if float(v) == int(v):
                s.intval = int(v)
            return s
        if isinstance(node, ast.Name):
            if node.id not in env:
                raise Untranslatable(f"unknown name {node.id}")
            return env[node.id]
        if isinstance(node, ast.Attribute):
            if isinstance(node.value, ast.Name) and node.value.id == "self":
                if node.attr == "n_":
                    return NatN()
                if node.attr == "weight_" and self.two:
                    return StrP("weight")
                if node.attr == "pseudorapidity_gap_" and self.two:
                    return Sc("gap", R)
                raise Untranslatable("attribute self." + node.attr)
            v = self.ev(node.value, env)
            if isinstance(v, Bad):
                return v
            if node.attr == "real" and isinstance(v, Sc) and v.ty == C:
                return ReV(f"(O.re {v.term})", v.term)
            if node.attr == "imag" and isinstance(v, Sc) and v.ty == C:
                return ImagV(v.term)
            raise Untranslatable("attribute " + ast.unparse(node)[:60])
        if isinstance(node, ast.UnaryOp):
            v = self.ev(node.operand, env)
            if isinstance(v, Bad):
                return v
            if isinstance(node.op, ast.UAdd) and isinstance(v, Sc) and v.ty in (R, C):
                return v
            if isinstance(node.op, ast.USub) and isinstance(v, Sc) and v.ty == R:
                return Sc(f"(-{v.term})", R)
            if isinstance(node.op, ast.Not) and isinstance(v, Sc) and v.ty == B:
                return Sc(f"(!{v.term})", B)
            raise Untranslatable("unary " + ast.unparse(node)[:60])
        if isinstance(node, ast.BinOp):
            return self.binop(node.op, self.ev(node.left, env), self.ev(node.right, env))
        if isinstance(node, ast.Compare):
            return self.compare(node, env)
        if isinstance(node, ast.BoolOp):
            vs = [self.ev(x, env) for x in node.values]
            if not all(isinstance(v, Sc) and v.ty == B for v in vs):
                raise Untranslatable("boolean operator on non-booleans")
            sym = " && " if isinstance(node.op, ast.And) else " || "
            return Sc("(" + sym.join(v.term for v in vs) + ")", B)
        if isinstance(node, ast.IfExp):
            return self.ifexp(node, env)
        if isinstance(node, ast.Tuple):
            return Tup([self.ev(x, env) for x in node.elts])
        if isinstance(node, ast.List) and not node.elts:
            return Empty()
        if isinstance(node, ast.Subscript):
            return self.subscript(node, env)
        if isinstance(node, ast.ListComp):
            return self.listcomp(node, env)
        if isinstance(node, ast.Call):
            return self.callexpr(node, env)
        raise Untranslatable("expression " + ast.unparse(node)[:60])

    def ifexp(self, node, env):
        """`C if np.isnan(p.weight) else p.weight`"""
        t = node.test
        if isinstance(t, ast.Call) and ast.unparse(t.func) in ("np.isnan", "math.isnan") and len(t.args) == 1 \
                and isinstance(t.args[0], ast.Attribute) and t.args[0].attr == "weight" \
                and ast.dump(t.args[0]) == ast.dump(node.orelse):
            p = self.ev(t.args[0].value, env)
            c = self.ev(node.body, env)
            if isinstance(p, PartV) and isinstance(c, Sc) and c.ty == R:
                return Sc(f"({p.term}.w.getD {c.term})", R)
        raise Untranslatable("conditional expression " + ast.unparse(node)[:60])

    def subscript(self, node, env):
        v = self.ev(node.value, env)
        if isinstance(v, Bad):
            return v
        if isinstance(v, BinsV):
            # inside a bin loop
            for fr in reversed(self.loops):
                idx = fr["idx"]
                if isinstance(idx, Idx) and hasattr(idx, "bin_offs"):
                    names = [n for n, val in env.items() if val is idx]
                    for nm in names:
                        try:
                            off = self.bin_offset(node.slice, nm)
                        except Untranslatable:
                            continue
                        return Sc(f"{idx.var}.{1 + idx.bin_offs.index(off)}", R)
            raise Untranslatable("bins[...] outside a bin loop")
        if isinstance(node.slice, ast.Name):
            i = env.get(node.slice.id)
            if isinstance(v, Lst) and isinstance(i, Idx):
                if isinstance(node.value, ast.Name) and ("sub", node.value.id) in env and self.loops \
                        and self.loops[-1]["idx"] is i:
                    return env[("sub", node.value.id)]
                if v.key != i.key:
                    raise Untranslatable(f"{ast.unparse(node)}: the index ranges over a different list")
                return vsubst(v.elem, v.var, i.var)
        raise Untranslatable("subscript " + ast.unparse(node)[:60])

    def listcomp(self, node, env):
        if len(node.generators) != 1 or node.generators[0].ifs or node.generators[0].is_async:
            raise Untranslatable("comprehension shape")
        g = node.generators[0]
        key, base, x, idx, bind = self.iter_space(g.iter, g.target, env)
        if idx == "bins":
            raise Untranslatable("comprehension over bins")
        env2 = dict(env)
        env2.update(bind)
        fr = dict(idx=idx, guards=[], appends={}, builders=set(), stores=set(), var=x)
        self.loops.append(fr)
        try:
            e = self.ev(node.elt, env2)
        finally:
            self.loops.pop()
        return Lst(key, base, x, e)

    def callexpr(self, node, env):
        fn = ast.unparse(node.func)
        args = node.args
        if node.keywords:
            raise Untranslatable("keyword arguments in " + fn)
        if isinstance(node.func, ast.Attribute) and isinstance(node.func.value, ast.Name) and node.func.value.id == "self":
            f = self.methods.get(node.func.attr)
            if f is None:
                raise Untranslatable("unknown method " + fn)
            return self.call(f, [self.ev(a, env) for a in args])
        if fn == "len" and len(args) == 1:
            v = self.ev(args[0], env)
            if isinstance(v, Lst):
                return LenV(lst=v)
            if isinstance(v, BinsV):
                return LenV(bins_minus=0)
            raise Untranslatable("len of " + ast.unparse(args[0])[:40])
        if fn == "float" and len(args) == 1:
            v = self.ev(args[0], env)
            if isinstance(v, NatN):
                return v
            raise Untranslatable("float(...)")
        if isinstance(node.func, ast.Attribute) and not args and node.func.attr in ("pT_abs", "rapidity", "pseudorapidity", "phi"):
            p = self.ev(node.func.value, env)
            if not isinstance(p, PartV):
                raise Untranslatable(fn + " on a non-particle")
            if node.func.attr == "phi":
                return PhiV(p.term)
            return Sc(f"{p.term}." + {"pT_abs": "pt", "rapidity": "y", "pseudorapidity": "eta"}[node.func.attr], R)
        if fn in ("np.exp",) and len(args) == 1:
            a = self.ev(args[0], env)
            if isinstance(a, Tup) and a.items and isinstance(a.items[0], Sc) and a.items[0].term == "exp-arg":
                fs = a.items[1:]
                if len(fs) == 3 and sorted(type(f).__name__ for f in fs) == ["ImUnit", "NatN", "PhiV"]:
                    p = [f for f in fs if isinstance(f, PhiV)][0].p
                    return Sc(f"{p}.u", C)
            return Bad("np.exp of something that is not 1j * n * phi")
        vals = [self.ev(a, env) for a in args]
        if any(isinstance(v, Bad) for v in vals):
            return Bad("call on an untranslated value")
        if fn in ("np.conjugate", "np.conj") and len(vals) == 1 and isinstance(vals[0], Sc) and vals[0].ty == C:
            return Sc(f"(O.conj {vals[0].term})", C)
        if fn in ("np.abs", "abs", "np.absolute", "np.fabs") and len(vals) == 1 and isinstance(vals[0], Sc) and vals[0].ty == R:
            return Sc(f"(O.abs {vals[0].term})", R)
        if fn in ("np.sqrt", "math.sqrt") and len(vals) == 1 and isinstance(vals[0], Sc) and vals[0].ty == R:
            return Sc(f"(O.sqrt {vals[0].term})", R)
        if fn in ("np.asarray", "np.array") and len(vals) == 1 and isinstance(vals[0], Lst):
            return vals[0]
        if fn == "np.square" and len(vals) == 1 and isinstance(vals[0], Lst) and isinstance(vals[0].elem, Sc) \
                and vals[0].elem.ty == R:
            l = vals[0]
            return Lst(l.key, l.base, l.var, Sc(f"(npow {l.elem.term} 2)", R))
        if fn in ("np.sum", "sum") and len(vals) == 1 and isinstance(vals[0], Lst):
            t, ty = self.mat(vals[0])
            if ty != R:
                raise Untranslatable("sum of non-real list")
            return Sc(f"(sumL {t})", R)
        if fn == "np.mean" and len(vals) == 1 and isinstance(vals[0], Lst):
            t, ty = self.mat(vals[0])
            if ty != R:
                raise Untranslatable("mean of non-real list")
            return Sc(f"(sumL {t} / (({vals[0].base}.length : Nat) : α))", R)
        if fn == "np.arctan2" and len(vals) == 2 and isinstance(vals[0], ImagV) and isinstance(vals[1], ReV) \
                and vals[0].z == vals[1].z:
            return AngleV(vals[0].z)
        if fn == "np.cos" and len(vals) == 1:
            a = vals[0]
            if isinstance(a, Tup) and len(a.items) == 3 and isinstance(a.items[0], Sc) and a.items[0].term == "n-angle-difference":
                def d(v):
                    return f"{v.p}.u" if isinstance(v, PhiV) else f"(dir O {v.z})"
                return Sc(f"(O.re ((O.conj {d(a.items[1])}) * {d(a.items[2])}))", R)
            return Bad("cos of something that is not n * (angle - angle)")
        raise Untranslatable("call " + fn)


# ------------------------------------------------------------------ rendering
HEADER = """-- GENERATED by harness/translate/flowcore.py from src/sparkx/flow/{ReactionPlaneFlow,ScalarProductFlow,EventPlaneFlow}.py -- do not edit
import SparkxVerif.Core.Flow

namespace SparkxVerif.Gen.FlowCore
open SparkxVerif SparkxVerif.Flow SparkxVerif.FlowSel

variable {α κ : Type} [Add α] [Sub α] [Mul α] [Div α] [Neg α] [NatCast α]
  [Add κ] [Sub κ] [Mul κ] [Div κ]
"""


def sample1():
    return Lst("evs", "evs", "e0", Lst("e0", "e0", "p0", PartV("p0")))


def sample2(field):
    return Lst("evs", "evs", "e0", Lst(f"e0.{field}", f"e0.{field}", "p0", PartV("p0")))


def wrap_opt(ex, term):
    if not ex.opt_guards:
        return None
    return f"if {' || '.join(ex.opt_guards)} then none else some {term}"


def scal(v, ty, what):
    if isinstance(v, Bad):
        raise Untranslatable(f"{what}: {v.why}")
    if not isinstance(v, Sc) or v.ty != ty:
        raise Untranslatable(f"{what}: unexpected kind of result")
    return v.term


def pair_list(v, what, n_items):
    """list of tuples -> Lean list of the first two components"""
    if not isinstance(v, Lst):
        raise Untranslatable(f"{what}: result is not a list")
    e = v.elem
    if not (isinstance(e, Tup) and len(e.items) == n_items):
        raise Untranslatable(f"{what}: result elements are not {n_items}-tuples")
    a, b = scal(e.items[0], R, what + " value"), scal(e.items[1], R, what + " error")
    return f"({v.base}.map (fun {v.var} => ({a}, {b})))"


def render_rp(src):
    out = []
    ex = Exec(src, "ReactionPlaneFlow", False)
    r = ex.run("integrated_flow", dict(particle_data=sample1()))
    t = scal(r, C, "ReactionPlaneFlow.integrated_flow")
    w = wrap_opt(ex, t)
    if w is None:
        raise Untranslatable("ReactionPlaneFlow.integrated_flow: no division by the particle count at the top level")
    out.append(("/-- `ReactionPlaneFlow.integrated_flow`; `none` = division by a zero particle count -/",
                "def rpIntegrated (O : Ops α κ) (evs : List (List (Part α κ))) : Option κ :=\n  " + w))
    r = ex.run("differential_flow", dict(particle_data=sample1(), bins=BinsV(), flow_as_function_of=StrP("sel")))
    if not (isinstance(r, Lst) and isinstance(r.elem, Sc) and r.elem.ty == C):
        raise Untranslatable("ReactionPlaneFlow.differential_flow: result is not a list of complex numbers")
    t = f"({r.base}.map (fun {r.var} => {r.elem.term}))"
    w = wrap_opt(ex, t)
    if w is None or "O.isZero" in " ".join(ex.opt_guards):
        raise Untranslatable("ReactionPlaneFlow.differential_flow: selector validation not found / unguarded division")
    out.append(("/-- `ReactionPlaneFlow.differential_flow`; `none` = selector rejected (`ValueError`) -/",
                "def rpDifferential (O : Ops α κ) (site : Site) (sel : String) (edges : List α)\n"
                "    (evs : List (List (Part α κ))) : Option (List κ) :=\n  " + w))
    return out, ex


def render_two(src, cls, pre, ntuple):
    out = []
    ex = Exec(src, cls, True)
    sc = Sc("selfCorr", B)
    # reference: whatever integrated_flow computes first from the reference sample is found by running it
    r = ex.run("integrated_flow", dict(particle_data=sample2("flow"), particle_data_event_plane=sample2("ref"), self_corr=sc))
    if ex.opt_guards:
        raise Untranslatable(cls + ".integrated_flow: unexpected partiality")
    if not (isinstance(r, Tup) and len(r.items) == ntuple):
        raise Untranslatable(cls + f".integrated_flow: result is not a {ntuple}-tuple")
    a, b = scal(r.items[0], R, cls + ".integrated_flow value"), scal(r.items[1], R, cls + ".integrated_flow error")
    out.append((f"/-- `{cls}.integrated_flow` -> (`vn`, `sigma`) -/",
                f"def {pre}Integrated (O : Ops α κ) (wq : Part α κ → α) (gap : α) (selfCorr : Bool)\n"
                f"    (evs : List (Ev α κ)) : α × α :=\n  ({a}, {b})"))
    r = ex.run("differential_flow", dict(particle_data=sample2("flow"), bins=BinsV(), flow_as_function_of=StrP("sel"),
                                         particle_data_event_plane=sample2("ref"), self_corr=sc))
    t = pair_list(r, cls + ".differential_flow", ntuple)
    w = wrap_opt(ex, t)
    if w is None or "O.isZero" in " ".join(ex.opt_guards):
        raise Untranslatable(cls + ".differential_flow: selector validation not found / unguarded division")
    out.append((f"/-- `{cls}.differential_flow` -> (`vn`, `sigma`) per bin; `none` = selector rejected -/",
                f"def {pre}Differential (O : Ops α κ) (wq : Part α κ → α) (gap : α) (selfCorr : Bool) (site : Site)\n"
                f"    (sel : String) (edges : List α) (evs : List (Ev α κ)) : Option (List (α × α)) :=\n  " + w))
    return out, ex


def resolution_def(ex, cls, pre):
    """the first component of the helper that both public methods call on the reference sample alone"""
    cands = []
    for name, f in ex.methods.items():
        params = [x.arg for x in f.args.args][1:]
        if len(params) == 1 and name not in ("integrated_flow", "differential_flow", "__init__") \
                and any(isinstance(n, ast.Return) and isinstance(n.value, ast.Tuple) and len(n.value.elts) == 2
                        for n in ast.walk(f)):
            cands.append(f)
    for f in cands:
        try:
            ex.depth = 0
            ex.loops, ex.guards, ex.opt_guards = [], [], []
            ex.depth = 0
            r = ex.call(f, [sample2("ref")])
        except Untranslatable:
            continue
        if isinstance(r, Tup) and len(r.items) == 2 and isinstance(r.items[0], Sc) and r.items[0].ty == R \
                and isinstance(r.items[1], Lst):
            return r.items[0].term
    return None


def canon(text):
    """bound variables renumbered in order of first occurrence (the text does not depend on how many temporaries the
    executor went through)"""
    seen = {}

    def r(m):
        k = m.group(0)
        if k not in seen:
            pre = m.group(1)
            seen[k] = pre + str(1 + sum(1 for v in seen.values() if re.fullmatch(pre + r"\d+", v)))
        return seen[k]
    return re.sub(r"(?<![\w.])(x|acc|st|b)\d+(?![\w])", r, text)


def render(read_src):
    """-> (lean text, regions)"""
    defs, regions = [], []
    src = read_src("flow/ReactionPlaneFlow.py")
    d, ex = render_rp(src)
    defs += [("/-! ### ReactionPlaneFlow -/", None)] + d
    regions += [dict(file="flow/ReactionPlaneFlow.py", region=f.name, sha=pyexpr.src_hash(src, f)) for f in ex.used]
    for fname, cls, pre, nt in (("flow/ScalarProductFlow.py", "ScalarProductFlow", "sp", 2),
                                ("flow/EventPlaneFlow.py", "EventPlaneFlow", "ep", 4)):
        src = read_src(fname)
        d, ex = render_two(src, cls, pre, nt)
        res = resolution_def(ex, cls, pre)
        defs.append((f"/-! ### {cls} -/", None))
        if res is None or (pre == "ep" and not re.fullmatch(r"\(O\.res (.*)\)", res, re.S)):
            raise Untranslatable(cls + ": no helper that computes (resolution, Q-vectors) from the reference sample alone")
        if res is not None:
            if pre == "sp":
                defs.append(("/-- the resolution (first component of the reference helper) -/",
                             "def spResolution (O : Ops α κ) (wq : Part α κ → α) (gap : α) (evs : List (Ev α κ)) : α :=\n  " + res))
            else:
                m = re.fullmatch(r"\(O\.res (.*)\)", res, re.S)
                if m:
                    defs.append(("/-- `Rn`, the argument of the opaque resolution correction -/",
                                 "def epRn (O : Ops α κ) (wq : Part α κ → α) (gap : α) (evs : List (Ev α κ)) : α :=\n  " + m.group(1)))
        defs += d
        regions += [dict(file=fname, region=f.name, sha=pyexpr.src_hash(src, f)) for f in ex.used]
        for t in ex.tail_regions:
            t = dict(t)
            t["file"] = fname
            if t not in regions:
                regions.append(t)
    L = [HEADER]
    for doc, text in defs:
        L.append(doc)
        if text is not None:
            L.append(canon(text))
        L.append("")
    L.append("end SparkxVerif.Gen.FlowCore")
    return "\n".join(L) + "\n", regions
