"""Tie T for the line loops of the readers: `OscarLoader.set_particle_list`, `JetscapeLoader.set_particle_list`
(loop body, start state, final check) and `OscarLoader.set_num_events`  ->  lean/SparkxVerif/Gen/ReaderLoop.lean.

What is regenerated from the CURRENT source (stdlib `ast`, typed symbolic execution in continuation-passing style):

  set_particle_list   the line loop.  Checked syntactically: `for i in range(0, <n>): line = <file>.readline()` followed
                      by `if not line: raise <E>` (-> gen<L>Eof, the loop skeleton is `RdLoop.lineLoop`).  Everything
                      after that test is executed symbolically on the observation record `LineF` of one line and the
                      loop state (`particle_list`, `data`, `num_output_per_event_`, `cut_events`):
                        "<pat>" in line / not in line           -> the field of `LineF` for that pattern
                        i == 0                                   -> `first`
                        line.replace("\\n","")[.replace("\\t"," ")].split(" ")   -> `l.toks` / `l.toksTab`
                        Particle(fmt, tokens[, attrs]) / Particle("JETSCAPE", tokens) -> `mkPart` / `mkPartJ` (abstract view)
                        "filters" in self.optional_arguments_.keys()     -> `match filt with | some f | none`
                        self.__apply_kwargs_filters([data], kwargs["filters"])[0] -> `f data` (abstract event filter)
                        rows[len(pl)] = (a, b), np.atleast_2d(np.delete(rows, len(pl), axis=0)), rows.shape[0],
                        np.array([]), rows[len(pl):, 0] -= 1     -> npSetRow, npDelete2d, npShape0, Counts.empty, npDecLabelsFrom
                        int(tokens[c])                           -> `pyTokInt` (IndexError / ValueError)
                        raise ValueError/TypeError/IndexError, continue, append, len, comparisons, and/or/not
                      -> gen<L>Step (and one definition gen<L>Close<k> per `finish the event` block in tail position),
                         gen<L>Loop := lineLoop gen<L>Eof gen<L>Step
  set_particle_list   the values the state variables have when the loop starts                 -> gen<L>Init
  set_particle_list   the statements after the loop (`num_events_ -= cut_events`, the event-count check, `[] -> [[]]`),
                      one run per selector form                                                 -> gen<L>Finish
  set_num_events      the test on the last line and `int(last_line[2]) + 1`                    -> genOscarNumEventsLine

  set_num_output_per_event_and_event_footers (Oscar2013 / Oscar2013Extended / ASCII branch), set_num_output_per_event
                      `while True: line = f.readline(); if not line: break` checked syntactically (`RdLoop.scanLoop`), the rest
                      of the body executed symbolically (tokens[i] -> pyTok, int(tokens[i]) -> pyTokInt, rows
                      `[label, count]` -> cells as stored, `event_end_lines_.append(line)`), the final
                      `np.array(event_output, dtype=np.int32[, ndmin=2])` -> npIntRows     -> Gen/ReaderScan.lean (render_scan):
                                                                                               gen<L>ScanStep, gen<L>Scan

Not translated (hand mirror / other translators): `Particle` itself and the constructor filters (abstract parameters of
the model), the bookkeeping of `event_index` / `loaded_event_indices_` (ghost variables here; C02/C06), the statements that
compute `first_event_header` (parameter `firstHeader`; translate/readersel.py), the prelude before the loop
(translate/readersel.py), the Oscar2013Extended_IC / _Photons branches of the scanner (outside the model) and
`set_oscar_format` (translate/tables.py has the format chain).  Anything outside the fragment raises `Untranslatable` (-> golden model, tie = correspondence only).
"""
import ast
import hashlib

from translate.pyexpr import Untranslatable

SRC_OSCAR = "loader/OscarLoader.py"
SRC_JETSCAPE = "loader/JetscapeLoader.py"
ROWS_ATTR = "num_output_per_event_"
NEV_ATTR = "num_events_"
OPTS_ATTR = "optional_arguments_"
IDX_ATTR = "loaded_event_indices_"
ERR_KINDS = {"ValueError": "value", "TypeError": "type", "IndexError": "index"}

PATTERNS = {"#": "hasHash", "event": "hasEvent", "out": "hasOut", " out ": "hasOutSp", "in ": "hasInSp", " in ": "hasSpIn",
            " start": "hasStart", "end": "hasEnd", " end ": "hasEndSp", "sigmaGen": "hasSigma", "weight": "hasWeight",
            "Event": "hasEventCap", "N_hadrons": "hasNHadrons", "N_partons": "hasNPartons"}
FMT_NAMES = {"ASCII": "Fmt.ascii", "Oscar2013": "Fmt.oscar2013", "Oscar2013Extended": "Fmt.extended",
             "Oscar2013Extended_IC": "Fmt.extendedIC", "Oscar2013Extended_Photons": "Fmt.extendedPhotons"}


def _sha(text):
    return hashlib.sha256(text.encode()).hexdigest()[:16]


def _seg(src, node):
    return ast.get_source_segment(src, node) or ""


def num(n):
    return f"({n} : Int)" if n >= 0 else f"(-{-n} : Int)"


class V:
    """symbolic value: kind + Lean term (+ extra)"""

    def __init__(self, kind, lean=None, **kw):
        self.kind = kind
        self.lean = lean
        self.__dict__.update(kw)

    def __repr__(self):
        return f"V({self.kind}, {self.lean})"


class _Val(Exception):
    pass


# ----------------------------------------------------------------------------- trees
def render(t, ind):
    """multi-line Lean term; `ind` = current indentation (spaces)"""
    k = t[0]
    pad = " " * ind
    if k == "ok":
        return f".ok {t[1]}"
    if k == "err":
        return f".error .{t[1]}"
    if k == "if":
        return (f"if {t[1]} then\n{pad}  {render(t[2], ind + 2)}\n{pad}else\n{pad}  {render(t[3], ind + 2)}")
    if k == "bind":
        return f"eBind ({t[1]}) (fun {t[2]} =>\n{pad}  {render(t[3], ind + 2)})"
    if k == "matchfilt":
        return (f"match filt with\n{pad}| some f =>\n{pad}  {render(t[1], ind + 2)}\n{pad}| none =>\n{pad}  {render(t[2], ind + 2)}")
    if k == "call":
        return t[1]
    raise Untranslatable(f"internal: tree node {k}")


def size(t):
    k = t[0]
    if k in ("ok", "err", "call"):
        return 1
    if k == "if":
        return 1 + size(t[2]) + size(t[3])
    if k == "bind":
        return 1 + size(t[3])
    if k == "matchfilt":
        return 1 + size(t[1]) + size(t[2])
    return 1


STATE = ("plist", "data", "counts", "cut")


class Exec:
    """symbolic executor of the loop body / the statements after the loop"""

    def __init__(self, what, roles, mode=None, jetscape=False):
        self.what = what
        self.roles = roles            # python names: plist, data, cut, loopvar, label, header (optional)
        self.mode = mode              # selector form for the statements after the loop
        self.jetscape = jetscape
        self.fresh = {}
        self.blocks = []              # cut-out definitions: (name, tree)
        self.nbinds = 0
        self.alias_end = False
        self.state_fn = None          # scanners: their own state record
        self.assume_fmts = None       # scanners: the formats the shared model admits
        self.block_prefix = None
        self.base_env = None
        self.line_name = None

    def fail(self, msg, node=None):
        ln = f" (line {node.lineno})" if node is not None and hasattr(node, "lineno") else ""
        raise Untranslatable(f"{self.what}: {msg}{ln}")

    def new(self, p):
        """fresh variable of a step that can raise (every `bind` node gets one)"""
        self.nbinds += 1
        self.fresh[p] = self.fresh.get(p, 0) + 1
        return f"{p}{self.fresh[p]}"

    # ------------------------------------------------------------------ state
    def state_term(self, env):
        if self.state_fn is not None:
            return self.state_fn(env)
        vals = {}
        for r in STATE:
            key = "self." + ROWS_ATTR if r == "counts" else self.roles[r]
            v = env.get(key)
            want = {"plist": "plist", "data": "data", "counts": "counts", "cut": "int"}[r]
            if v is None or v.kind != want:
                self.fail(f"state variable `{key}` does not hold a {want} value at the end of the iteration")
            vals[r] = v.lean
        if env.get("$alias") is not None:
            self.alias_end = True         # `data` is still the very list object stored in particle_list
        if all(vals[r] == f"st.{r}" for r in STATE):
            return "st"
        return "{ plist := %s, data := %s, counts := %s, cut := %s }" % (vals["plist"], vals["data"], vals["counts"], vals["cut"])

    # ------------------------------------------------------------------ expressions (CPS)
    def ev(self, e, env, k):
        if isinstance(e, ast.Constant):
            if isinstance(e.value, bool):
                return k(V("bool", "true" if e.value else "false"))
            if e.value is None:
                return k(V("none"))
            if isinstance(e.value, int):
                return k(V("int", num(e.value)))
            if isinstance(e.value, str):
                return k(V("str", s=e.value))
            self.fail(f"literal {e.value!r}", e)
        if isinstance(e, ast.Name):
            if e.id not in env:
                self.fail(f"unknown name `{e.id}`", e)
            return k(env[e.id])
        if isinstance(e, ast.Attribute):
            if isinstance(e.value, ast.Name) and e.value.id == "self":
                key = "self." + e.attr
                if key not in env:
                    self.fail(f"attribute {key} is not modelled", e)
                return k(env[key])
            if e.attr == "shape":
                return self.ev(e.value, env, lambda v: k(V("shape", v.lean)) if v.kind == "counts" else self.fail("shape of a non-array", e))
            self.fail(f"attribute {ast.unparse(e)[:50]}", e)
        if isinstance(e, ast.Tuple):
            return self.ev_list(e.elts, env, lambda vs: k(V("tuple", items=vs)))
        if isinstance(e, ast.List):
            if not e.elts:
                return k(V("emptylist", "[]"))
            if len(e.elts) == 1:
                return self.ev(e.elts[0], env, lambda v: k(V("list1", item=v)))
            return self.ev_list(e.elts, env, lambda vs: k(V("listlit", items=vs)))
        if isinstance(e, ast.BinOp):
            ops = {ast.Add: "+", ast.Sub: "-", ast.Mult: "*"}
            if type(e.op) not in ops:
                self.fail(f"operator {type(e.op).__name__}", e)
            o = ops[type(e.op)]
            return self.ev(e.left, env, lambda l: self.ev(e.right, env, lambda r: k(
                V("int", f"({self.as_int(l, e)} {o} {self.as_int(r, e)})"))))
        if isinstance(e, ast.Subscript):
            return self.ev(e.value, env, lambda v: self.subscript(v, e, env, k))
        if isinstance(e, ast.Call):
            return self.call(e, env, k)
        if isinstance(e, (ast.BoolOp, ast.Compare, ast.UnaryOp)):
            c = self.cond(e, env)
            if c[0] == "d":
                return k(V("bool", c[1]))
            if c[0] == "s" and c[1] is not None:
                return k(V("bool", "true" if c[1] else "false"))
            self.fail(f"boolean expression `{ast.unparse(e)[:60]}` as a value", e)
        self.fail(f"expression {type(e).__name__}: {ast.unparse(e)[:60]}", e)

    def ev_list(self, es, env, k, acc=None):
        acc = acc or []
        if not es:
            return k(acc)
        return self.ev(es[0], env, lambda v: self.ev_list(es[1:], env, k, acc + [v]))

    def as_int(self, v, node):
        if v.kind == "int":
            return v.lean
        self.fail(f"an integer is needed, got {v.kind}", node)

    def pure(self, e, env):
        """value of an expression that raises nothing"""
        n0 = self.nbinds

        def k(v):
            raise _Val(v)
        try:
            self.ev(e, env, k)
        except _Val as r:
            if self.nbinds != n0:
                self.fail(f"`{ast.unparse(e)[:60]}` can raise where a plain value is needed", e)
            return r.args[0]
        self.fail(f"`{ast.unparse(e)[:60]}`: no value", e)

    def const_index(self, s):
        if isinstance(s, ast.Constant) and isinstance(s.value, int) and not isinstance(s.value, bool):
            return s.value
        return None

    def len_nat(self, s, env):
        """`len(<list>)` used as an index -> Nat term"""
        if isinstance(s, ast.Call) and isinstance(s.func, ast.Name) and s.func.id == "len" and len(s.args) == 1:
            v = self.pure(s.args[0], env)
            if v.kind in ("plist", "data"):
                return f"{v.lean}.length"
        self.fail(f"row index `{ast.unparse(s)[:40]}` is not len(<list>)", s)

    def subscript(self, v, e, env, k):
        s = e.slice
        if v.kind in ("opts", "kwargs"):
            if isinstance(s, ast.Constant) and s.value == "filters":
                if env.get("$filt") is None:
                    self.fail("kwargs['filters'] is read where `filters` is not known to be given", e)
                return k(V("filtdict"))
            if isinstance(s, ast.Constant) and s.value == "events":
                if self.mode == "one":
                    return k(V("int", "k"))
                if self.mode == "range":
                    return k(V("tuple", items=[V("int", "a"), V("int", "b")]))
            self.fail(f"option {ast.unparse(s)}", e)
        if v.kind == "tuple":
            c = self.const_index(s)
            if c is None or not -len(v.items) <= c < len(v.items):
                self.fail("tuple index", e)
            return k(v.items[c])
        if v.kind == "shape":
            if self.const_index(s) != 0:
                self.fail("shape[c] with c != 0", e)
            return k(V("int", f"npShape0 {v.lean}"))
        if v.kind == "toks":
            c = self.const_index(s)
            if c is None or c < 0:
                self.fail("token index", e)
            return k(V("tok", toks=v.lean, idx=c))
        if v.kind == "filtres":
            if self.const_index(s) != 0:
                self.fail("filter result index", e)
            d = self.new("d")
            return ("bind", f"f {v.lean}", d, k(V("data", d)))
        self.fail(f"subscript of {v.kind}", e)

    def call(self, e, env, k):
        f = e.func
        if isinstance(f, ast.Name) and f.id == "int" and len(e.args) == 1 and not e.keywords:
            def after(v):
                if v.kind == "int":
                    return k(v)
                if v.kind == "tok":
                    x = self.new("e")
                    return ("bind", f"pyTokInt {v.toks} {v.idx}", x, k(V("int", x)))
                if v.kind == "strv":
                    x = self.new("e")
                    return ("bind", f"pyIntStr {v.lean}", x, k(V("int", x)))
                self.fail(f"int() of {v.kind}", e)
            return self.ev(e.args[0], env, after)
        if isinstance(f, ast.Name) and f.id == "len" and len(e.args) == 1 and not e.keywords:
            v = self.pure(e.args[0], env)
            if v.kind in ("plist", "data"):
                return k(V("int", f"lenI {v.lean}"))
            if v.kind == "counts":
                return k(V("int", f"npShape0 {v.lean}"))
            self.fail(f"len of {v.kind}", e)
        if isinstance(f, ast.Name) and f.id == "Particle" and not e.keywords and 2 <= len(e.args) <= 3:
            return self.ev_list(e.args, env, lambda vs: self.particle(vs, e, k))
        if isinstance(f, ast.Attribute) and isinstance(f.value, ast.Name) and f.value.id in ("np", "numpy"):
            if f.attr == "asarray" and len(e.args) == 1 and not e.keywords:
                return self.ev(e.args[0], env, lambda v: k(v) if v.kind == "toks" else self.fail("np.asarray of a non-token list", e))
            if f.attr == "array" and len(e.args) == 1 and not e.keywords and isinstance(e.args[0], ast.List) and not e.args[0].elts:
                return k(V("counts", "Counts.empty"))
            if f.attr == "atleast_2d" and len(e.args) == 1 and not e.keywords:
                d = e.args[0]
                if isinstance(d, ast.Call) and isinstance(d.func, ast.Attribute) and isinstance(d.func.value, ast.Name) \
                        and d.func.value.id in ("np", "numpy") and d.func.attr == "delete" and len(d.args) == 2 \
                        and len(d.keywords) == 1 and d.keywords[0].arg == "axis" and self.const_index(d.keywords[0].value) == 0:
                    arr = self.pure(d.args[0], env)
                    if arr.kind != "counts":
                        self.fail("np.delete of something that is not the counts array", e)
                    idx = self.len_nat(d.args[1], env)
                    c = self.new("c")
                    return ("bind", f"npDelete2d {arr.lean} {idx}", c, k(V("counts", c)))
            self.fail(f"numpy call {ast.unparse(e)[:60]}", e)
        if isinstance(f, ast.Attribute) and isinstance(f.value, ast.Name) and f.value.id == "self":
            if f.attr.endswith("__apply_kwargs_filters") and len(e.args) == 2 and not e.keywords:
                a0 = self.pure(e.args[0], env)
                a1 = self.pure(e.args[1], env)
                if a0.kind == "list1" and a0.item.kind == "data" and a1.kind == "filtdict":
                    return k(V("filtres", a0.item.lean))
                self.fail("__apply_kwargs_filters is not called as ([data], kwargs['filters'])", e)
            self.fail(f"call of method self.{f.attr}", e)
        if isinstance(f, ast.Attribute) and f.attr == "keys" and not e.args:
            v = self.pure(f.value, env)
            if v.kind in ("opts", "kwargs"):
                return k(V("keys"))
        if isinstance(f, ast.Attribute) and f.attr in ("replace", "split"):
            def after(v):
                if v.kind != "line":
                    self.fail(f".{f.attr} of {v.kind}", e)
                args = [a.value if isinstance(a, ast.Constant) and isinstance(a.value, str) else None for a in e.args]
                if None in args or e.keywords:
                    self.fail("string method arguments", e)
                if f.attr == "replace" and len(args) == 2:
                    return k(V("line", ops=v.ops + ((args[0], args[1]),)))
                if f.attr == "split" and args == [" "]:
                    if v.ops == (("\n", ""),):
                        return k(V("toks", "l.toks"))
                    if v.ops == (("\n", ""), ("\t", " ")):
                        return k(V("toks", "l.toksTab"))
                self.fail("the token list is not one of the two observations of LineF (toks, toksTab)", e)
            return self.ev(f.value, env, after)
        self.fail(f"call {ast.unparse(e)[:60]}", e)

    def particle(self, vs, e, k):
        p = self.new("p")
        if vs[1].kind != "toks":
            self.fail("Particle(...) second argument is not the token list of the line", e)
        if vs[0].kind == "str" and vs[0].s == "JETSCAPE" and len(vs) == 2:
            return ("bind", f"mkPartJ lineNo {vs[1].lean}", p, k(V("part", p)))
        if vs[0].kind == "fmt":
            if len(vs) == 3 and vs[2].kind != "attrs":
                self.fail("Particle(...) third argument is not custom_attr_list", e)
            attrs = "attrs" if len(vs) == 3 else "[]"
            return ("bind", f"mkPart fmt {attrs} lineNo {vs[1].lean}", p, k(V("part", p)))
        self.fail("Particle(...) format argument", e)

    # ------------------------------------------------------------------ conditions: ('s', bool|None) | ('d', lean) | ('filt',)
    def cond(self, e, env):
        if isinstance(e, ast.BoolOp):
            vals = [self.cond(x, env) for x in e.values]
            is_or = isinstance(e.op, ast.Or)
            if any(v[0] == "filt" for v in vals):
                self.fail("`filters` test inside a boolean expression", e)
            if any(v == ("s", is_or) for v in vals):
                return ("s", is_or)
            rest = [v for v in vals if v != ("s", not is_or)]
            if not rest:
                return ("s", not is_or)
            if any(v[0] == "s" for v in rest):
                return ("s", None)
            if len(rest) == 1:
                return rest[0]
            return ("d", "(" + (" || " if is_or else " && ").join(v[1] for v in rest) + ")")
        if isinstance(e, ast.UnaryOp) and isinstance(e.op, ast.Not):
            v = self.cond(e.operand, env)
            if v[0] == "s":
                return ("s", None if v[1] is None else (not v[1]))
            if v[0] == "filt":
                self.fail("negated `filters` test", e)
            return ("d", f"(!{v[1]})")
        if isinstance(e, ast.Constant) and isinstance(e.value, bool):
            return ("s", e.value)
        if isinstance(e, ast.Call) and isinstance(e.func, ast.Name) and e.func.id == "isinstance":
            return ("s", None)
        if isinstance(e, ast.Compare) and len(e.ops) == 1:
            op, l, r = e.ops[0], e.left, e.comparators[0]
            if isinstance(op, (ast.In, ast.NotIn)) and isinstance(l, ast.Attribute):
                a, c = self.pure(l, env), self.pure(r, env)
                if a.kind == "defstr" and c.kind == "line" and not c.ops:
                    t = "(if partons then l.hasNPartons else l.hasNHadrons)"
                    return ("d", f"(!{t})" if isinstance(op, ast.NotIn) else t)
                return ("s", None)
            if isinstance(op, (ast.In, ast.NotIn)):
                if isinstance(l, ast.Constant) and isinstance(l.value, str):
                    c = self.pure(r, env)
                    neg = isinstance(op, ast.NotIn)
                    if c.kind == "line" and not c.ops:
                        if l.value not in PATTERNS:
                            self.fail(f"the loader tests `{l.value!r} in line`: no such observation in LineF", e)
                        t = f"l.{PATTERNS[l.value]}"
                        return ("d", f"(!{t})" if neg else t)
                    if c.kind in ("opts", "keys", "kwargs"):
                        if l.value == "filters" and c.kind != "kwargs":
                            if neg:
                                self.fail("`'filters' not in ...`", e)
                            return ("filt",)
                        if l.value == "events" and self.mode is not None and c.kind != "kwargs":
                            present = self.mode != "all"
                            return ("s", (not present) if neg else present)
                return ("s", None)
            sym = {ast.Eq: "==", ast.NotEq: "!=", ast.Lt: "<", ast.LtE: "≤", ast.Gt: ">", ast.GtE: "≥"}
            if type(op) not in sym:
                return ("s", None)
            a, b = self.pure(l, env), self.pure(r, env)
            if isinstance(op, (ast.Eq, ast.NotEq)):
                neg = isinstance(op, ast.NotEq)
                if a.kind == "fmt" and b.kind == "str" or a.kind == "str" and b.kind == "fmt":
                    s = b.s if b.kind == "str" else a.s
                    if s not in FMT_NAMES:
                        return ("s", neg)        # no format has that name
                    if self.assume_fmts is not None and s not in self.assume_fmts:
                        return ("s", neg)        # not one of the formats the shared model reads
                    return ("d", f"(fmt {'!=' if neg else '=='} {FMT_NAMES[s]})")
                if a.kind == "plist" and b.kind == "emptylist" or a.kind == "emptylist" and b.kind == "plist":
                    t = (a if a.kind == "plist" else b).lean
                    return ("d", f"(!{t}.isEmpty)" if neg else f"{t}.isEmpty")
            if a.kind == "int" and b.kind == "int":
                if isinstance(op, (ast.Eq, ast.NotEq)):
                    return ("d", f"({a.lean} {sym[type(op)]} {b.lean})")
                return ("d", f"decide ({a.lean} {sym[type(op)]} {b.lean})")
            self.fail(f"comparison of {a.kind} with {b.kind}", e)
        if isinstance(e, (ast.Name, ast.Attribute)):
            v = self.pure(e, env)
            if v.kind == "bool":
                return ("d", v.lean)
            if v.kind == "line" and not v.ops:
                return ("s", True)            # a line that was read is a non-empty string
            if v.kind in ("plist", "data"):
                return ("d", f"(!{v.lean}.isEmpty)")
            if v.kind == "kwargs":
                return ("s", True if self.mode in ("one", "range") else None)
            return ("s", None)
        return ("s", None)

    # ------------------------------------------------------------------ statements (CPS); `tail` = nothing follows in the iteration
    def block(self, stmts, env, k, tail=False):
        if not stmts:
            return k(env)
        if len(stmts) == 1:
            return self.stmt(stmts[0], env, k, tail)
        return self.stmt(stmts[0], env, lambda env2: self.block(stmts[1:], env2, k, tail), False)

    def store_name(self, name, v, env, node):
        old = env.get(name)
        if v.kind == "emptylist":
            if old is not None and old.kind in ("plist", "data"):
                v = V(old.kind, "[]")
            else:
                self.fail(f"`{name} = []`: the kind of list is not known", node)
        if v.kind == "list1" and old is not None and old.kind == "plist" and v.item.kind in ("emptylist", "data"):
            v = V("plist", f"[{v.item.lean}]")
        if old is not None and old.kind in ("plist", "data", "counts") and v.kind != old.kind:
            self.fail(f"`{name}` changes its kind from {old.kind} to {v.kind}", node)
        if env.get("$alias") is not None and env["$alias"].name == name:
            env.pop("$alias")             # rebound: no longer the stored list object
        env[name] = v

    def stores_only(self, s, names):
        """does statement `s` assign something, and only to the given plain names?"""
        found = False
        for n in ast.walk(s):
            if isinstance(n, (ast.Assign, ast.AugAssign, ast.AnnAssign)):
                for t in (n.targets if isinstance(n, ast.Assign) else [n.target]):
                    if isinstance(t, ast.Name) and t.id in names:
                        found = True
                    else:
                        return False
            elif isinstance(n, ast.Call) and isinstance(n.func, ast.Attribute) and n.func.attr == "append":
                return False
        return found

    def is_ghost_stmt(self, s, env):
        ghosts = {n for n, v in env.items() if v is not None and v.kind == "ghost" and not n.startswith("self.")}
        if isinstance(s, (ast.Assign, ast.AugAssign)) and self.stores_only(s, ghosts):
            return True
        if isinstance(s, ast.Expr) and isinstance(s.value, ast.Call) and isinstance(s.value.func, ast.Attribute) \
                and s.value.func.attr == "append" and isinstance(s.value.func.value, ast.Attribute) \
                and s.value.func.value.attr == IDX_ATTR:
            return True
        return False

    def close_like(self, stmts):
        pl = self.roles["plist"]
        for s in stmts:
            for n in ast.walk(s):
                if isinstance(n, ast.Call) and isinstance(n.func, ast.Attribute) and n.func.attr == "append" \
                        and isinstance(n.func.value, ast.Name) and n.func.value.id == pl:
                    return True
        return False

    def mentions_line(self, stmts):
        return any(isinstance(n, ast.Name) and n.id == self.line_name for s in stmts for n in ast.walk(s))

    def maybe_cut(self, stmts, env, k, tail):
        """a `finish the event` block in tail position becomes its own definition"""
        if tail and self.block_prefix and self.close_like(stmts) and not self.mentions_line(stmts) \
                and self.state_term(env) == "st":
            saved = dict(self.fresh)
            try:
                self.fresh = {}
                base = dict(self.base_env)
                outer_alias, self.alias_end = self.alias_end, False
                t = self.block(stmts, base, k, True)
                aliased, self.alias_end = self.alias_end, outer_alias
                if size(t) >= 3:
                    name = f"{self.block_prefix}Close{len(self.blocks) + 1}"
                    self.blocks.append((name, t, aliased))
                    self.fresh = saved
                    return ("call", f"{name} {self.block_args}")
            except Untranslatable:
                pass
            self.fresh = saved
        return self.block(stmts, dict(env), k, tail)

    def stmt(self, s, env, k, tail=False):
        if isinstance(s, ast.Expr):
            if isinstance(s.value, ast.Constant):
                return k(env)
            if self.is_ghost_stmt(s, env):
                return k(env)
            c = s.value
            if isinstance(c, ast.Call) and isinstance(c.func, ast.Attribute) and c.func.attr == "append" and len(c.args) == 1 \
                    and isinstance(c.func.value, ast.Attribute) and isinstance(c.func.value.value, ast.Name) \
                    and c.func.value.value.id == "self" and env.get("self." + c.func.value.attr) is not None \
                    and env["self." + c.func.value.attr].kind == "footers":
                key = "self." + c.func.value.attr
                v = self.pure(c.args[0], env)
                if v.kind != "line" or v.ops:
                    self.fail("something other than the line is appended to the end lines", s)
                env2 = dict(env)
                env2[key] = V("footers", f"({env[key].lean} ++ [l.raw])")
                return k(env2)
            if isinstance(c, ast.Call) and isinstance(c.func, ast.Attribute) and c.func.attr == "append" and len(c.args) == 1 \
                    and isinstance(c.func.value, ast.Name) and env.get(c.func.value.id) is not None \
                    and env[c.func.value.id].kind == "rowsraw":
                name = c.func.value.id

                def cell(v):
                    if v.kind == "strv":
                        return f"Cell.str {v.lean}"
                    if v.kind == "int":
                        return f"Cell.int {v.lean}"
                    self.fail(f"a cell of event_output is {v.kind}", s)

                def after_row(v):
                    if v.kind != "listlit" or len(v.items) != 2:
                        self.fail("event_output rows must be two-element lists", s)

                    def go(items, acc):
                        if not items:
                            env2 = dict(env)
                            env2[name] = V("rowsraw", f"({env[name].lean} ++ [({cell(acc[0])}, {cell(acc[1])})])")
                            return k(env2)
                        if items[0].kind == "tok":        # `tokens[i]` written inside the row: IndexError here
                            tv = self.new("t")
                            return ("bind", f"pyTok {items[0].toks} {items[0].idx}", tv, go(items[1:], acc + [V("strv", tv)]))
                        return go(items[1:], acc + [items[0]])
                    return go(v.items, [])
                return self.ev(c.args[0], env, after_row)
            if isinstance(c, ast.Call) and isinstance(c.func, ast.Attribute) and c.func.attr == "append" and len(c.args) == 1 \
                    and isinstance(c.func.value, ast.Name):
                name = c.func.value.id
                tgt = env.get(name)
                if tgt is None:
                    self.fail(f"unknown name `{name}`", s)

                def after(v):
                    env2 = dict(env)
                    if tgt.kind == "plist" and v.kind == "data":
                        env2[name] = V("plist", f"({tgt.lean} ++ [{v.lean}])")
                        if isinstance(c.args[0], ast.Name):
                            env2["$alias"] = V("alias", name=c.args[0].id)
                    elif tgt.kind == "data" and v.kind == "part":
                        if env.get("$alias") is not None and env["$alias"].name == name:
                            self.fail(f"`{name}` is appended to after it was stored in the particle list (aliasing)", s)
                        env2[name] = V("data", f"({tgt.lean} ++ [{v.lean}])")
                    else:
                        self.fail(f"append of {v.kind} to {tgt.kind}", s)
                    return k(env2)
                return self.ev(c.args[0], env, after)
            self.fail(f"expression statement {ast.unparse(s)[:60]}", s)
        if isinstance(s, ast.Pass):
            return k(env)
        if isinstance(s, ast.Continue):
            return ("ok", self.state_term(env))
        if isinstance(s, (ast.Assign, ast.AnnAssign, ast.AugAssign)) and self.is_ghost_stmt(s, env):
            return k(env)
        if isinstance(s, (ast.Assign, ast.AnnAssign, ast.AugAssign, ast.If)) and self.roles.get("header") and \
                self.stores_only(s, {self.roles["header"]}):
            return k(env)                 # computes `first_event_header`: parameter `firstHeader` (translate/readersel.py)
        if isinstance(s, (ast.Assign, ast.AnnAssign)):
            if isinstance(s, ast.AnnAssign):
                if s.value is None:
                    return k(env)
                targets = [s.target]
            else:
                targets = s.targets
            if len(targets) != 1:
                self.fail("chained assignment", s)
            t = targets[0]
            if isinstance(t, ast.Subscript):
                base = self.pure(t.value, env)
                if base.kind != "counts" or not isinstance(t.value, ast.Attribute):
                    self.fail("assignment into something that is not the counts array", s)
                idx = self.len_nat(t.slice, env)

                def after_row(v):
                    if v.kind != "tuple" or len(v.items) != 2:
                        self.fail("a count row must be assigned a pair", s)
                    c = self.new("c")
                    env2 = dict(env)
                    env2["self." + t.value.attr] = V("counts", c)
                    return ("bind", f"npSetRow {base.lean} {idx} ({self.as_int(v.items[0], s)}, {self.as_int(v.items[1], s)})", c, k(env2))
                return self.ev(s.value, env, after_row)

            def after(v):
                env2 = dict(env)
                if v.kind == "tok":           # `x = tokens[i]` raises IndexError here
                    tv = self.new("t")
                    if not isinstance(t, ast.Name):
                        self.fail("a token is assigned to something that is not a plain name", s)
                    env2[t.id] = V("strv", tv)
                    return ("bind", f"pyTok {v.toks} {v.idx}", tv, k(env2))
                if isinstance(t, ast.Name):
                    self.store_name(t.id, v, env2, s)
                elif isinstance(t, ast.Attribute) and isinstance(t.value, ast.Name) and t.value.id == "self":
                    key = "self." + t.attr
                    if key not in env2:
                        self.fail(f"assignment to the unmodelled attribute {key}", s)
                    self.store_name(key, v, env2, s)
                else:
                    self.fail(f"assignment target {ast.unparse(t)[:40]}", s)
                return k(env2)
            return self.ev(s.value, env, after)
        if isinstance(s, ast.AugAssign):
            t = s.target
            if isinstance(t, ast.Subscript):
                base = self.pure(t.value, env)
                sl = t.slice
                if base.kind == "counts" and isinstance(t.value, ast.Attribute) and isinstance(s.op, ast.Sub) \
                        and self.const_index(s.value) == 1 and isinstance(sl, ast.Tuple) and len(sl.elts) == 2 \
                        and isinstance(sl.elts[0], ast.Slice) and sl.elts[0].upper is None and sl.elts[0].step is None \
                        and sl.elts[0].lower is not None and self.const_index(sl.elts[1]) == 0:
                    idx = self.len_nat(sl.elts[0].lower, env)
                    env2 = dict(env)
                    env2["self." + t.value.attr] = V("counts", f"(npDecLabelsFrom {base.lean} {idx})")
                    return k(env2)
                self.fail("augmented assignment into an array", s)
            ops = {ast.Add: "+", ast.Sub: "-"}
            if type(s.op) not in ops or not isinstance(t, ast.Name):
                self.fail("augmented assignment form", s)
            cur = self.pure(t, env)

            def after2(v):
                env2 = dict(env)
                env2[t.id] = V("int", f"({self.as_int(cur, s)} {ops[type(s.op)]} {self.as_int(v, s)})")
                return k(env2)
            return self.ev(s.value, env, after2)
        if isinstance(s, ast.If):
            # tests that raise (e.g. `int(line_list[2]) == x`) are evaluated first, in source order
            return self.if_stmt(s, env, k, tail)
        if isinstance(s, ast.Raise):
            exc = s.exc
            name = exc.func.id if isinstance(exc, ast.Call) and isinstance(exc.func, ast.Name) else \
                exc.id if isinstance(exc, ast.Name) else None
            if name not in ERR_KINDS:
                self.fail(f"raise {name}", s)
            return ("err", ERR_KINDS[name])
        self.fail(f"statement {type(s).__name__}", s)

    def if_stmt(self, s, env, k, tail):
        test = s.test
        # `int(tokens[c]) <op> x`: bind the conversion (it can raise) before the comparison
        if isinstance(test, ast.Compare) and len(test.ops) == 1 and any(
                isinstance(x, ast.Call) and isinstance(x.func, ast.Name) and x.func.id == "int" and x.args
                and isinstance(x.args[0], ast.Subscript) for x in (test.left, test.comparators[0])):
            sym = {ast.Eq: "==", ast.NotEq: "!="}
            if type(test.ops[0]) not in sym:
                self.fail("comparison of a converted token", s)
            return self.ev(test.left, env, lambda a: self.ev(test.comparators[0], env, lambda b: (
                "if", f"({self.as_int(a, s)} {sym[type(test.ops[0])]} {self.as_int(b, s)})",
                self.maybe_cut(s.body, env, k, tail), self.maybe_cut(s.orelse, env, k, tail))))
        c = self.cond(test, env)
        if c[0] == "s":
            if c[1] is None:
                self.fail(f"cannot decide `{ast.unparse(test)[:80]}`", s)
            return self.block(s.body if c[1] else s.orelse, dict(env), k, tail)
        if c[0] == "filt":
            env_some = dict(env)
            env_some["$filt"] = V("filtfun", "f")
            if env.get("$filt") is not None:          # already inside `some f`
                return self.block(s.body, env_some, k, tail)
            return ("matchfilt", self.block(s.body, env_some, k, tail), self.block(s.orelse, dict(env), k, tail))
        return ("if", c[1], self.maybe_cut(s.body, env, k, tail), self.maybe_cut(s.orelse, env, k, tail))


# ----------------------------------------------------------------------------- locating things
def _class_fn(tree, cls, fn):
    for node in tree.body:
        if isinstance(node, ast.ClassDef) and node.name == cls:
            for f in node.body:
                if isinstance(f, ast.FunctionDef) and (f.name == fn or f.name == f"_{cls}{fn}"):
                    return f
    raise Untranslatable(f"{cls}.{fn} not found")


def _body(f):
    return [s for s in f.body if not (isinstance(s, ast.Expr) and isinstance(s.value, ast.Constant))]


def _flatten_with(stmts):
    out = []
    for s in stmts:
        if isinstance(s, ast.With):
            out += _flatten_with(s.body)
        else:
            out.append(s)
    return out


def _find_roles(f, cls):
    """the python names of the state variables and the loop"""
    stmts = _flatten_with(_body(f))
    loops = [i for i, s in enumerate(stmts) if isinstance(s, ast.For)]
    if len(loops) != 1:
        raise Untranslatable(f"{cls}.set_particle_list: expected exactly one top-level `for` loop, found {len(loops)}")
    li = loops[0]
    loop = stmts[li]
    pre, post = stmts[:li], stmts[li + 1:]
    rets = [s for s in post if isinstance(s, ast.Return)]
    if len(rets) != 1 or post[-1] is not rets[0] or not isinstance(rets[0].value, ast.Name):
        raise Untranslatable(f"{cls}.set_particle_list: the method must end with `return <particle list variable>`")
    plist = rets[0].value.id
    data = None
    for n in ast.walk(loop):
        if isinstance(n, ast.Call) and isinstance(n.func, ast.Attribute) and n.func.attr == "append" \
                and isinstance(n.func.value, ast.Name) and n.func.value.id == plist and len(n.args) == 1 \
                and isinstance(n.args[0], ast.Name):
            if data not in (None, n.args[0].id):
                raise Untranslatable(f"{cls}.set_particle_list: different variables are appended to `{plist}`")
            data = n.args[0].id
    if data is None:
        raise Untranslatable(f"{cls}.set_particle_list: no `{plist}.append(<data>)` in the loop")
    cut = None
    for s in post:
        if isinstance(s, (ast.Assign, ast.AugAssign)):
            tgt = s.targets[0] if isinstance(s, ast.Assign) else s.target
            if isinstance(tgt, ast.Attribute) and tgt.attr == NEV_ATTR:
                names = [n.id for n in ast.walk(s.value) if isinstance(n, ast.Name) and n.id != "self"]
                if len(names) == 1:
                    cut = names[0]
    if cut is None:
        raise Untranslatable(f"{cls}.set_particle_list: `{NEV_ATTR}` is not reduced by a counter after the loop")
    if not isinstance(loop.target, ast.Name) or loop.orelse:
        raise Untranslatable(f"{cls}.set_particle_list: loop form")
    it = loop.iter
    if not (isinstance(it, ast.Call) and isinstance(it.func, ast.Name) and it.func.id == "range" and not it.keywords
            and ((len(it.args) == 2 and isinstance(it.args[0], ast.Constant) and it.args[0].value == 0) or len(it.args) == 1)
            and isinstance(it.args[-1], ast.Name)):
        raise Untranslatable(f"{cls}.set_particle_list: the loop is not `for i in range(0, <number of lines>)`")
    nvar = it.args[-1].id
    nsrc = [s for s in pre if isinstance(s, ast.Assign) and isinstance(s.targets[0], ast.Name) and s.targets[0].id == nvar]
    if len(nsrc) != 1 or not (isinstance(nsrc[0].value, ast.Call) and isinstance(nsrc[0].value.func, ast.Attribute)
                              and nsrc[0].value.func.attr.endswith("__get_num_read_lines")):
        raise Untranslatable(f"{cls}.set_particle_list: the loop bound `{nvar}` is not self.__get_num_read_lines()")
    # the label offset: the plain name added to len(particle_list) in a count row
    label = None
    for n in ast.walk(loop):
        if isinstance(n, ast.Assign) and isinstance(n.targets[0], ast.Subscript) and isinstance(n.value, ast.Tuple) \
                and len(n.value.elts) == 2:
            for m in ast.walk(n.value.elts[0]):
                if isinstance(m, ast.Name) and m.id not in (plist, data, "len", "int"):
                    if label not in (None, m.id):
                        raise Untranslatable(f"{cls}.set_particle_list: count row label uses several variables")
                    label = m.id
    # the first event header variable (JETSCAPE): compared with int(<tokens>[c])
    header = None
    for n in ast.walk(loop):
        if isinstance(n, ast.Compare) and len(n.ops) == 1 and isinstance(n.ops[0], (ast.Eq, ast.NotEq)):
            sides = [n.left, n.comparators[0]]
            cl = [x for x in sides if isinstance(x, ast.Call) and isinstance(x.func, ast.Name) and x.func.id == "int"
                  and x.args and isinstance(x.args[0], ast.Subscript)]
            other = [x for x in sides if x not in cl]
            if len(cl) == 1 and len(other) == 1:
                nm = {m.id for m in ast.walk(other[0]) if isinstance(m, ast.Name)}
                if len(nm) == 1:
                    header = nm.pop()
    return dict(plist=plist, data=data, cut=cut, loopvar=loop.target.id, label=label, header=header), pre, loop, post


def _initial_values(pre, roles, cls):
    """start values of the state variables (literal `[]` / `0` assignments before the loop)"""
    vals = {}
    for s in pre:
        if isinstance(s, (ast.Assign, ast.AnnAssign)) and (s.value is not None):
            t = s.targets[0] if isinstance(s, ast.Assign) else s.target
            if isinstance(t, ast.Name) and t.id in (roles["plist"], roles["data"], roles["cut"]):
                v = s.value
                if isinstance(v, ast.List) and not v.elts:
                    vals[t.id] = "[]"
                elif isinstance(v, ast.Constant) and isinstance(v.value, int) and not isinstance(v.value, bool):
                    vals[t.id] = num(v.value)
                else:
                    raise Untranslatable(f"{cls}.set_particle_list: start value of `{t.id}` is not a literal")
    for r in ("plist", "data", "cut"):
        if roles[r] not in vals:
            raise Untranslatable(f"{cls}.set_particle_list: `{roles[r]}` has no start value before the loop")
    if vals[roles["plist"]] != "[]" or vals[roles["data"]] != "[]" or vals[roles["cut"]] == "[]":
        raise Untranslatable(f"{cls}.set_particle_list: start values have the wrong kind")
    return vals


def gen_loop(src, cls, tag, jetscape):
    tree = ast.parse(src)
    f = _class_fn(tree, cls, "set_particle_list")
    roles, pre, loop, post = _find_roles(f, cls)
    kwname = f.args.args[1].arg if len(f.args.args) > 1 else None
    body = list(loop.body)
    # skeleton: line = <file>.readline(); if not line: raise E
    if len(body) < 2 or not (isinstance(body[0], ast.Assign) and isinstance(body[0].targets[0], ast.Name)
                             and isinstance(body[0].value, ast.Call) and isinstance(body[0].value.func, ast.Attribute)
                             and body[0].value.func.attr == "readline" and not body[0].value.args):
        raise Untranslatable(f"{cls}.set_particle_list: the loop does not start with `line = <file>.readline()`")
    line = body[0].targets[0].id
    # hoisted tests (`is_comment = "#" in line`) may stand between the read and the end-of-file test
    k1 = 1
    while k1 < len(body) and isinstance(body[k1], ast.Assign) and len(body[k1].targets) == 1 \
            and isinstance(body[k1].targets[0], ast.Name) and isinstance(body[k1].value, (ast.Compare, ast.BoolOp, ast.UnaryOp)) \
            and not any(isinstance(n, (ast.Call, ast.Subscript)) for n in ast.walk(body[k1].value)):
        k1 += 1
    hoisted = body[1:k1]
    body = [body[0]] + body[k1:]
    if len(body) < 2:
        raise Untranslatable(f"{cls}.set_particle_list: the loop has no end-of-file test")
    first = body[1]
    if not (isinstance(first, ast.If) and isinstance(first.test, ast.UnaryOp) and isinstance(first.test.op, ast.Not)
            and isinstance(first.test.operand, ast.Name) and first.test.operand.id == line and len(first.body) == 1
            and isinstance(first.body[0], ast.Raise)):
        raise Untranslatable(f"{cls}.set_particle_list: the first test of the loop is not `if not line: raise ...`")
    exc = first.body[0].exc
    ename = exc.func.id if isinstance(exc, ast.Call) and isinstance(exc.func, ast.Name) else exc.id if isinstance(exc, ast.Name) else None
    if ename not in ERR_KINDS:
        raise Untranslatable(f"{cls}.set_particle_list: end-of-file exception {ename}")
    rest = hoisted + list(first.orelse) + body[2:]
    if first.orelse and body[2:] and not _always_leaves(first.orelse):
        pass          # `if not line: raise / else-chain` followed by more statements: plain sequence, handled by block()

    params = ("(fmt : Fmt) (attrs : List String) (filt : Option EvFilter) (firstLabel : Int)" if not jetscape else
              "(filt : Option EvFilter) (firstLabel firstHeader : Int)")
    pargs = "fmt attrs filt firstLabel" if not jetscape else "filt firstLabel firstHeader"
    ex = Exec(f"{cls}.set_particle_list (line loop)", roles, jetscape=jetscape)
    ex.block_prefix = f"gen{tag}"
    ex.line_name = line
    ex.block_args = f"{pargs} first lineNo l st"
    env = {roles["plist"]: V("plist", "st.plist"), roles["data"]: V("data", "st.data"), roles["cut"]: V("int", "st.cut"),
           "self." + ROWS_ATTR: V("counts", "st.counts"), "self." + OPTS_ATTR: V("opts"),
           "self." + IDX_ATTR: V("ghost"), line: V("line", ops=())}
    if kwname:
        env[kwname] = V("kwargs")
    if not jetscape:
        env["self.oscar_format_"] = V("fmt", "fmt")
        env["self.custom_attr_list"] = V("attrs", "attrs")
    if roles["label"]:
        env[roles["label"]] = V("int", "firstLabel")
    if roles["header"]:
        env[roles["header"]] = V("int", "firstHeader")
    # ghost integers: plain names that only flow into loaded_event_indices_ (assigned before the loop, `+=` in the loop)
    for n in ast.walk(loop):
        if isinstance(n, ast.Call) and isinstance(n.func, ast.Attribute) and n.func.attr == "append" \
                and isinstance(n.func.value, ast.Attribute) and n.func.value.attr == IDX_ATTR:
            for a in n.args:
                if isinstance(a, ast.Name):
                    env[a.id] = V("ghost")
    ex.base_env = dict(env)
    # `i == 0`
    env[roles["loopvar"]] = V("loopvar")
    ex.base_env[roles["loopvar"]] = V("loopvar")
    _patch_loopvar(ex)
    t = ex.block(rest, env, lambda e: ("ok", ex.state_term(e)), True)
    sig = f"{params} (first : Bool) (lineNo : Nat) (l : LineF) (st : LoopSt) : Except Err LoopSt"
    text = f"/-- `{cls}.set_particle_list`: the exception raised when the file ends before the announced number of lines was read -/\n" \
           f"def gen{tag}Eof : Err := .{ERR_KINDS[ename]}\n\n"
    for name, bt, aliased in ex.blocks:
        note = ("  NOTE: this block does not rebind `" + roles["data"] + "` after storing it: the list kept in the particle list and `"
                + roles["data"] + "` stay one object in the source; the definition (values) is exact as long as no further line is read "
                "(`RdLoop.trailerLastB`)" if aliased else "")
        text += (f"/-- `{cls}.set_particle_list`: a block that finishes the event being read (applies the constructor filters, "
                 f"updates `{ROWS_ATTR}`, keeps or drops the event){note} -/\n"
                 f"def {name} {sig} :=\n  {render(bt, 2)}\n\n")
    text += (f"/-- `{cls}.set_particle_list`: the body of the line loop for a line that was read (`first` = `i == 0`) -/\n"
             f"def gen{tag}Step {sig} :=\n  {render(t, 2)}\n\n"
             f"/-- `{cls}.set_particle_list`: the line loop -/\n"
             f"def gen{tag}Loop {params} :\n    Nat → Nat → Bool → List LineF → LoopSt → Except Err LoopSt :=\n"
             f"  lineLoop gen{tag}Eof (gen{tag}Step {pargs})\n\n")
    vals = _initial_values(pre, roles, cls)
    text += (f"/-- `{cls}.set_particle_list`: the loop state before the first line (`rowsSel` = the count rows the prelude kept) -/\n"
             f"def gen{tag}Init (rowsSel : List (Int × Int)) : LoopSt :=\n"
             f"  {{ plist := {vals[roles['plist']]}, data := {vals[roles['data']]}, counts := .arr2d rowsSel, cut := {vals[roles['cut']]} }}\n\n")
    # after the loop
    arms = []
    for mode, pat in (("all", ".all"), ("one", ".one k"), ("range", ".range a b")):
        fx = Exec(f"{cls}.set_particle_list (after the loop) [{mode}]", roles, mode=mode, jetscape=jetscape)
        fenv = {roles["plist"]: V("plist", "st.plist"), roles["data"]: V("data", "st.data"), roles["cut"]: V("int", "st.cut"),
                "self." + ROWS_ATTR: V("counts", "st.counts"), "self." + NEV_ATTR: V("int", "numEvents"),
                "self." + OPTS_ATTR: V("opts")}
        if kwname:
            fenv[kwname] = V("kwargs")

        def fin(e, fx=fx):
            raise Untranslatable(f"{fx.what}: the end of the method is reached without `return`")
        ft = _finish_block(fx, post, fenv)
        arms.append(f"  | {pat} =>\n    {render(ft, 4)}\n")
    text += (f"/-- `{cls}.set_particle_list` after the loop: `{NEV_ATTR}` minus the removed events, the event-count check, "
             f"`[] -> [[]]`; result = (particle list, `{NEV_ATTR}`, `{ROWS_ATTR}`) -/\n"
             f"def gen{tag}Finish (st : LoopSt) (numEvents : Int) : Sel → Except Err (List (List PLine) × Int × Counts)\n"
             + "".join(arms) + "\n")
    region = dict(region=f"{cls}.set_particle_list (line loop, start state, final check)", lines=[loop.lineno, f.end_lineno],
                  sha=_sha("\n".join(src.splitlines()[loop.lineno - 1:f.end_lineno])), close_blocks=len(ex.blocks),
                  blocks_leaving_data_aliased=[n for n, _, a in ex.blocks if a] + (["Step"] if ex.alias_end else []))
    return text, region, len(ex.blocks)


def _always_leaves(stmts):
    return bool(stmts) and isinstance(stmts[-1], (ast.Raise, ast.Continue))


def _patch_loopvar(ex):
    """`i == 0` -> `first` (any other use of the loop variable is outside the fragment)"""
    orig = ex.cond

    def cond(e, env):
        if isinstance(e, ast.Compare) and len(e.ops) == 1 and isinstance(e.ops[0], (ast.Eq, ast.NotEq)):
            l, r = e.left, e.comparators[0]
            for a, b in ((l, r), (r, l)):
                if isinstance(a, ast.Name) and env.get(a.id) is not None and env[a.id].kind == "loopvar" \
                        and isinstance(b, ast.Constant) and b.value == 0 and not isinstance(b.value, bool):
                    return ("d", "first" if isinstance(e.ops[0], ast.Eq) else "(!first)")
        return orig(e, env)
    ex.cond = cond


def _finish_block(fx, post, env):
    def on_return(s, e):
        v = fx.pure(s.value, e)
        ne, c = e.get("self." + NEV_ATTR), e.get("self." + ROWS_ATTR)
        if v.kind != "plist" or ne is None or ne.kind != "int" or c is None or c.kind != "counts":
            fx.fail("the values returned / left in the attributes are not (particle list, num_events_, counts)", s)
        return ("ok", f"({v.lean}, {ne.lean}, {c.lean})")

    def run(stmts, e):
        if not stmts:
            fx.fail("the end of the method is reached without `return`")
        s = stmts[0]
        if isinstance(s, ast.Return):
            return on_return(s, e)
        return fx.stmt(s, e, lambda e2: run(stmts[1:], e2), False)
    return run(list(post), env)


def gen_num_events(src, cls):
    """`set_num_events`: the test on the token list of the last line and the conversion"""
    tree = ast.parse(src)
    f = _class_fn(tree, cls, "set_num_events")
    stmts = _flatten_with(_body(f))
    # the variable holding `<...>.readline().decode().split(" ")`
    var = None
    for s in stmts:
        for n in ast.walk(s):
            if isinstance(n, ast.Assign) and isinstance(n.targets[0], ast.Name) and isinstance(n.value, ast.Call) \
                    and isinstance(n.value.func, ast.Attribute) and n.value.func.attr == "split" \
                    and [a.value for a in n.value.args if isinstance(a, ast.Constant)] == [" "] \
                    and "readline" in ast.unparse(n.value) and "decode" in ast.unparse(n.value):
                var = n.targets[0].id
    if var is None:
        raise Untranslatable(f"{cls}.set_num_events: `last_line = file.readline().decode().split(' ')` not found")
    ifs = [s for s in stmts if isinstance(s, ast.If)]
    if len(ifs) != 1 or stmts[-1] is not ifs[0]:
        raise Untranslatable(f"{cls}.set_num_events: expected one final `if` on the last line")

    def cond(e):
        if isinstance(e, ast.BoolOp):
            parts = [cond(x) for x in e.values]
            return "(" + (" && " if isinstance(e.op, ast.And) else " || ").join(parts) + ")"
        if isinstance(e, ast.UnaryOp) and isinstance(e.op, ast.Not):
            return f"(!{cond(e.operand)})"
        if isinstance(e, ast.Compare) and len(e.ops) == 1:
            l, r, op = e.left, e.comparators[0], e.ops[0]
            if isinstance(op, (ast.Eq, ast.NotEq)) and isinstance(l, ast.Subscript) and isinstance(l.value, ast.Name) \
                    and l.value.id == var and isinstance(l.slice, ast.Constant) and l.slice.value == 0 \
                    and isinstance(r, ast.Constant) and isinstance(r.value, str) and '"' not in r.value and "\\" not in r.value:
                # `last_line[0]` of a split result always exists
                return f'(toks.getD 0 "" {"==" if isinstance(op, ast.Eq) else "!="} "{r.value}")'
            if isinstance(op, (ast.In, ast.NotIn)) and isinstance(l, ast.Constant) and isinstance(l.value, str) \
                    and isinstance(r, ast.Name) and r.id == var and '"' not in l.value and "\\" not in l.value:
                t = f'toks.contains "{l.value}"'
                return t if isinstance(op, ast.In) else f"(!{t})"
        raise Untranslatable(f"{cls}.set_num_events: test `{ast.unparse(e)[:60]}`")

    def branch(body):
        if len(body) == 1 and isinstance(body[0], ast.Raise):
            exc = body[0].exc
            name = exc.func.id if isinstance(exc, ast.Call) and isinstance(exc.func, ast.Name) else None
            if name in ERR_KINDS:
                return f".error .{ERR_KINDS[name]}"
        if len(body) == 1 and isinstance(body[0], ast.Assign) and isinstance(body[0].targets[0], ast.Attribute) \
                and body[0].targets[0].attr == NEV_ATTR:
            v = body[0].value
            if isinstance(v, ast.BinOp) and isinstance(v.op, (ast.Add, ast.Sub)) and isinstance(v.right, ast.Constant) \
                    and isinstance(v.right.value, int) and isinstance(v.left, ast.Call) and isinstance(v.left.func, ast.Name) \
                    and v.left.func.id == "int" and isinstance(v.left.args[0], ast.Subscript) \
                    and isinstance(v.left.args[0].value, ast.Name) and v.left.args[0].value.id == var \
                    and isinstance(v.left.args[0].slice, ast.Constant) and isinstance(v.left.args[0].slice.value, int) \
                    and v.left.args[0].slice.value >= 0:
                o = "+" if isinstance(v.op, ast.Add) else "-"
                return f"eBind (pyTokInt toks {v.left.args[0].slice.value}) (fun n => .ok (n {o} {num(v.right.value)}))"
        raise Untranslatable(f"{cls}.set_num_events: branch `{ast.unparse(body[0])[:60]}`")
    i = ifs[0]
    text = (f"/-- `{cls}.set_num_events`: the test on the token list of the last line (`.split(\" \")`) and `{NEV_ATTR}` -/\n"
            f"def gen{'Oscar'}NumEventsLine (toks : List String) : Except Err Int :=\n"
            f"  if {cond(i.test)} then\n    {branch(i.body)}\n  else\n    {branch(i.orelse)}\n\n")
    region = dict(region=f"{cls}.set_num_events (test on the last line)", lines=[i.lineno, i.end_lineno], sha=_sha(_seg(src, i)))
    return text, region


def gen_scan(src, cls, fn, tag, jetscape):
    """first-pass scanner: the `while True` loop over all lines that fills `event_output` (and `event_end_lines_`)"""
    tree = ast.parse(src)
    f = _class_fn(tree, cls, fn)
    rows_var = None
    ex = Exec(f"{cls}.{fn}", dict(plist=None, data=None, cut=None), jetscape=jetscape)
    ex.assume_fmts = {"Oscar2013", "Oscar2013Extended", "ASCII"}
    env = {"self.oscar_format_": V("fmt", "fmt")} if not jetscape else {"self.particle_type_defining_string_": V("defstr")}
    if not jetscape:
        env["self.event_end_lines_"] = V("footers", "sc.foot")
        klass = [n for n in tree.body if isinstance(n, ast.ClassDef) and n.name == cls][0]
        init = [n for n in ast.walk(klass) if isinstance(n, (ast.Assign, ast.AnnAssign)) and n.value is not None
                and isinstance((n.targets[0] if isinstance(n, ast.Assign) else n.target), ast.Attribute)
                and (n.targets[0] if isinstance(n, ast.Assign) else n.target).attr == "event_end_lines_"]
        if not init or not all(isinstance(n.value, ast.List) and not n.value.elts for n in init):
            raise Untranslatable(f"{cls}: `event_end_lines_` is not reset to [] (in load / __init__) before the scan")
    found = {}

    def walk(stmts):
        nonlocal rows_var
        for s in stmts:
            if isinstance(s, ast.Expr) and isinstance(s.value, ast.Constant):
                continue
            if isinstance(s, ast.AnnAssign) and s.value is None:
                continue
            if isinstance(s, ast.With):
                walk(s.body)
                continue
            if isinstance(s, (ast.Assign, ast.AnnAssign)) and "loop" not in found:
                t = s.targets[0] if isinstance(s, ast.Assign) else s.target
                if isinstance(t, ast.Name) and isinstance(s.value, ast.List) and not s.value.elts:
                    rows_var = t.id
                    continue
                raise Untranslatable(f"{cls}.{fn}: statement before the loop: {ast.unparse(s)[:60]}")
            if isinstance(s, ast.If) and "loop" not in found:
                c = ex.cond(s.test, env)
                if c[0] != "s" or c[1] is None:
                    raise Untranslatable(f"{cls}.{fn}: cannot decide `{ast.unparse(s.test)[:70]}` for the formats Oscar2013 / "
                                         "Oscar2013Extended / ASCII")
                walk(s.body if c[1] else s.orelse)
                continue
            if isinstance(s, ast.While) and "loop" not in found:
                if not (isinstance(s.test, ast.Constant) and s.test.value is True) or s.orelse:
                    raise Untranslatable(f"{cls}.{fn}: loop form")
                found["loop"] = s
                continue
            if isinstance(s, ast.Assign) and "loop" in found:
                t = s.targets[0]
                if isinstance(t, ast.Attribute) and t.attr == ROWS_ATTR:
                    v = s.value
                    ok = isinstance(v, ast.Call) and isinstance(v.func, ast.Attribute) and v.func.attr == "array" \
                        and len(v.args) == 1 and isinstance(v.args[0], ast.Name) and v.args[0].id == rows_var \
                        and any(kw.arg == "dtype" and ast.unparse(kw.value) in ("np.int32", "numpy.int32", "int") for kw in v.keywords) \
                        and all(kw.arg in ("dtype", "ndmin") for kw in v.keywords)
                    if not ok:
                        raise Untranslatable(f"{cls}.{fn}: `{ROWS_ATTR}` is not np.array({rows_var}, dtype=np.int32[, ndmin=2])")
                    found["array"] = s
                    continue
                if isinstance(t, ast.Attribute) and t.attr == NEV_ATTR and ast.unparse(s.value) == f"len({rows_var})":
                    found["nev"] = s
                    continue
            raise Untranslatable(f"{cls}.{fn}: statement {ast.unparse(s)[:60]}")
    walk(_body(f))
    if "loop" not in found or "array" not in found or rows_var is None or (jetscape and "nev" not in found):
        raise Untranslatable(f"{cls}.{fn}: loop / final np.array(...) not found")
    body = list(found["loop"].body)
    if len(body) < 2 or not (isinstance(body[0], ast.Assign) and isinstance(body[0].targets[0], ast.Name)
                             and isinstance(body[0].value, ast.Call) and isinstance(body[0].value.func, ast.Attribute)
                             and body[0].value.func.attr == "readline" and not body[0].value.args):
        raise Untranslatable(f"{cls}.{fn}: the loop does not start with `line = <file>.readline()`")
    line = body[0].targets[0].id
    first = body[1]
    if not (isinstance(first, ast.If) and isinstance(first.test, ast.UnaryOp) and isinstance(first.test.op, ast.Not)
            and isinstance(first.test.operand, ast.Name) and first.test.operand.id == line and len(first.body) == 1
            and isinstance(first.body[0], ast.Break)):
        raise Untranslatable(f"{cls}.{fn}: the first test of the loop is not `if not line: break`")
    rest = list(first.orelse) + body[2:]
    env[rows_var] = V("rowsraw", "sc.rows")
    env[line] = V("line", ops=())
    ex.line_name = line

    def state(e):
        r = e[rows_var].lean
        ft = e["self.event_end_lines_"].lean if not jetscape else "sc.foot"
        return "sc" if (r, ft) == ("sc.rows", "sc.foot") else "{ rows := %s, foot := %s }" % (r, ft)
    ex.state_fn = state
    t = ex.block(rest, env, lambda e: ("ok", state(e)), True)
    par = "(partons : Bool) " if jetscape else ""
    text = (f"/-- `{cls}.{fn}`: the body of the scanning loop for a line that was read -/\n"
            f"def gen{tag}ScanStep {par}(l : LineF) (sc : ScanSt) : Except Err ScanSt :=\n  {render(t, 2)}\n\n")
    if jetscape:
        text += (f"/-- `{cls}.{fn}`: all lines, then `np.array(event_output, dtype=np.int32)` -/\n"
                 f"def gen{tag}Scan (partons : Bool) (lines : List LineF) : Except Err (List (Int × Int)) :=\n"
                 f"  eBind (scanLoop (gen{tag}ScanStep partons) lines {{ rows := [], foot := [] }}) (fun sc => npIntRows sc.rows)\n\n")
    else:
        text += (f"/-- `{cls}.{fn}` (formats Oscar2013 / Oscar2013Extended / ASCII): all lines, then "
                 f"`np.array(event_output, dtype=np.int32, ndmin=2)`; result = (count rows, `event_end_lines_`) -/\n"
                 f"def gen{tag}Scan (lines : List LineF) : Except Err (List (Int × Int) × List String) :=\n"
                 f"  eBind (scanLoop gen{tag}ScanStep lines {{ rows := [], foot := [] }}) (fun sc =>\n"
                 f"    eBind (npIntRows sc.rows) (fun rows => .ok (rows, sc.foot)))\n\n")
    region = dict(region=f"{cls}.{fn} (scanning loop)", lines=[f.lineno, f.end_lineno], sha=_sha(_seg(src, f)))
    return text, region


SCAN_HEADER = """-- GENERATED by harness/translate/readerloop.py from src/sparkx/loader/OscarLoader.py, src/sparkx/loader/JetscapeLoader.py -- do not edit
import SparkxVerif.Core.ReaderScanG

set_option linter.unusedVariables false

namespace SparkxVerif.Gen.ReaderScan
open SparkxVerif.Rd SparkxVerif.RdSel SparkxVerif.RdLoop

"""


def render_scan(src_oscar, src_jetscape):
    t1, r1 = gen_scan(src_oscar, "OscarLoader", "set_num_output_per_event_and_event_footers", "Oscar", False)
    r1["file"] = SRC_OSCAR
    t2, r2 = gen_scan(src_jetscape, "JetscapeLoader", "set_num_output_per_event", "Jetscape", True)
    r2["file"] = SRC_JETSCAPE
    return SCAN_HEADER + t1 + t2 + "end SparkxVerif.Gen.ReaderScan\n", [r1, r2]


HEADER = """-- GENERATED by harness/translate/readerloop.py from src/sparkx/loader/OscarLoader.py, src/sparkx/loader/JetscapeLoader.py -- do not edit
import SparkxVerif.Core.ReaderLoopG

set_option linter.unusedVariables false

namespace SparkxVerif.Gen.ReaderLoop
open SparkxVerif.Rd SparkxVerif.RdSel SparkxVerif.RdLoop

"""

FOOTER = """/-- `OscarLoader.set_num_events` on a file: the last line (`Rd.lastLine`: seek from the end) through the generated test -/
def genOscarNumEvents (f : FileF) : Except Err Int :=
  eBind (lastLine f) (fun l => genOscarNumEventsLine l.toks)

/-- the generated loop parts of `OscarLoader` -/
def genOscarParts : OscarParts where
  numEvents := genOscarNumEvents
  init := genOscarInit
  loop := genOscarLoop
  fin := genOscarFinish

/-- the generated loop parts of `JetscapeLoader` -/
def genJetscapeParts : JetscapeParts where
  init := genJetscapeInit
  loop := genJetscapeLoop
  fin := genJetscapeFinish

end SparkxVerif.Gen.ReaderLoop
"""


def render_all(src_oscar, src_jetscape):
    parts, regions = [], []
    t, r, nbo = gen_loop(src_oscar, "OscarLoader", "Oscar", False)
    r["file"] = SRC_OSCAR
    parts.append(t)
    regions.append(r)
    t, r = gen_num_events(src_oscar, "OscarLoader")
    r["file"] = SRC_OSCAR
    parts.append(t)
    regions.append(r)
    t, r, nbj = gen_loop(src_jetscape, "JetscapeLoader", "Jetscape", True)
    r["file"] = SRC_JETSCAPE
    parts.append(t)
    regions.append(r)
    if regions[0]["blocks_leaving_data_aliased"] or regions[2]["blocks_leaving_data_aliased"] not in ([], ["genJetscapeClose1"]):
        # value semantics is exact only if a stored list is never mutated afterwards: allowed for the trailer block alone
        # (side condition trailerLastB of the JETSCAPE theorems)
        raise Untranslatable("set_particle_list: `data` stays aliased with a stored event outside the JETSCAPE trailer block: "
                             + repr(regions[0]["blocks_leaving_data_aliased"] + regions[2]["blocks_leaving_data_aliased"]))
    if nbo != 1 or nbj != 2:
        # the equivalence lemmas are stated per `finish the event` block: one in OscarLoader, two in JetscapeLoader
        raise Untranslatable(f"set_particle_list: {nbo} / {nbj} `finish the event` blocks found in tail position (expected 1 / 2)")
    return HEADER + "".join(parts) + FOOTER, regions
