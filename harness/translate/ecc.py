"""Tie T for C18: src/sparkx/EventCharacteristics.py -> Gen/Ecc.lean.

Translated on every run from the tree under test, by symbolic execution of the two method bodies:

  `eccentricity_from_particles(self, n, m=None, weight_quantity="energy")`
  `eccentricity_from_lattice(self, n, m=None)`

and a shape check of the dispatcher `eccentricity` (forwards its arguments unchanged to one of the two).

The fragment (anything else raises `Untranslatable`; the harness then falls back to the golden model + correspondence):

  function level   `name = <expr>` / `name op= <expr>` (pure arithmetic; becomes a substitution, no `let` is emitted, so
                   renaming a local or hoisting a sub-expression gives the same text), argument guards
                   `if <cond>: raise ValueError(..)` before the loop, exactly one `for` loop, `return <expr>` last.
  loop header      `for p in self.event_data_`                                    (particles)
                   `for i, j, k in np.ndindex(self.event_data_.grid_.shape)`      (lattice)
  loop body        assignments, `if/elif/else` chains whose branches assign locals or `raise` (nested chains allowed).
                   An `if` statement becomes ONE monadic bind of the tuple of locals it assigns
                   (`(if c1 then .ok v1 else if c2 then .ok v2 else .error e) >>= fun t => ...`).
                   The variables that live across iterations must be exactly three accumulators; which of them is
                   the common divisor / the numerator of the real / of the imaginary part is read off the `return`
                   expression (they become the fields `norm`, `re`, `im` of `Ecc.Acc`; this choice of field names is
                   an encoding, it does not change what is rendered).
  conditions       int comparisons of `n`, `m` and int literals, `m is [not] None` (`n is None` is statically false:
                   the model is typed), `weight_quantity ==/!= "<literal>"`, `and / or / not`,
                   `isinstance(self.event_data_, (list, np.ndarray))` (statically true in the particle function, false
                   in the lattice function: the model is typed).  A guard that is statically false is dropped, one that
                   is statically true is refused.  `m` may be used as a number only where the path condition says
                   `m is not None`.
  expressions      `+ - * /` (division by a non-zero literal anywhere; by a variable only in the `return`
                   expression, where every divisor gets the model's "divisor is zero -> zerodiv" guard),
                   `x ** <natural literal>` -> `npow`, any other `a ** b` -> `ops.pow a b`, unary minus,
                   `np.arctan2 / np.cos / np.sin` (or `math.`) -> `ops.atan2 / ops.cos / ops.sin`, `float(..)`,
                   particle attributes `E charge baryon_number strangeness x y`,
                   `self.event_data_.get_coordinates(i, j, k)` -> `(coordX L i, coordY L j, <z: unusable>)`,
                   `self.event_data_.get_value_by_index(i, j, k)` -> `L.density i j k`,
                   in the `return` expression also complex arithmetic with `1j` / `complex(a, b)`
                   (real and imaginary part are tracked separately; exact zeros and the factor 1 of `1j` are
                   simplified away, as the hand model does).
  ints             `n` is a Lean `Int`, `m` an `Option Int`; an int used where a float is expected goes through `ofInt`.

What is NOT translated (stays a contract of the hand model, tied by correspondence): the Lattice3D accessors
(`grid_.shape == (len(x_values_), len(y_values_), num_points_z)`, `np.ndindex` = C order, `get_coordinates`,
`get_value_by_index`: rendered through `shape / ndindex / coordX / coordY / Lattice.density`), numpy / libm
(`Ops`), the constructor / `set_event_data` (which of the two functions a given object reaches).
"""
import ast
import hashlib
import re

from . import pyexpr
from .pyexpr import Untranslatable

CLS = "EventCharacteristics"
F_PART = "eccentricity_from_particles"
F_LAT = "eccentricity_from_lattice"
F_PUB = "eccentricity"

PART_ATTRS = {"E": "E", "charge": "charge", "baryon_number": "baryon", "strangeness": "strangeness",
              "x": "x", "y": "y"}
UNARY = {("np", "cos"): "ops.cos", ("math", "cos"): "ops.cos", ("numpy", "cos"): "ops.cos",
         ("np", "sin"): "ops.sin", ("math", "sin"): "ops.sin", ("numpy", "sin"): "ops.sin"}
BINARY = {("np", "arctan2"): "ops.atan2", ("math", "atan2"): "ops.atan2", ("numpy", "arctan2"): "ops.atan2"}
ERRS = {"ValueError": "Err.value", "ZeroDivisionError": "Err.zerodiv"}


# ------------------------------------------------------------------ symbolic values
class Lit:      # Python numeric literal (int or float)
    def __init__(self, v):
        self.v = v


class R:        # Lean term of type α
    def __init__(self, t):
        self.t = t


class I:        # Lean term of type Int
    def __init__(self, t):
        self.t = t


class OptI:     # Lean term of type Option Int (`harmonic_m`)
    def __init__(self, t):
        self.t = t


class S:        # Lean term of type String (`weight_quantity`)
    def __init__(self, t):
        self.t = t


class StrLit:
    def __init__(self, s):
        self.s = s


class PartV:    # the loop variable of the particle loop
    def __init__(self, t):
        self.t = t


class Idx:      # a lattice index (Nat)
    def __init__(self, t):
        self.t = t


class SelfV:
    pass


class Data:     # self.event_data_
    pass


class Grid:     # self.event_data_.grid_
    pass


class Shape:    # self.event_data_.grid_.shape
    pass


class Cx:       # complex value; components None (exact zero) | Lit | I | R
    def __init__(self, re_, im_):
        self.re, self.im = re_, im_


class Tup:
    def __init__(self, items):
        self.items = items


class Opaque:
    def __init__(self, why):
        self.why = why


class NoneV:
    pass


def lit(v):
    if isinstance(v, bool) or not isinstance(v, (int, float)):
        raise Untranslatable(f"literal {v!r}")
    if isinstance(v, float) and (v != v or v in (float("inf"), float("-inf"))):
        raise Untranslatable("non-finite literal")
    if float(v) == int(v) and abs(v) < 2 ** 53:
        k = int(v)
        return f"(nat {k})" if k >= 0 else f"(-(nat {-k}))"
    a, b = abs(float(v)).as_integer_ratio()
    t = f"(nat {a} / nat {b})"
    return t if v > 0 else f"(-{t})"


def _is_int_lit(x):
    return isinstance(x, Lit) and isinstance(x.v, int) and not isinstance(x.v, bool)


def _callname(node):
    f = node.func
    if isinstance(f, ast.Name):
        return (None, f.id)
    if isinstance(f, ast.Attribute) and isinstance(f.value, ast.Name):
        return (f.value.id, f.attr)
    return None


def _stored(stmts):
    out = []
    for s in stmts:
        for n in ast.walk(s):
            if isinstance(n, ast.Name) and isinstance(n.ctx, ast.Store) and n.id not in out:
                out.append(n.id)
    return out


class Cond:
    def __init__(self, const=None, text=None, tf=(), ff=()):
        self.const, self.text, self.tf, self.ff = const, text, frozenset(tf), frozenset(ff)


PH = "⟪%s⟫"  # placeholder of a loop-carried variable until its role is known


class Tr:
    """symbolic execution of one of the two functions"""

    def __init__(self, fdef, lattice):
        self.f = fdef
        self.lattice = lattice
        self.facts = frozenset()
        self.in_loop = False
        self.in_return = False
        self.divisors = []
        self.ntemp = 0

    # -------------------------------------------------------------- numeric coercions
    def num(self, v):
        """resolve an Optional int under the path condition"""
        if isinstance(v, OptI):
            if ("some", v.t) in self.facts:
                return I(f"({v.t}.getD 0)")
            raise Untranslatable("an Optional argument is used as a number where it may be None")
        if isinstance(v, (Lit, R, I)):
            return v
        if isinstance(v, Opaque):
            raise Untranslatable("use of " + v.why)
        raise Untranslatable("numeric value expected, got " + type(v).__name__)

    def real(self, v):
        v = self.num(v)
        if isinstance(v, Lit):
            return lit(v.v)
        if isinstance(v, I):
            return f"(ofInt {v.t})"
        return v.t

    def is_int(self, v):
        return _is_int_lit(v) or isinstance(v, I) or (isinstance(v, OptI) and ("some", v.t) in self.facts)

    def intt(self, v):
        v = self.num(v)
        if _is_int_lit(v):
            return f"({v.v} : Int)" if v.v >= 0 else f"(-{-v.v} : Int)"
        if isinstance(v, I):
            return v.t
        raise Untranslatable("int expected")

    # -------------------------------------------------------------- arithmetic
    def binop(self, op, a, b):
        if isinstance(a, Cx) or isinstance(b, Cx):
            return self.cbinop(op, a, b)
        a, b = self.num(a), self.num(b)
        if isinstance(op, (ast.Add, ast.Sub, ast.Mult)):
            sym = {ast.Add: "+", ast.Sub: "-", ast.Mult: "*"}[type(op)]
            if _is_int_lit(a) and _is_int_lit(b):
                return Lit({"+": a.v + b.v, "-": a.v - b.v, "*": a.v * b.v}[sym])
            if self.is_int(a) and self.is_int(b):
                return I(f"({self.intt(a)} {sym} {self.intt(b)})")
            return R(f"({self.real(a)} {sym} {self.real(b)})")
        if isinstance(op, ast.Div):
            if isinstance(b, Lit):
                if b.v == 0:
                    raise Untranslatable("division by a literal zero")
                return R(f"({self.real(a)} / {lit(b.v)})")
            if not self.in_return:
                raise Untranslatable("division by a non-literal outside the return expression")
            d = self.real(b)
            if d not in self.divisors:
                self.divisors.append(d)
            return R(f"({self.real(a)} / {d})")
        if isinstance(op, ast.Pow):
            if not isinstance(a, R):
                raise Untranslatable("power of a non-float base")
            if isinstance(b, Lit) and float(b.v) == int(b.v) and 0 <= b.v <= 64:
                return R(f"(npow {a.t} {int(b.v)})")
            return R(f"(ops.pow {a.t} {self.real(b)})")
        raise Untranslatable("operator " + type(op).__name__)

    # complex numbers (return expression only): components None = exact zero
    def _cx(self, v):
        if isinstance(v, Cx):
            return v
        return Cx(self.num(v), None)

    def _nadd(self, a, b, sub=False):
        if b is None:
            return a
        if a is None:
            return self.neg(b) if sub else b
        return self.binop(ast.Sub() if sub else ast.Add(), a, b)

    def _nmul(self, a, b):
        if a is None or b is None:
            return None
        if isinstance(a, Lit) and a.v == 1:
            return b
        if isinstance(b, Lit) and b.v == 1:
            return a
        return self.binop(ast.Mult(), a, b)

    def cbinop(self, op, a, b):
        if not self.in_return:
            raise Untranslatable("complex arithmetic outside the return expression")
        if isinstance(op, ast.Div):
            if isinstance(b, Cx):
                raise Untranslatable("division by a complex number")
            a = self._cx(a)
            return Cx(None if a.re is None else self.binop(op, a.re, b), None if a.im is None else self.binop(op, a.im, b))
        a, b = self._cx(a), self._cx(b)
        if isinstance(op, ast.Add):
            return Cx(self._nadd(a.re, b.re), self._nadd(a.im, b.im))
        if isinstance(op, ast.Sub):
            return Cx(self._nadd(a.re, b.re, True), self._nadd(a.im, b.im, True))
        if isinstance(op, ast.Mult):
            return Cx(self._nadd(self._nmul(a.re, b.re), self._nmul(a.im, b.im), True),
                      self._nadd(self._nmul(a.re, b.im), self._nmul(a.im, b.re)))
        raise Untranslatable("complex operator " + type(op).__name__)

    def neg(self, a):
        if isinstance(a, Cx):
            return Cx(None if a.re is None else self.neg(a.re), None if a.im is None else self.neg(a.im))
        a = self.num(a)
        if isinstance(a, Lit):
            return Lit(-a.v)
        if isinstance(a, I):
            return I(f"(-{a.t})")
        return R(f"(-{a.t})")

    # -------------------------------------------------------------- expressions
    def e(self, n, env):
        if isinstance(n, ast.Constant):
            if n.value is None:
                return NoneV()
            if isinstance(n.value, str):
                return StrLit(n.value)
            if isinstance(n.value, complex):
                if n.value.real != 0:
                    raise Untranslatable("complex literal")
                return Cx(None, Lit(n.value.imag if n.value.imag != int(n.value.imag) else int(n.value.imag)))
            if isinstance(n.value, bool) or not isinstance(n.value, (int, float)):
                raise Untranslatable(f"literal {n.value!r}")
            lit(n.value)
            return Lit(n.value)
        if isinstance(n, ast.Name):
            if n.id in env:
                return env[n.id]
            raise Untranslatable("unknown name " + n.id)
        if isinstance(n, ast.Tuple):
            return Tup([self.e(x, env) for x in n.elts])
        if isinstance(n, ast.UnaryOp):
            if isinstance(n.op, ast.USub):
                return self.neg(self.e(n.operand, env))
            if isinstance(n.op, ast.UAdd):
                return self.num(self.e(n.operand, env))
            raise Untranslatable("unary " + type(n.op).__name__)
        if isinstance(n, ast.BinOp):
            return self.binop(n.op, self.e(n.left, env), self.e(n.right, env))
        if isinstance(n, ast.Attribute):
            o = self.e(n.value, env)
            if isinstance(o, SelfV) and n.attr == "event_data_":
                return Data()
            if isinstance(o, Data) and n.attr == "grid_" and self.lattice:
                return Grid()
            if isinstance(o, Grid) and n.attr == "shape":
                return Shape()
            if isinstance(o, PartV):
                if n.attr in PART_ATTRS:
                    return R(f"{o.t}.{PART_ATTRS[n.attr]}")
                raise Untranslatable("particle attribute " + n.attr)
            raise Untranslatable("attribute " + ast.unparse(n)[:60])
        if isinstance(n, ast.Call):
            if n.keywords:
                raise Untranslatable("keyword arguments in " + ast.unparse(n)[:60])
            cn = _callname(n)
            if cn in UNARY and len(n.args) == 1:
                return R(f"({UNARY[cn]} {self.real(self.e(n.args[0], env))})")
            if cn in BINARY and len(n.args) == 2:
                return R(f"({BINARY[cn]} {self.real(self.e(n.args[0], env))} {self.real(self.e(n.args[1], env))})")
            if cn == (None, "float") and len(n.args) == 1:
                return R(self.real(self.e(n.args[0], env)))
            if cn == (None, "complex") and len(n.args) == 2 and self.in_return:
                return Cx(self.num(self.e(n.args[0], env)), self.num(self.e(n.args[1], env)))
            if isinstance(n.func, ast.Attribute) and self.lattice and isinstance(self.e(n.func.value, env), Data):
                args = [self.e(a, env) for a in n.args]
                if len(args) != 3 or not all(isinstance(a, Idx) for a in args):
                    raise Untranslatable("lattice accessor not called with three loop indices")
                if n.func.attr == "get_coordinates":
                    return Tup([R(f"(coordX L {args[0].t})"), R(f"(coordY L {args[1].t})"),
                                Opaque("the z coordinate of a node")])
                if n.func.attr == "get_value_by_index":
                    return R(f"(L.density {args[0].t} {args[1].t} {args[2].t})")
            raise Untranslatable("call " + ast.unparse(n)[:60])
        raise Untranslatable("expression " + ast.unparse(n)[:60])

    # -------------------------------------------------------------- conditions
    def cond(self, t, env):
        if isinstance(t, ast.Constant) and isinstance(t.value, bool):
            return Cond(const=t.value)
        if isinstance(t, ast.UnaryOp) and isinstance(t.op, ast.Not):
            c = self.cond(t.operand, env)
            if c.const is not None:
                return Cond(const=not c.const)
            return Cond(text=f"(¬ {c.text})", tf=c.ff, ff=c.tf)
        if isinstance(t, ast.BoolOp):
            conj = isinstance(t.op, ast.And)
            save = self.facts
            texts, gained = [], set()
            try:
                for v in t.values:
                    self.facts = save | gained
                    c = self.cond(v, env)
                    if c.const is not None:
                        if c.const != conj:      # False in a conjunction / True in a disjunction decides it
                            return Cond(const=c.const)
                        continue                 # neutral element
                    texts.append(c.text)
                    gained |= (c.tf if conj else c.ff)
            finally:
                self.facts = save
            if not texts:
                return Cond(const=conj)
            if len(texts) == 1:
                # the other operands were neutral constants
                return Cond(text=texts[0], tf=gained if conj else (), ff=() if conj else gained) if len(t.values) > 1 \
                    else Cond(text=texts[0])
            sym = " ∧ " if conj else " ∨ "
            return Cond(text="(" + sym.join(texts) + ")", tf=gained if conj else (), ff=() if conj else gained)
        if isinstance(t, ast.Call) and _callname(t) == (None, "isinstance") and len(t.args) == 2 and not t.keywords:
            if not isinstance(self.e(t.args[0], env), Data):
                raise Untranslatable("isinstance of something other than the held data")
            ty = t.args[1]
            names = sorted(ast.unparse(x) for x in (ty.elts if isinstance(ty, ast.Tuple) else [ty]))
            if names != ["list", "np.ndarray"]:
                raise Untranslatable("isinstance against " + ", ".join(names))
            return Cond(const=not self.lattice)
        if isinstance(t, ast.Compare) and len(t.ops) == 1:
            op = t.ops[0]
            a, b = self.e(t.left, env), self.e(t.comparators[0], env)
            if isinstance(op, (ast.Is, ast.IsNot)):
                if not isinstance(b, NoneV):
                    raise Untranslatable("`is` against something other than None")
                pos = isinstance(op, ast.Is)
                if isinstance(a, OptI):
                    if ("some", a.t) in self.facts:
                        return Cond(const=not pos)
                    if ("none", a.t) in self.facts:
                        return Cond(const=pos)
                    tn, ts = {("none", a.t)}, {("some", a.t)}
                    return Cond(text=f"({a.t} = none)", tf=tn, ff=ts) if pos else Cond(text=f"({a.t} ≠ none)", tf=ts, ff=tn)
                if isinstance(a, (I, R, Lit, S)):
                    return Cond(const=not pos)   # typed model: this argument is never None
                raise Untranslatable("`is None` of " + type(a).__name__)
            if isinstance(op, (ast.Eq, ast.NotEq)):
                sym = "=" if isinstance(op, ast.Eq) else "≠"
                for x, y in ((a, b), (b, a)):
                    if isinstance(x, S) and isinstance(y, StrLit):
                        if not re.fullmatch(r"[A-Za-z0-9_ \-]*", y.s):
                            raise Untranslatable("string literal " + repr(y.s))
                        return Cond(text=f'({x.t} {sym} "{y.s}")')
                if self.is_int(a) and self.is_int(b):
                    return Cond(text=f"({self.intt(a)} {sym} {self.intt(b)})")
                raise Untranslatable("comparison " + ast.unparse(t)[:60])
            sym = {ast.Lt: "<", ast.LtE: "≤", ast.Gt: ">", ast.GtE: "≥"}.get(type(op))
            if sym and self.is_int(a) and self.is_int(b):
                return Cond(text=f"({self.intt(a)} {sym} {self.intt(b)})")
        raise Untranslatable("condition " + ast.unparse(t)[:70])

    # -------------------------------------------------------------- statements
    def assign(self, s, env):
        """Assign / AnnAssign / AugAssign to plain names (tuple unpacking allowed); returns False if `s` is none of these"""
        if isinstance(s, ast.AnnAssign) and s.value is not None and isinstance(s.target, ast.Name):
            tgt, val = [s.target], self.e(s.value, env)
        elif isinstance(s, ast.Assign) and len(s.targets) == 1:
            tgt, val = [s.targets[0]], self.e(s.value, env)
        elif isinstance(s, ast.AugAssign) and isinstance(s.target, ast.Name):
            if s.target.id not in env:
                raise Untranslatable("augmented assignment to an unknown name")
            env[s.target.id] = self.binop(s.op, env[s.target.id], self.e(s.value, env))
            return True
        else:
            return False
        t = tgt[0]
        if isinstance(t, ast.Name):
            pairs = [(t.id, val)]
        elif isinstance(t, ast.Tuple) and all(isinstance(x, ast.Name) for x in t.elts) and isinstance(val, Tup) \
                and len(val.items) == len(t.elts):
            pairs = [(x.id, v) for x, v in zip(t.elts, val.items)]
        else:
            raise Untranslatable("assignment target " + ast.unparse(t)[:40])
        for name, v in pairs:
            if isinstance(v, Tup) or isinstance(v, Cx) and not self.in_return:
                raise Untranslatable("assignment of a tuple / complex value")
            env[name] = v
        return True

    def exc(self, s):
        x = s.exc
        if isinstance(x, ast.Call):
            x = x.func
        if isinstance(x, ast.Name):
            return x.id
        raise Untranslatable("raise " + ast.unparse(s)[:50])

    def block(self, stmts, env):
        """loop-body statements -> ('ok' | 'raise', binds, env | errtext); binds = [(pattern, type, term)]"""
        env = dict(env)
        binds = []
        for s in stmts:
            if isinstance(s, ast.Expr) and isinstance(s.value, ast.Constant) or isinstance(s, ast.Pass):
                continue
            if self.assign(s, env):
                continue
            if isinstance(s, ast.Raise):
                k = self.exc(s)
                if k not in ERRS:
                    raise Untranslatable("reachable raise of " + k)
                return ("raise", binds, ERRS[k])
            if isinstance(s, ast.If):
                b = self.if_stmt(s, env)
                if b is not None:
                    binds.append(b)
                continue
            raise Untranslatable("statement " + ast.unparse(s)[:60])
        return ("ok", binds, env)

    def emit(self, res, final, ind):
        """monadic term of a block result; `final(env)` renders the value of an 'ok' block"""
        kind, binds, x = res
        pad = "  " * ind
        out = ""
        for pat, ty, term in binds:
            out += f"{pad}(show Except Err {ty} from\n{term(ind + 1)}) >>= fun {pat} =>\n"
        return out + pad + (f"Except.error {x}" if kind == "raise" else final(x))

    def if_stmt(self, s, env):
        save = self.facts
        branches = []   # (condition text | None, block result)
        neg = set()
        try:
            for test, body in pyexpr.if_chain(s):
                self.facts = save | neg
                if test is None:
                    branches.append((None, self.block(body, env)))
                    break
                c = self.cond(test, env)
                if c.const is False:
                    continue
                self.facts = save | neg | c.tf
                r = self.block(body, env)
                if c.const is True:
                    branches.append((None, r))
                    break
                branches.append((c.text, r))
                neg |= c.ff
            else:
                branches.append((None, ("ok", [], dict(env))))
        finally:
            self.facts = save
        if all(r[0] == "raise" for _, r in branches):
            raise Untranslatable("if statement whose every reachable branch raises")
        names = []
        for _, r in branches:
            if r[0] == "ok":
                for k, v in r[2].items():
                    if (k not in env or env[k] is not v) and k not in names:
                        names.append(k)
        vals = []
        for _, r in branches:
            if r[0] != "ok":
                vals.append(None)
                continue
            row = []
            for k in names:
                if k not in r[2]:
                    raise Untranslatable("a local is assigned on some branches of an if statement only")
                row.append(self.real(r[2][k]))
            vals.append(row)
        if len(branches) == 1:      # statically decided: inline
            r = branches[0][1]
            for k in names:
                env[k] = r[2][k]
            if r[1]:
                raise Untranslatable("nested if under a statically decided test")
            return None
        temps = []
        for k in names:
            self.ntemp += 1
            temps.append(f"t{self.ntemp}")
            env[k] = R(temps[-1])
        if not names:
            ty, pat = "Unit", "_"
        elif len(names) == 1:
            ty, pat = "α", temps[0]
        else:
            ty, pat = "(" + " × ".join("α" for _ in names) + ")", "(" + ", ".join(temps) + ")"

        def term(ind, branches=branches, vals=vals):
            pad = "  " * ind
            out = ""
            for i, ((c, r), row) in enumerate(zip(branches, vals)):
                fin = (lambda _env, row=row: "Except.ok (" + ", ".join(row) + ")") if row is not None else None
                body = self.emit(r, fin, ind + 1)
                if c is not None:
                    out += f"{pad}{'if' if i == 0 else 'else if'} {c} then\n{body}\n"
                else:
                    out += f"{pad}else\n{body}"
            return out
        return (pat, ty, term)

    # -------------------------------------------------------------- the function
    def run(self):
        f = self.f
        a = f.args
        if a.vararg or a.kwarg or a.kwonlyargs or a.posonlyargs:
            raise Untranslatable(f.name + ": unexpected parameter kinds")
        names = [x.arg for x in a.args]
        want = 3 if self.lattice else 4
        if len(names) != want or len(a.defaults) != want - 2:
            raise Untranslatable(f.name + ": expected (self, n, m=None" + ("" if self.lattice else ', weight_quantity="..."') + ")")
        if not (isinstance(a.defaults[0], ast.Constant) and a.defaults[0].value is None):
            raise Untranslatable(f.name + ": the default of the radial power is not None")
        self.default_wq = None
        env = {names[0]: SelfV(), names[1]: I("n"), names[2]: OptI("m")}
        if not self.lattice:
            d = a.defaults[1]
            if not (isinstance(d, ast.Constant) and isinstance(d.value, str) and re.fullmatch(r"[A-Za-z0-9_ \-]*", d.value)):
                raise Untranslatable(f.name + ": default weight quantity is not a plain string literal")
            self.default_wq = d.value
            env[names[3]] = S("wq")
        body = list(f.body)
        if body and isinstance(body[0], ast.Expr) and isinstance(body[0].value, ast.Constant) \
                and isinstance(body[0].value.value, str):
            body = body[1:]
        guards = []
        loop = None
        ret = None
        for s in body:
            if ret is not None:
                raise Untranslatable("statement after the return")
            if isinstance(s, ast.Expr) and isinstance(s.value, ast.Constant) or isinstance(s, ast.Pass):
                continue
            if isinstance(s, ast.Return):
                if loop is None or s.value is None:
                    raise Untranslatable("return before the loop / without a value")
                ret = s
                continue
            if isinstance(s, ast.If):
                if loop is not None:
                    raise Untranslatable("if statement after the loop")
                if s.orelse or len(s.body) != 1 or not isinstance(s.body[0], ast.Raise):
                    raise Untranslatable("function-level if statement that is not `if <cond>: raise ...`")
                c = self.cond(s.test, env)
                if c.const is False:
                    continue
                if c.const is True:
                    raise Untranslatable("a guard that always raises")
                k = self.exc(s.body[0])
                if k not in ERRS:
                    raise Untranslatable("reachable raise of " + k)
                guards.append((c.text, ERRS[k]))
                self.facts = self.facts | c.ff
                continue
            if isinstance(s, ast.For):
                if loop is not None or s.orelse:
                    raise Untranslatable("more than one loop / for-else")
                loop = self.loop(s, env)
                continue
            if self.assign(s, env):
                continue
            raise Untranslatable("statement " + ast.unparse(s)[:60])
        if ret is None or loop is None:
            raise Untranslatable(f.name + ": no loop / no return")
        carried, init, step = loop
        self.in_return = True
        v = self.e(ret.value, env)
        if not isinstance(v, Cx):
            v = Cx(self.num(v), None)
        re_t = lit(0) if v.re is None else self.real(v.re)
        im_t = lit(0) if v.im is None else self.real(v.im)
        # roles of the three accumulators
        if len(carried) != 3:
            raise Untranslatable(f"{len(carried)} variables live across iterations (expected the three accumulators)")

        def occurs(text):
            return [c for c in carried if PH % c in text]
        dn = sorted({c for d in self.divisors for c in occurs(d)})
        if len(dn) != 1:
            raise Untranslatable("the common divisor of the returned value is not one accumulator")
        norm = dn[0]
        rr = [c for c in occurs(re_t) if c != norm]
        ii = [c for c in occurs(im_t) if c != norm]
        if len(rr) != 1 or len(ii) != 1 or rr[0] == ii[0]:
            raise Untranslatable("real / imaginary part of the returned value are not built from one accumulator each")
        role = {rr[0]: "s.re", ii[0]: "s.im", norm: "s.norm"}
        order = [rr[0], ii[0], norm]

        def fill(t):
            for c, r_ in role.items():
                t = t.replace(PH % c, r_)
            if "⟪" in t:
                raise Untranslatable("internal: unresolved accumulator")
            return t
        tag = "L" if self.lattice else "P"
        extra = "(L : Lattice α)" if self.lattice else "(wq : String)"
        extra_a = "L" if self.lattice else "wq"
        elem = "(ix : Nat × Nat × Nat)" if self.lattice else "(p : Part α)"
        out = []
        out.append(f"/-- the accumulators before the loop of `{f.name}` -/")
        out.append(f"def init{tag} : Acc α :=\n  ⟨" + ", ".join(fill(init[c]) for c in order) + "⟩\n")
        out.append(f"/-- one pass of the loop body of `{f.name}` -/")
        fin = lambda env_: "Except.ok ⟨" + ", ".join(self.real(env_[c]) for c in order) + "⟩"
        out.append(f"def step{tag} (ops : Ops α) (n : Int) (m : Option Int) {extra} (s : Acc α) {elem} :\n"
                   f"    Except Err (Acc α) :=\n" + fill(self.emit(step, fin, 1)) + "\n")
        out.append(f"/-- the value `{f.name}` returns after the loop, as (real part, imaginary part) -/")
        g = "".join(f"  if ops.isZero {fill(d)} then Except.error Err.zerodiv else\n" for d in self.divisors)
        out.append(f"def result{tag} (ops : Ops α) (s : Acc α) : Except Err (α × α) :=\n{g}"
                   f"  Except.ok ({fill(re_t)}, {fill(im_t)})\n")
        name = "lattice" if self.lattice else "particles"
        lst = "(ndindex (shape L))" if self.lattice else "ps"
        sig = "(L : Lattice α)" if self.lattice else "(wq : String) (ps : List (Part α))"
        out.append(f"/-- `{f.name}`: argument checks, loop, returned value -/")
        gs = "".join(f"  if {c} then Except.error {e_} else\n" for c, e_ in guards)
        out.append(f"def {name} (ops : Ops α) (n : Int) (m : Option Int) {sig} :\n    Except Err (α × α) :=\n{gs}"
                   f"  ({lst}.foldlM (step{tag} ops n m {extra_a}) init{tag}) >>= result{tag} ops\n")
        return "\n".join(out)

    def loop(self, s, env):
        """returns (carried names, {name: init term}, block result of the body)"""
        if self.lattice:
            it = self.e(s.iter.args[0], env) if (isinstance(s.iter, ast.Call) and _callname(s.iter) in
                                                 (("np", "ndindex"), ("numpy", "ndindex")) and len(s.iter.args) == 1
                                                 and not s.iter.keywords) else None
            if not isinstance(it, Shape):
                raise Untranslatable("lattice loop is not `for i, j, k in np.ndindex(self.event_data_.grid_.shape)`")
            if not (isinstance(s.target, ast.Tuple) and len(s.target.elts) == 3
                    and all(isinstance(x, ast.Name) for x in s.target.elts)):
                raise Untranslatable("lattice loop target is not three names")
            binders = {x.id: Idx(t) for x, t in zip(s.target.elts, ("ix.1", "ix.2.1", "ix.2.2"))}
        else:
            if not isinstance(self.e(s.iter, env), Data) or not isinstance(s.target, ast.Name):
                raise Untranslatable("particle loop is not `for p in self.event_data_`")
            binders = {s.target.id: PartV("p")}
        stored = _stored(s.body)
        for b in binders:
            if b in stored:
                raise Untranslatable("loop variable reassigned in the body")
        carried, init = [], {}
        benv = dict(env)
        for name in stored:
            if name in env:
                if not isinstance(env[name], (Lit, R, I)):
                    raise Untranslatable("a non-numeric name is reassigned in the loop")
                carried.append(name)
                init[name] = self.real(env[name])
                benv[name] = R(PH % name)
        benv.update(binders)
        self.in_loop = True
        res = self.block(s.body, benv)
        self.in_loop = False
        if res[0] != "ok":
            raise Untranslatable("the loop body always raises")
        for name in stored + list(binders):
            env[name] = Opaque("a loop-local name after the loop")
        for name in carried:
            env[name] = R(PH % name)
        return carried, init, res


# ------------------------------------------------------------------ dispatcher
def _check_dispatch(pub, fp, fl):
    a = pub.args
    names = [x.arg for x in a.args]
    if a.vararg or a.kwarg or a.kwonlyargs or len(names) != 4 or len(a.defaults) != 2:
        raise Untranslatable("eccentricity: expected (self, n, m=None, weight_quantity=...)")
    if not (isinstance(a.defaults[0], ast.Constant) and a.defaults[0].value is None):
        raise Untranslatable("eccentricity: default of the radial power is not None")
    body = [s for s in pub.body if not (isinstance(s, ast.Expr) and isinstance(s.value, ast.Constant))]
    if len(body) == 1 and isinstance(body[0], ast.If) and len(body[0].body) == 1 and len(body[0].orelse) == 1 \
            and isinstance(body[0].body[0], ast.Return) and isinstance(body[0].orelse[0], ast.Return):
        test, yes, no = body[0].test, body[0].body[0].value, body[0].orelse[0].value
    elif len(body) == 1 and isinstance(body[0], ast.Return) and isinstance(body[0].value, ast.IfExp):
        test, yes, no = body[0].value.test, body[0].value.body, body[0].value.orelse
    else:
        raise Untranslatable("eccentricity: not `if self.has_lattice_: return <lattice> else: return <particles>`")
    if isinstance(test, ast.UnaryOp) and isinstance(test.op, ast.Not):
        test, yes, no = test.operand, no, yes
    if ast.unparse(test) != f"{names[0]}.has_lattice_":
        raise Untranslatable("eccentricity: dispatch test is not self.has_lattice_")
    for call, callee, k in ((yes, fl, 2), (no, fp, 3)):
        if not (isinstance(call, ast.Call) and ast.unparse(call.func) == f"{names[0]}.{callee.name}"):
            raise Untranslatable("eccentricity: branch does not call " + callee.name)
        params = [x.arg for x in callee.args.args][1:]
        got = {}
        for p_, v in zip(params, call.args):
            got[p_] = v
        for kw in call.keywords:
            if kw.arg is None or kw.arg in got or kw.arg not in params:
                raise Untranslatable("eccentricity: argument passing of " + callee.name)
            got[kw.arg] = kw.value
        for i in range(k):
            v = got.get(params[i])
            if not (isinstance(v, ast.Name) and v.id == names[1 + i]):
                raise Untranslatable(f"eccentricity: argument {i + 1} is not forwarded unchanged to {callee.name}")


# ------------------------------------------------------------------ rendering
PRELUDE = """-- GENERATED by harness/translate/ecc.py from src/sparkx/EventCharacteristics.py -- do not edit
import SparkxVerif.Core.Ecc

set_option linter.unusedVariables false

namespace SparkxVerif.Gen.Ecc
open SparkxVerif SparkxVerif.Ecc

variable {α : Type} [Add α] [Sub α] [Mul α] [Div α] [Neg α] [NatCast α]

/-- a numeric literal -/
def nat (k : Nat) : α := ((k : Nat) : α)

/-- a Python `int` used where a float is expected -/
def ofInt (i : Int) : α :=
  if i < 0 then -(((i.natAbs : Nat)) : α) else (((i.toNat : Nat)) : α)

/-! the `Lattice3D` accessors the lattice loop calls, through the record `Ecc.Lattice` (not translated: contract of
the hand model, `grid_.shape = (len(x_values_), len(y_values_), num_points_z)` is `Lattice.wf`) -/

/-- `self.event_data_.grid_.shape` -/
def shape (L : Lattice α) : Nat × Nat × Nat := (L.xs.length, L.ys.length, L.nz)

/-- `np.ndindex(shape)`: all index triples in C order -/
def ndindex (s : Nat × Nat × Nat) : List (Nat × Nat × Nat) :=
  (List.range s.1).flatMap fun i => (List.range s.2.1).flatMap fun j => (List.range s.2.2).map fun k => (i, j, k)

/-- first component of `get_coordinates(i, j, k)` -/
def coordX (L : Lattice α) (i : Nat) : α := L.xs.getD i (nat 0)

/-- second component of `get_coordinates(i, j, k)` -/
def coordY (L : Lattice α) (j : Nat) : α := L.ys.getD j (nat 0)

"""


def render(source: str):
    tree = ast.parse(source)
    fp = pyexpr.find_function(tree, F_PART, CLS)
    fl = pyexpr.find_function(tree, F_LAT, CLS)
    pub = pyexpr.find_function(tree, F_PUB, CLS)
    for f, nm in ((fp, F_PART), (fl, F_LAT), (pub, F_PUB)):
        if f is None:
            raise Untranslatable(nm + " not found")
    _check_dispatch(pub, fp, fl)
    tp, tl = Tr(fp, False), Tr(fl, True)
    text = PRELUDE
    text += "/-! ### `eccentricity_from_particles` -/\n\n"
    text += "/-- the default of the weight argument in the signature (the radial power defaults to `None` = omitted) -/\n"
    body_p = tp.run()
    text += f'def defaultWQ : String := "{tp.default_wq}"\n\n' + body_p
    text += "\n/-! ### `eccentricity_from_lattice` -/\n\n" + tl.run()
    text += "\nend SparkxVerif.Gen.Ecc\n"
    regions = [dict(file="EventCharacteristics.py", region=f.name, sha=pyexpr.src_hash(source, f)) for f in (fp, fl, pub)]
    return text, regions
