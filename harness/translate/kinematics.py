"""Tie T for C08: the eleven kinematic methods of Particle.py -> Gen/Kinematics.lean.

Every method is straight-line code: a NaN guard over some attributes, optional regulators
(if/else assigning a local), one returned expression, possibly `raise ValueError` / `warnings.warn`.
The extractor renders the statements AS FOUND into a Lean term of type `Res α` over the operation
class `KOps α` (Core/KinOps.lean), and emits per method
  * `guard_<m>`  : attributes tested by the leading `if np.isnan(..) or ..: return np.nan`
  * `used_<m>`   : attributes read anywhere else in the body (transitively through `self.<m>()`)
  * `sel_<m>`    : attributes only used as the left operand of `in <list of int literals>`
  * `raises_<m>` : exception classes raised.
Anything outside this fragment raises Untranslatable (the caller then falls back to the golden
model + correspondence, DESIGN 2.1 (i)).
"""
import ast

from . import pyexpr
from .pyexpr import Untranslatable

METHODS = ["p_abs", "pT_abs", "angular_momentum", "rapidity", "phi", "theta", "pseudorapidity",
           "spacetime_rapidity", "proper_time", "mass_from_energy_momentum", "mT"]
ATTRS = ["t", "x", "y", "z", "E", "px", "py", "pz"]
SEL_ATTRS = ["pdg"]

UNARY_CALLS = {  # (module, name) -> KOps function
    ("np", "sqrt"): "KOps.sqrt", ("math", "sqrt"): "KOps.sqrt",
    ("np", "log"): "KOps.log", ("math", "log"): "KOps.log",
    ("np", "arccos"): "KOps.acos", ("math", "acos"): "KOps.acos",
    ("np", "abs"): "KOps.abs", ("np", "absolute"): "KOps.abs", ("np", "fabs"): "KOps.abs",
    ("math", "fabs"): "KOps.abs", (None, "abs"): "KOps.abs",
}
BINARY_CALLS = {("math", "atan2"): "KOps.atan2", ("np", "arctan2"): "KOps.atan2"}


def _lit(v):
    if isinstance(v, bool) or not isinstance(v, (int, float)):
        raise Untranslatable(f"literal {v!r}")
    f = float(v)
    if f != f or f in (float("inf"), float("-inf")):
        raise Untranslatable("non-finite literal")
    r = repr(abs(f))
    if "e" not in r and "E" not in r and "." not in r:
        r += ".0"
    if "inf" in r or "nan" in r:
        raise Untranslatable("literal")
    return f"({r} : α)" if (f > 0 or (f == 0 and str(f)[0] != "-")) else f"(-({r} : α))"


def _callname(node):
    """np.sqrt -> ('np','sqrt'); abs -> (None,'abs'); self.m -> ('self','m')"""
    f = node.func
    if isinstance(f, ast.Name):
        return (None, f.id)
    if isinstance(f, ast.Attribute) and isinstance(f.value, ast.Name):
        return (f.value.id, f.attr)
    raise Untranslatable("call target " + ast.dump(f)[:60])


class MethodTr:
    def __init__(self, name, fdef, known):
        self.name = name
        self.f = fdef
        self.known = known  # already translated methods: name -> MethodTr
        self.used = []      # attributes read outside the leading guard
        self.sel = []
        self.calls = []
        self.raises = []
        self.guard = []

    # ---------------------------------------------------------------- expressions (type α)
    def use(self, attr):
        if attr not in self.used:
            self.used.append(attr)

    def expr(self, n, env):
        if isinstance(n, ast.Constant):
            return _lit(n.value)
        if isinstance(n, ast.Attribute) and isinstance(n.value, ast.Name):
            if n.value.id == "self" and n.attr in ATTRS:
                self.use(n.attr)
                return f"a.{n.attr}"
            if n.value.id == "np" and n.attr == "nan":
                return "(KOps.nan : α)"
            raise Untranslatable(f"attribute {n.value.id}.{n.attr}")
        if isinstance(n, ast.Name):
            if n.id in env and env[n.id][0] == "num":
                return env[n.id][1]
            raise Untranslatable(f"name {n.id}")
        if isinstance(n, ast.UnaryOp):
            if isinstance(n.op, ast.USub):
                return f"(-{self.expr(n.operand, env)})"
            if isinstance(n.op, ast.UAdd):
                return self.expr(n.operand, env)
            raise Untranslatable("unary op")
        if isinstance(n, ast.BinOp):
            if isinstance(n.op, ast.Pow):
                if isinstance(n.right, ast.Constant) and not isinstance(n.right.value, bool) \
                        and isinstance(n.right.value, (int, float)) and float(n.right.value) == 2.0:
                    return f"(KOps.sq {self.expr(n.left, env)})"
                raise Untranslatable("power other than ** 2")
            op = {ast.Add: "+", ast.Sub: "-", ast.Mult: "*", ast.Div: "/"}.get(type(n.op))
            if op is None:
                raise Untranslatable("binary op " + type(n.op).__name__)
            return f"({self.expr(n.left, env)} {op} {self.expr(n.right, env)})"
        if isinstance(n, ast.Call):
            if n.keywords:
                raise Untranslatable("keyword arguments")
            cn = _callname(n)
            if cn in UNARY_CALLS and len(n.args) == 1:
                return f"({UNARY_CALLS[cn]} {self.expr(n.args[0], env)})"
            if cn in BINARY_CALLS and len(n.args) == 2:
                return f"({BINARY_CALLS[cn]} {self.expr(n.args[0], env)} {self.expr(n.args[1], env)})"
            if cn[0] == "self" and not n.args:
                callee = self.known.get(cn[1])
                if callee is None:
                    raise Untranslatable(f"call of self.{cn[1]}() (not a translated scalar method)")
                if callee.raises or callee.returns_vec:
                    raise Untranslatable(f"self.{cn[1]}() may raise / returns a vector inside an expression")
                if cn[1] not in self.calls:
                    self.calls.append(cn[1])
                return f"(Res.toVal ({cn[1]} a))"
            raise Untranslatable(f"call {cn}")
        raise Untranslatable("expression " + ast.dump(n)[:80])

    # ---------------------------------------------------------------- conditions (Bool)
    def cond(self, n, env):
        if isinstance(n, ast.BoolOp):
            op = " || " if isinstance(n.op, ast.Or) else " && "
            return "(" + op.join(self.cond(v, env) for v in n.values) + ")"
        if isinstance(n, ast.UnaryOp) and isinstance(n.op, ast.Not):
            return f"(!{self.cond(n.operand, env)})"
        if isinstance(n, ast.Call):
            cn = _callname(n)
            if cn in (("np", "isnan"), ("math", "isnan")) and len(n.args) == 1:
                return f"(KOps.isnan {self.expr(n.args[0], env)})"
            raise Untranslatable(f"condition call {cn}")
        if isinstance(n, ast.Compare):
            if len(n.ops) != 1:
                raise Untranslatable("comparison chain")
            l, r, op = n.left, n.comparators[0], n.ops[0]
            if isinstance(op, (ast.In, ast.NotIn)):
                if isinstance(l, ast.Attribute) and isinstance(l.value, ast.Name) and l.value.id == "self" \
                        and l.attr in SEL_ATTRS:
                    if isinstance(r, ast.Name) and r.id in env and env[r.id][0] == "intlist":
                        ints = env[r.id][1]
                    elif isinstance(r, (ast.List, ast.Tuple)):
                        ints = _intlist(r)
                    else:
                        raise Untranslatable("`in` against something that is not a literal int list")
                    if l.attr not in self.sel:
                        self.sel.append(l.attr)
                    t = f"(pdgIn a.{l.attr} [{', '.join(str(i) for i in ints)}])"
                    return t if isinstance(op, ast.In) else f"(!{t})"
                raise Untranslatable("`in` test on something other than self.pdg")
            a, b = self.expr(l, env), self.expr(r, env)
            if isinstance(op, ast.Lt):
                return f"(KOps.lt {a} {b})"
            if isinstance(op, ast.Gt):
                return f"(KOps.lt {b} {a})"
            if isinstance(op, ast.LtE):
                return f"(KOps.le {a} {b})"
            if isinstance(op, ast.GtE):
                return f"(KOps.le {b} {a})"
            if isinstance(op, ast.Eq):
                return f"(KOps.eq {a} {b})"
            if isinstance(op, ast.NotEq):
                return f"(!(KOps.eq {a} {b}))"
            raise Untranslatable("comparison op")
        raise Untranslatable("condition " + ast.dump(n)[:80])

    # ---------------------------------------------------------------- statements (type Res α)
    def stmts(self, ss, env, ind):
        pad = "  " * ind
        if not ss:
            raise Untranslatable(f"{self.name}: a path falls off the end of the function (returns None)")
        s, rest = ss[0], ss[1:]
        if isinstance(s, ast.Expr):
            v = s.value
            if isinstance(v, ast.Constant) and isinstance(v.value, str):
                return self.stmts(rest, env, ind)  # docstring
            if isinstance(v, ast.Call) and _callname(v) == ("warnings", "warn"):
                return self.stmts(rest, env, ind)  # warnings are outside the observables
            raise Untranslatable("expression statement " + ast.dump(v)[:60])
        if isinstance(s, ast.Return):
            return pad + self.ret(s.value, env)
        if isinstance(s, ast.Raise):
            exc = s.exc
            cls = exc.func.id if isinstance(exc, ast.Call) and isinstance(exc.func, ast.Name) else \
                exc.id if isinstance(exc, ast.Name) else "?"
            if cls not in self.raises:
                self.raises.append(cls)
            return pad + "Res.raise"
        if isinstance(s, ast.If):
            c = self.cond(s.test, env)
            th = self.stmts(list(s.body) + rest, dict(env), ind + 1)
            el = self.stmts(list(s.orelse) + rest, dict(env), ind + 1)
            return f"{pad}if {c} then\n{th}\n{pad}else\n{el}"
        if isinstance(s, ast.Assign) and len(s.targets) == 1 and isinstance(s.targets[0], ast.Name):
            nm = s.targets[0].id
            if isinstance(s.value, (ast.List, ast.Tuple)):
                try:
                    env = dict(env)
                    env[nm] = ("intlist", _intlist(s.value))
                    return self.stmts(rest, env, ind)
                except Untranslatable:
                    pass
                if len(s.value.elts) == 3:
                    env = dict(env)
                    env[nm] = ("list3", [self.expr(e, env) for e in s.value.elts])
                    return self.stmts(rest, env, ind)
                raise Untranslatable("list literal that is neither ints nor a 3-vector")
            e = self.expr(s.value, env)
            env = dict(env)
            lean_nm = nm + "_v"
            env[nm] = ("num", lean_nm)
            return f"{pad}let {lean_nm} : α := {e}\n" + self.stmts(rest, env, ind)
        raise Untranslatable("statement " + ast.dump(s)[:80])

    def ret(self, v, env):
        if v is None:
            raise Untranslatable("bare return")
        if isinstance(v, ast.Call) and _callname(v) == ("np", "cross") and len(v.args) == 2 and not v.keywords:
            vs = []
            for arg in v.args:
                if isinstance(arg, ast.Name) and arg.id in env and env[arg.id][0] == "list3":
                    vs += env[arg.id][1]
                elif isinstance(arg, (ast.List, ast.Tuple)) and len(arg.elts) == 3:
                    vs += [self.expr(e, env) for e in arg.elts]
                else:
                    raise Untranslatable("np.cross of something that is not a literal 3-vector")
            self.returns_vec = True
            return "cross3 " + " ".join(vs)
        return f"Res.val {self.expr(v, env)}"

    # ---------------------------------------------------------------- whole method
    def run(self):
        self.returns_vec = False
        body = [s for s in self.f.body
                if not (isinstance(s, ast.Expr) and isinstance(s.value, ast.Constant) and isinstance(s.value.value, str))]
        # leading guard: `if np.isnan(self.A) or ...: return np.nan`, possibly after literal-list assignments
        k = 0
        while k < len(body) and isinstance(body[k], ast.Assign) and isinstance(body[k].value, (ast.List, ast.Tuple)):
            k += 1
        if k < len(body) and isinstance(body[k], ast.If):
            g = _guard_attrs(body[k])
            if g is not None:
                self.guard = g
        text = self.stmts(body, {}, 1)
        # attributes read by the guard test itself were recorded by expr(); remove those that occur ONLY there
        self.used = _reads_outside_guard(self.f, body[k] if self.guard else None)
        for c in self.calls:
            cal = self.known[c]
            for a_ in cal.guard + cal.used:
                if a_ not in self.used:
                    self.used.append(a_)
            for a_ in cal.sel:
                if a_ not in self.sel:
                    self.sel.append(a_)
        self.used = [a_ for a_ in ATTRS if a_ in self.used]
        self.guard = [a_ for a_ in ATTRS if a_ in self.guard]
        self.text = text
        return self


def _intlist(node):
    out = []
    for e in node.elts:
        if isinstance(e, ast.UnaryOp) and isinstance(e.op, ast.USub) and isinstance(e.operand, ast.Constant) \
                and isinstance(e.operand.value, int) and not isinstance(e.operand.value, bool):
            out.append(-e.operand.value)
        elif isinstance(e, ast.Constant) and isinstance(e.value, int) and not isinstance(e.value, bool):
            out.append(e.value)
        else:
            raise Untranslatable("non-int element")
    return out


def _isnan_attr(n):
    if isinstance(n, ast.Call) and isinstance(n.func, ast.Attribute) and n.func.attr == "isnan" and len(n.args) == 1:
        a = n.args[0]
        if isinstance(a, ast.Attribute) and isinstance(a.value, ast.Name) and a.value.id == "self" and a.attr in ATTRS:
            return a.attr
    return None


def _guard_attrs(ifnode):
    """attributes of a leading `if isnan(self.A) or isnan(self.B) ...: return np.nan`; None if not of that shape"""
    body = ifnode.body
    if not (len(body) == 1 and isinstance(body[0], ast.Return) and isinstance(body[0].value, ast.Attribute)
            and isinstance(body[0].value.value, ast.Name) and body[0].value.value.id == "np" and body[0].value.attr == "nan"):
        return None
    t = ifnode.test
    parts = t.values if isinstance(t, ast.BoolOp) and isinstance(t.op, ast.Or) else [t]
    out = []
    for p in parts:
        a = _isnan_attr(p)
        if a is None:
            return None
        out.append(a)
    return out


def _reads_outside_guard(fdef, guard_if):
    skip = set()
    if guard_if is not None:
        for n in ast.walk(guard_if.test):
            skip.add(id(n))
    out = []
    for n in ast.walk(fdef):
        if id(n) in skip:
            continue
        if isinstance(n, ast.Attribute) and isinstance(n.value, ast.Name) and n.value.id == "self" and n.attr in ATTRS \
                and isinstance(n.ctx, ast.Load):
            if n.attr not in out:
                out.append(n.attr)
    return out


def extract(source: str):
    tree = ast.parse(source)
    known = {}
    regions = []
    pending = list(METHODS)
    # callees first: retry until no progress
    progress = True
    errs = {}
    while pending and progress:
        progress = False
        errs = {}
        for m in list(pending):
            f = pyexpr.find_function(tree, m, "Particle")
            if f is None:
                raise Untranslatable(f"method {m} not found")
            try:
                tr = MethodTr(m, f, known).run()
            except Untranslatable as e:
                errs[m] = str(e)
                continue
            known[m] = tr
            pending.remove(m)
            progress = True
            regions.append(dict(file="Particle.py", region=m, sha=pyexpr.src_hash(source, f)))
    if pending:
        # report the methods that fail on their own (not merely because a callee failed)
        own = {m: e for m, e in errs.items() if "not a translated scalar method" not in e} or errs
        raise Untranslatable("; ".join(f"{m}: {e}" for m, e in own.items()))
    order = list(known)  # dependency order
    return known, order, regions


def render(source: str):
    known, order, regions = extract(source)
    L = ["-- GENERATED by harness/translate/kinematics.py from src/sparkx/Particle.py -- do not edit",
         "import SparkxVerif.Core.KinOps", "", "namespace SparkxVerif.Gen.Kin", "open SparkxVerif.Kin", "",
         "variable {α : Type} [KOps α]", ""]
    for m in order:
        tr = known[m]
        L.append(f"/-- `Particle.{m}` as written in the source -/")
        L.append(f"def {m} (a : Attrs α) : Res α :=\n{tr.text}")
        L.append("")
    for m in METHODS:
        tr = known[m]
        L.append(f"def guard_{m} : List Attr := [{', '.join('.' + a for a in tr.guard)}]")
        L.append(f"def used_{m} : List Attr := [{', '.join('.' + a for a in tr.used)}]")
        L.append(f"def sel_{m} : List String := [{', '.join(chr(34) + a + chr(34) for a in tr.sel)}]")
        L.append(f"def raises_{m} : List String := [{', '.join(chr(34) + a + chr(34) for a in tr.raises)}]")
    L.append("")
    L.append("end SparkxVerif.Gen.Kin")
    info = {m: dict(guard=known[m].guard, used=known[m].used, sel=known[m].sel, raises=known[m].raises,
                    calls=known[m].calls) for m in METHODS}
    return "\n".join(L) + "\n", regions, info
