"""Tie T for C03/C05: src/sparkx/Filter.py -> lean/SparkxVerif/Gen/Filters.lean

For every particle-level filter the extractor finds, in source order, each `for` loop over the events, its
*shape* (in-place assignment / append inside the loop / append after the loop) and the condition of each list
comprehension in it, and renders the condition over the particle interface of Core/Filter.lean with Python's
NaN / int() / truthiness / short-circuit semantics.  Argument validation, the `None -> inf`, `min/max`
preludes and the two event-level cuts are hand-written in Core (tie C); their source text is hashed and
compared with the recorded template so that a change there is reported.
"""
import ast
import hashlib

from .pyexpr import Untranslatable

INT_ATTRS = {"charge", "pdg", "ncoll", "status"}
FLOAT_ATTRS = {"t", "x", "y", "z", "E"}
FLOAT_METHODS = {"pT_abs": "pT", "mT": "mT", "rapidity": "rap", "pseudorapidity": "eta"}
RAISING_FLOAT_METHODS = {"spacetime_rapidity": "etasOf"}  # documented ValueError for |z| >= t
BOOL_METHODS = {"is_hadron": "isHadron", "is_lepton": "isLepton", "is_quark": "isQuark", "is_meson": "isMeson",
                "is_baryon": "isBaryon", "has_up": "hasUp", "has_down": "hasDown", "has_strange": "hasStrange",
                "has_charm": "hasCharm", "has_bottom": "hasBottom", "has_top": "hasTop"}

PARTICLE_FILTERS = [
    "charged_particles", "uncharged_particles", "particle_species", "remove_particle_species", "participants",
    "spectators", "spacetime_cut", "pT_cut", "mT_cut", "rapidity_cut", "pseudorapidity_cut",
    "spacetime_rapidity_cut", "particle_status", "keep_hadrons", "keep_leptons", "keep_quarks", "keep_mesons",
    "keep_baryons", "keep_up", "keep_down", "keep_strange", "keep_charm", "keep_bottom", "keep_top", "remove_photons",
]
EVENT_FILTERS = ["lower_event_energy_cut", "multiplicity_cut"]


class Operand:
    def __init__(self, term, ty):
        self.term = term  # Lean term
        self.ty = ty      # xi | i(E) | xf | f | e | li | ci | tri


class CondPrinter:
    """Translate one comprehension condition; collects free names with inferred Lean types."""

    def __init__(self, elem="elem"):
        self.elem = elem
        self.free = {}  # name -> lean type

    def name_ty(self, name, want):
        prev = self.free.get(name)
        if prev and prev != want:
            raise Untranslatable(f"name {name} used at two types {prev}/{want}")
        self.free[name] = want

    def operand(self, n, hint=None):
        if isinstance(n, ast.Attribute) and isinstance(n.value, ast.Name) and n.value.id == self.elem:
            if n.attr in INT_ATTRS:
                return Operand(f"{self.elem}.{n.attr}", "xi")
            if n.attr in FLOAT_ATTRS:
                return Operand(f"{self.elem}.{n.attr}", "xf")
            raise Untranslatable(f"attribute {n.attr}")
        if isinstance(n, ast.Call):
            f = n.func
            if isinstance(f, ast.Attribute) and isinstance(f.value, ast.Name) and f.value.id == self.elem and not n.args:
                if f.attr in FLOAT_METHODS:
                    return Operand(f"{self.elem}.{FLOAT_METHODS[f.attr]}", "xf")
                if f.attr in RAISING_FLOAT_METHODS:
                    return Operand(f"({RAISING_FLOAT_METHODS[f.attr]} {self.elem})", "xfE")
                if f.attr in BOOL_METHODS:
                    return Operand(f"{self.elem}.{BOOL_METHODS[f.attr]}", "tri")
                raise Untranslatable(f"method {f.attr}")
            if isinstance(f, ast.Name) and f.id == "int" and len(n.args) == 1:
                a = self.operand(n.args[0])
                if a.ty != "xi":
                    raise Untranslatable("int() of a non-integer attribute")
                return Operand(f"(intOf {a.term})", "iE")
            raise Untranslatable("call " + ast.dump(n)[:60])
        if isinstance(n, ast.Constant) and isinstance(n.value, int) and not isinstance(n.value, bool):
            return Operand(f"({n.value} : Int)", "ci")
        if isinstance(n, ast.Name):
            want = hint or "f"
            lean_ty = {"e": "Ext α", "f": "α", "i": "Int", "li": "List Int"}[want]
            self.name_ty(n.id, lean_ty)
            return Operand(n.id, want)
        if isinstance(n, ast.UnaryOp) and isinstance(n.op, ast.USub) and isinstance(n.operand, ast.Name):
            self.name_ty(n.operand.id, "α")
            return Operand(f"(-{n.operand.id})", "f")
        raise Untranslatable("operand " + ast.dump(n)[:80])

    def cmp(self, left, op, right):
        """one binary comparison -> Lean term of type Except Err Bool"""
        # decide hints for bare names from the other side
        def hint_for(other):
            if isinstance(other, (ast.Attribute, ast.Call)):
                o = self.operand(other)
                if o.ty in ("xf", "xfE"):
                    return None  # decided by name below
                if o.ty in ("xi", "iE"):
                    return "li" if isinstance(op, (ast.In, ast.NotIn)) else "i"
            return None

        def float_name_hint(n):
            # lim_min / lim_max are extended limits, anything else a plain number
            if isinstance(n, ast.Name):
                return "e" if n.id in ("lim_min", "lim_max") else "f"
            return None

        lh = hint_for(right) or float_name_hint(left)
        rh = hint_for(left) or float_name_hint(right)
        a = self.operand(left, lh)
        b = self.operand(right, rh)
        binds = ""
        if a.ty == "xfE":
            binds += f"let va ← {a.term}; "
            a = Operand("va", "xf")
        if b.ty == "xfE":
            binds += f"let vb ← {b.term}; "
            b = Operand("vb", "xf")
        t = (a.ty, type(op).__name__, b.ty)
        pure = (lambda s: f"(do {binds}pure ({s}))") if binds else (lambda s: f"(pure ({s}))")
        if t == ("xi", "NotEq", "ci"):
            return pure(f"neXI {a.term} {b.term}")
        if t == ("xi", "Eq", "ci"):
            return pure(f"eqXI {a.term} {b.term}")
        if t == ("xi", "Eq", "i"):
            return pure(f"eqXI {a.term} {b.term}")
        if t == ("xi", "NotEq", "i"):
            return pure(f"neXI {a.term} {b.term}")
        if t == ("xi", "In", "li"):
            return pure(f"memXI {a.term} {b.term}")
        if t == ("xi", "NotIn", "li"):
            return pure(f"!(memXI {a.term} {b.term})")
        if a.ty == "iE" and b.ty in ("i", "ci"):
            if isinstance(op, ast.Eq):
                return f"(do let v ← {a.term}; pure (v == {b.term}))"
            if isinstance(op, ast.NotEq):
                return f"(do let v ← {a.term}; pure (v != {b.term}))"
        if a.ty == "iE" and b.ty == "li":
            if isinstance(op, ast.In):
                return f"(do let v ← {a.term}; pure (({b.term}).contains v))"
            if isinstance(op, ast.NotIn):
                return f"(do let v ← {a.term}; pure (!(({b.term}).contains v)))"
        if t == ("e", "LtE", "xf"):
            return pure(f"leEX {a.term} {b.term}")
        if t == ("xf", "LtE", "e"):
            return pure(f"leXE {a.term} {b.term}")
        if t == ("f", "LtE", "xf"):
            return pure(f"leFX {a.term} {b.term}")
        if t == ("xf", "LtE", "f"):
            return pure(f"leXF {a.term} {b.term}")
        raise Untranslatable(f"comparison {t}")

    def expr(self, n):
        if isinstance(n, ast.BoolOp):
            parts = [self.expr(v) for v in n.values]
            comb = "andE" if isinstance(n.op, ast.And) else "orE"
            out = parts[-1]
            for p in reversed(parts[:-1]):
                out = f"({comb} {p} (fun _ => {out}))"
            return out
        if isinstance(n, ast.UnaryOp) and isinstance(n.op, ast.Not):
            return f"(notE {self.expr(n.operand)})"
        if isinstance(n, ast.Compare):
            items = [n.left] + list(n.comparators)
            parts = [self.cmp(items[i], n.ops[i], items[i + 1]) for i in range(len(n.ops))]
            out = parts[-1]
            for p in reversed(parts[:-1]):
                out = f"(andE {p} (fun _ => {out}))"
            return out
        if isinstance(n, ast.Call) and isinstance(n.func, ast.Attribute) and isinstance(n.func.value, ast.Name) \
                and n.func.value.id == "np" and n.func.attr == "isnan" and len(n.args) == 1:
            a = self.operand(n.args[0])
            if a.ty == "xfE":
                return f"(do let va ← {a.term}; pure (isnan va))"
            if a.ty in ("xi", "xf", "tri"):
                return f"(pure (isnan {a.term}))"
            raise Untranslatable("isnan of " + a.ty)
        # bare truthiness of a bool-or-NaN method
        if isinstance(n, ast.Call):
            a = self.operand(n)
            if a.ty == "tri":
                return f"(pure (truthy {a.term}))"
        raise Untranslatable("condition " + ast.dump(n)[:80])


def _comprehension(value):
    """[elem for elem in particle_list[i] if COND] -> (elemname, COND)"""
    if not (isinstance(value, ast.ListComp) and len(value.generators) == 1):
        return None
    g = value.generators[0]
    if not (isinstance(value.elt, ast.Name) and isinstance(g.target, ast.Name) and value.elt.id == g.target.id):
        raise Untranslatable("comprehension does not return its own element (particles altered / duplicated?)")
    it = g.iter
    if not (isinstance(it, ast.Subscript) and isinstance(it.value, ast.Name) and it.value.id == "particle_list"
            and isinstance(it.slice, ast.Name)):
        raise Untranslatable("comprehension does not iterate over particle_list[i]")
    if len(g.ifs) != 1:
        raise Untranslatable("comprehension without exactly one condition")
    return g.target.id, g.ifs[0], it.slice.id


def _loops(stmts, out, tagctx=None):
    """walk statements in order; record each `for i in range(0, len(particle_list))` loop"""
    for idx, st in enumerate(stmts):
        if isinstance(st, ast.For):
            ok = (isinstance(st.target, ast.Name) and isinstance(st.iter, ast.Call) and isinstance(st.iter.func, ast.Name)
                  and st.iter.func.id == "range" and len(st.iter.args) == 2
                  and isinstance(st.iter.args[0], ast.Constant) and st.iter.args[0].value == 0
                  and ast.unparse(st.iter.args[1]) == "len(particle_list)")
            if not ok:
                raise Untranslatable("loop header is not `for i in range(0, len(particle_list))`: " + ast.unparse(st.iter))
            ivar = st.target.id
            comps = []  # (tag, elem, cond)
            shape = None
            tmpname = None

            def scan(body, tag):
                nonlocal shape, tmpname
                for b in body:
                    if isinstance(b, ast.Assign) and len(b.targets) == 1:
                        c = _comprehension(b.value)
                        if c is None:
                            raise Untranslatable("assignment in loop is not a filter comprehension")
                        if c[2] != ivar:
                            raise Untranslatable("comprehension indexes particle_list with another variable")
                        tgt = b.targets[0]
                        if isinstance(tgt, ast.Subscript) and isinstance(tgt.value, ast.Name) and tgt.value.id == "particle_list" \
                                and isinstance(tgt.slice, ast.Name) and tgt.slice.id == ivar:
                            if shape not in (None, "inPlace"):
                                raise Untranslatable("mixed loop shapes")
                            shape = "inPlace"
                        elif isinstance(tgt, ast.Name):
                            tmpname = tgt.id
                        else:
                            raise Untranslatable("unexpected assignment target")
                        comps.append((tag, c[0], c[1]))
                    elif isinstance(b, ast.If):
                        cur = b
                        while True:
                            t = cur.test
                            if not (isinstance(t, ast.Compare) and isinstance(t.left, ast.Name) and t.left.id == "dim"
                                    and isinstance(t.ops[0], ast.Eq) and isinstance(t.comparators[0], ast.Constant)):
                                raise Untranslatable("if inside loop is not a `dim == '..'` dispatch")
                            scan(cur.body, t.comparators[0].value)
                            if len(cur.orelse) == 1 and isinstance(cur.orelse[0], ast.If):
                                cur = cur.orelse[0]
                                continue
                            if cur.orelse:
                                scan(cur.orelse, "else")
                            break
                    elif isinstance(b, ast.Expr) and isinstance(b.value, ast.Call) and isinstance(b.value.func, ast.Attribute) \
                            and b.value.func.attr == "append" and len(b.value.args) == 1 and isinstance(b.value.args[0], ast.Name):
                        if b.value.args[0].id != tmpname:
                            raise Untranslatable("append of something that is not the comprehension result")
                        shape = "append"
                    else:
                        raise Untranslatable("unexpected statement in loop: " + ast.unparse(b)[:60])

            scan(st.body, "")
            if shape is None:
                # is the append right after the loop (same block)?
                nxt = stmts[idx + 1] if idx + 1 < len(stmts) else None
                if (nxt is not None and isinstance(nxt, ast.Expr) and isinstance(nxt.value, ast.Call)
                        and isinstance(nxt.value.func, ast.Attribute) and nxt.value.func.attr == "append"
                        and len(nxt.value.args) == 1 and isinstance(nxt.value.args[0], ast.Name)
                        and nxt.value.args[0].id == tmpname):
                    shape = "appendAfter"
                else:
                    raise Untranslatable("loop result is neither assigned in place nor appended")
            out.append((shape, comps))
        elif isinstance(st, ast.If):
            cur = st
            while True:
                _loops(cur.body, out)
                if len(cur.orelse) == 1 and isinstance(cur.orelse[0], ast.If):
                    cur = cur.orelse[0]
                    continue
                _loops(cur.orelse, out)
                break


def _strip_doc(body):
    if body and isinstance(body[0], ast.Expr) and isinstance(getattr(body[0], "value", None), ast.Constant) \
            and isinstance(body[0].value.value, str):
        return body[1:]
    return body


def skeleton_hash(fn):
    """hash of the function with every comprehension condition blanked: the part modelled by hand"""
    import copy
    f = copy.deepcopy(fn)
    f.body = _strip_doc(f.body)
    for n in ast.walk(f):
        if isinstance(n, ast.ListComp):
            for g in n.generators:
                g.ifs = [ast.Constant(value=True)]
    return hashlib.sha256(ast.dump(f).encode()).hexdigest()[:16]


def extract(source):
    tree = ast.parse(source)
    funcs = {f.name: f for f in tree.body if isinstance(f, ast.FunctionDef)}
    result = {}
    regions = []
    for name in PARTICLE_FILTERS:
        if name not in funcs:
            raise Untranslatable(f"filter {name} not found")
        fn = funcs[name]
        loops = []
        _loops(_strip_doc(fn.body), loops)
        if not loops:
            raise Untranslatable(f"{name}: no event loop found")
        result[name] = loops
        regions.append(dict(file="Filter.py", region=name, sha=hashlib.sha256(ast.dump(fn).encode()).hexdigest()[:16],
                            skeleton_sha=skeleton_hash(fn)))
    for name in EVENT_FILTERS + ["__ensure_tuple_is_valid_else_raise_error"]:
        if name not in funcs:
            raise Untranslatable(f"{name} not found")
        fn = funcs[name]
        regions.append(dict(file="Filter.py", region=name, sha=hashlib.sha256(ast.dump(fn).encode()).hexdigest()[:16],
                            skeleton_sha=skeleton_hash(fn)))
    extra = sorted(set(funcs) - set(PARTICLE_FILTERS) - set(EVENT_FILTERS) - {"__ensure_tuple_is_valid_else_raise_error"})
    return result, regions, extra


def render(source):
    result, regions, extra = extract(source)
    L = ["-- GENERATED by harness/translate/filters.py from src/sparkx/Filter.py -- do not edit",
         "import SparkxVerif.Core.Filter", "", "namespace SparkxVerif.Gen.Filters", "open SparkxVerif.Flt", "",
         "variable {α : Type} [LE α] [LT α] [DecidableLE α] [DecidableLT α] [Neg α]", ""]
    index = {}
    for name in PARTICLE_FILTERS:
        for k, (shape, comps) in enumerate(result[name]):
            L.append(f"def {name}_shape_{k} : LoopShape := .{shape}")
            for tag, elem, cond in comps:
                pr = CondPrinter(elem)
                body = pr.expr(cond)
                binders = "".join(f" ({n} : {t})" for n, t in sorted(pr.free.items()))
                suffix = f"_{tag}" if tag else ""
                dname = f"{name}_cond_{k}{suffix}"
                L.append(f"/-- `{ast.unparse(cond)}` -/")
                L.append(f"def {dname}{binders} ({elem} : Part α) : Except Err Bool :=\n  {body}")
                index[dname] = sorted(pr.free.items())
            L.append("")
    L.append("end SparkxVerif.Gen.Filters")
    return "\n".join(L) + "\n", regions, index, extra
