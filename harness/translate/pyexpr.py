"""Python arithmetic expression (ast) -> Lean 4 term text.

Two printers over the same AST so that the theorem side (any CommRing) and the
executable side (Float) are guaranteed to be renderings of the same source text:

  mode="ring"  : numerals `(6 : R)`, `x ** 2.0` -> `x ^ 2`, names via `env`
  mode="float" : numerals `(6.0 : Float)`, `x ** 2.0` -> `Float.pow x 2.0`

Anything outside the small arithmetic fragment raises Untranslatable, which the
caller reports as "tie T broken" (never silently skipped).
"""
import ast


class Untranslatable(Exception):
    pass


def _num_ring(v):
    if isinstance(v, bool):
        raise Untranslatable("bool literal")
    if isinstance(v, int):
        return f"({v} : R)" if v >= 0 else f"(-{-v} : R)"
    if isinstance(v, float):
        if v != v or v in (float("inf"), float("-inf")):
            raise Untranslatable("non-finite literal")
        if v == int(v):
            return _num_ring(int(v))
        raise Untranslatable(f"non-integral float literal {v!r} in ring mode")
    raise Untranslatable(f"literal {v!r}")


def _num_float(v):
    if isinstance(v, bool):
        raise Untranslatable("bool literal")
    if isinstance(v, (int, float)):
        f = float(v)
        if f != f or f in (float("inf"), float("-inf")):
            raise Untranslatable("non-finite literal")
        r = repr(abs(f))
        if "e" in r or "E" in r:
            # Lean accepts scientific literals like 1e-9
            pass
        elif "." not in r:
            r += ".0"
        return f"({r} : Float)" if f >= 0 and str(f)[0] != "-" else f"(-{r} : Float)"
    raise Untranslatable(f"literal {v!r}")


def _num_generic(v):
    """numerals as casts of naturals: ((6 : Nat) : α); non-integral floats as exact dyadic ratios"""
    if isinstance(v, bool):
        raise Untranslatable("bool literal")
    if isinstance(v, int):
        return f"((({v} : Nat) : α))" if v >= 0 else f"(-(({-v} : Nat) : α))"
    if isinstance(v, float):
        if v != v or v in (float("inf"), float("-inf")):
            raise Untranslatable("non-finite literal")
        if v == int(v) and abs(v) < 2 ** 53:
            return _num_generic(int(v))
        a, b = abs(v).as_integer_ratio()
        t = f"((({a} : Nat) : α) / (({b} : Nat) : α))"
        return t if v > 0 else f"(-{t})"
    raise Untranslatable(f"literal {v!r}")


class Printer:
    """env(node) -> str | None lets the caller map Names/Subscripts/Calls to Lean terms."""

    def __init__(self, mode, env):
        assert mode in ("ring", "float", "generic")
        self.mode = mode
        self.env = env

    def num(self, v):
        if self.mode == "generic":
            return _num_generic(v)
        return _num_ring(v) if self.mode == "ring" else _num_float(v)

    def p(self, node):
        r = self.env(node, self)
        if r is not None:
            return r
        if isinstance(node, ast.Constant):
            return self.num(node.value)
        if isinstance(node, ast.UnaryOp):
            if isinstance(node.op, ast.USub):
                return f"(-{self.p(node.operand)})"
            if isinstance(node.op, ast.UAdd):
                return self.p(node.operand)
            raise Untranslatable(ast.dump(node.op))
        if isinstance(node, ast.BinOp):
            a = node.left
            b = node.right
            if isinstance(node.op, ast.Add):
                return f"({self.p(a)} + {self.p(b)})"
            if isinstance(node.op, ast.Sub):
                return f"({self.p(a)} - {self.p(b)})"
            if isinstance(node.op, ast.Mult):
                return f"({self.p(a)} * {self.p(b)})"
            if isinstance(node.op, ast.Div):
                if self.mode == "ring":
                    return f"({self.p(a)} / {self.p(b)})"
                return f"({self.p(a)} / {self.p(b)})"
            if isinstance(node.op, ast.Pow):
                if self.mode == "generic":
                    if isinstance(b, ast.Constant) and isinstance(b.value, (int, float)) \
                            and not isinstance(b.value, bool) and b.value == int(b.value) and b.value >= 0:
                        return f"(npow {self.p(a)} {int(b.value)})"
                    raise Untranslatable("non-constant / non-natural exponent")
                if self.mode == "ring":
                    if isinstance(b, ast.Constant) and isinstance(b.value, (int, float)) \
                            and not isinstance(b.value, bool) and b.value == int(b.value) and b.value >= 0:
                        return f"({self.p(a)} ^ {int(b.value)})"
                    raise Untranslatable("non-constant / non-natural exponent in ring mode")
                if isinstance(b, ast.Constant) and isinstance(b.value, int) and not isinstance(b.value, bool):
                    # python float ** int literal
                    return f"(Float.pow {self.p(a)} {_num_float(b.value)})"
                return f"(Float.pow {self.p(a)} {self.p(b)})"
            raise Untranslatable(ast.dump(node.op))
        raise Untranslatable(ast.dump(node)[:80])


def find_function(tree, name, cls=None):
    """Return the FunctionDef `name` (optionally inside class `cls`); name-mangled privates accepted."""
    for node in ast.walk(tree):
        if isinstance(node, ast.ClassDef) and (cls is None or node.name == cls):
            for f in node.body:
                if isinstance(f, ast.FunctionDef) and f.name == name:
                    return f
        if cls is None and isinstance(node, ast.FunctionDef) and node.name == name:
            return node
    return None


def if_chain(stmt):
    """Flatten `if a: A elif b: B else: C` into [(test, body), ..., (None, else_body)]."""
    out = []
    cur = stmt
    while True:
        out.append((cur.test, cur.body))
        if len(cur.orelse) == 1 and isinstance(cur.orelse[0], ast.If):
            cur = cur.orelse[0]
            continue
        if cur.orelse:
            out.append((None, cur.orelse))
        break
    return out


def src_hash(source_text, node):
    import hashlib
    seg = ast.get_source_segment(source_text, node) or ""
    return hashlib.sha256(seg.encode()).hexdigest()[:16]
