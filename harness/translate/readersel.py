"""Tie T for C02: the event-selection arithmetic of `loader/OscarLoader.py` and `loader/JetscapeLoader.py`
-> lean/SparkxVerif/Gen/ReaderSelGen.lean.

What is regenerated from the CURRENT source (stdlib `ast`, typed symbolic execution, one run per selector form
`events` absent / `events=k` / `events=(a, b)`: the `isinstance(...)` and `"events" in ...` tests are decided per form,
everything else becomes Lean):

  load                    the `if` statements that validate the `events` keyword        -> genValid<L>
  _get_num_skip_lines     whole body (if chain, counting loop or `sum(...)`)             -> genSkip<L>
  __get_num_read_lines    whole body (np.sum form, int form, tuple loop, JETSCAPE's +1)   -> genNread<L>
  set_particle_list       the statements BEFORE the line loop: slicing of the counts rows, `num_events_`,
                          `first_label` (the variable the loop adds to `len(particle_list)` in the count rows),
                          Oscar: the start value of the variable appended to `loaded_event_indices_`
                                                                                         -> genPrelude<L>, genEventIndexOscar
                          the tuple written into a count row by the loop                 -> genCountRow<L><n>
                          JETSCAPE: the statements that compute `first_event_header`      -> genFirstHeaderJetscape
  OscarLoader.impact_parameter   the final `[impact_parameters[i] for i in self.loaded_event_indices_]`
                                                                                         -> genImpactPick

The line loop itself (classification by content, filters, `closeEvent`) is the shared hand-written reader model.
Row accesses `rows[i, c]` / `rows[i][c]` become `npRow` (numpy index check, negative indices wrap), slices `rows[s:e]`
`npSlice`, counting loops `forAcc` over `pyRangeI` (first exception ends the loop), exceptions `.error .value/.type/.index`.
Anything outside this fragment raises `Untranslatable` (-> golden model, tie = correspondence only).
"""
import ast
import hashlib

SRC_OSCAR = "loader/OscarLoader.py"
SRC_JETSCAPE = "loader/JetscapeLoader.py"
ROWS_ATTR = "num_output_per_event_"
NEV_ATTR = "num_events_"
OPTS_ATTR = "optional_arguments_"
IDX_ATTR = "loaded_event_indices_"
ERR_KINDS = {"ValueError": "value", "TypeError": "type", "IndexError": "index"}


class Untranslatable(Exception):
    pass


# ----------------------------------------------------------------------------- symbolic values
class IntV:
    def __init__(self, lean):
        self.lean = lean


class RowsV:
    def __init__(self, lean):
        self.lean = lean


class RowV:
    def __init__(self, var):
        self.var = var


class TupV:
    def __init__(self, items):
        self.items = items


class OptsV:
    pass


class KeysV:
    pass


class StrV:
    def __init__(self, s):
        self.s = s


class OpaqueV:
    def __init__(self, why):
        self.why = why


class NpSumV:
    """np.sum(rows, axis=0)"""
    def __init__(self, rows):
        self.rows = rows


def num(n):
    return f"({n} : Int)" if n >= 0 else f"(-{-n} : Int)"


def _seg(src, node):
    return ast.get_source_segment(src, node) or ""


def _sha(text):
    return hashlib.sha256(text.encode()).hexdigest()[:16]


# ----------------------------------------------------------------------------- trees
def render(t):
    k = t[0]
    if k == "ok":
        return f".ok {t[1]}" if t[1] == "()" else f".ok ({t[1]})"
    if k == "err":
        return f".error .{t[1]}"
    if k == "if":
        return f"if {t[1]} then {render(t[2])} else {render(t[3])}"
    if k == "bind":
        return f"eBind ({t[1]}) (fun {t[2]} => {render(t[3])})"
    raise Untranslatable(f"internal: tree node {k}")


class _Val(Exception):
    pass


class Exec:
    """symbolic executor for one function and one selector form"""

    def __init__(self, mode, what):
        self.mode = mode
        self.what = what
        self.nr = 0
        self.nacc = 0
        self.in_loop = False
        self.on_return = None
        self.on_for = None          # prelude mode: called at the first `for`

    def fail(self, msg, node=None):
        ln = f" (line {node.lineno})" if node is not None and hasattr(node, "lineno") else ""
        raise Untranslatable(f"{self.what} [{self.mode}]: {msg}{ln}")

    def sel_value(self, node=None):
        if self.mode == "one":
            return IntV("k")
        if self.mode == "range":
            return TupV([IntV("a"), IntV("b")])
        self.fail("the selector is read although `events` is absent", node)

    # ------------------------------------------------------------------ expressions (CPS: k(value) -> tree)
    def ev(self, e, env, k):
        if isinstance(e, ast.Constant):
            if isinstance(e.value, bool) or e.value is None:
                return k(OpaqueV("const"))
            if isinstance(e.value, int):
                return k(IntV(num(e.value)))
            if isinstance(e.value, str):
                return k(StrV(e.value))
            self.fail(f"literal {e.value!r}", e)
        if isinstance(e, ast.Name):
            if e.id not in env:
                self.fail(f"unknown name `{e.id}`", e)
            return k(env[e.id])
        if isinstance(e, ast.Attribute):
            if isinstance(e.value, ast.Name) and e.value.id == "self":
                return k(env.get("self." + e.attr, OpaqueV("self." + e.attr)))
            self.fail(f"attribute {ast.unparse(e)}", e)
        if isinstance(e, ast.Tuple):
            return self.ev_list(e.elts, env, lambda vs: k(TupV(vs)))
        if isinstance(e, ast.List):
            if not e.elts:
                return k(OpaqueV("list"))
            self.fail("list literal", e)
        if isinstance(e, ast.UnaryOp) and isinstance(e.op, ast.USub):
            return self.ev(e.operand, env, lambda v: k(IntV(f"(-{self.as_int(v, e).lean})")))
        if isinstance(e, ast.BinOp):
            ops = {ast.Add: "+", ast.Sub: "-", ast.Mult: "*"}
            if type(e.op) not in ops:
                self.fail(f"operator {type(e.op).__name__}", e)
            o = ops[type(e.op)]
            return self.ev(e.left, env, lambda l: self.ev(e.right, env, lambda r: k(
                IntV(f"({self.as_int(l, e).lean} {o} {self.as_int(r, e).lean})"))))
        if isinstance(e, ast.Subscript):
            return self.ev(e.value, env, lambda v: self.subscript(v, e, env, k))
        if isinstance(e, ast.Call):
            return self.call(e, env, k)
        self.fail(f"expression {type(e).__name__}: {ast.unparse(e)[:60]}", e)

    def ev_list(self, es, env, k, acc=None):
        acc = acc or []
        if not es:
            return k(acc)
        return self.ev(es[0], env, lambda v: self.ev_list(es[1:], env, k, acc + [v]))

    def as_int(self, v, node):
        if isinstance(v, IntV):
            return v
        self.fail(f"an integer is needed, got {type(v).__name__}" + (f" ({v.why})" if isinstance(v, OpaqueV) else ""), node)

    def pure(self, e, env):
        """value of an expression that must not access rows (conditions, bounds)"""
        def k(v):
            raise _Val(v)
        try:
            self.ev(e, env, k)
        except _Val as r:
            return r.args[0]
        self.fail("internal: no value", e)

    def pure_int(self, e, env):
        # a row access inside would have produced a `bind` around the raise and is lost -> detect by counting
        n0 = self.nr
        v = self.as_int(self.pure(e, env), e)
        if self.nr != n0:
            self.fail("row access inside a condition / bound", e)
        return v

    def fresh_row(self):
        self.nr += 1
        return f"r{self.nr}"

    def const_index(self, s):
        if isinstance(s, ast.Constant) and isinstance(s.value, int) and not isinstance(s.value, bool):
            return s.value
        return None

    def subscript(self, v, e, env, k):
        s = e.slice
        if isinstance(v, OptsV):
            if isinstance(s, ast.Constant) and s.value == "events":
                return k(self.sel_value(e))
            return k(OpaqueV("option " + ast.unparse(s)))
        if isinstance(v, TupV):
            c = self.const_index(s)
            if c is None or not -len(v.items) <= c < len(v.items):
                self.fail("tuple index", e)
            return k(v.items[c])
        if isinstance(v, RowV):
            c = self.const_index(s)
            if c not in (0, 1):
                self.fail("row component", e)
            return k(IntV(f"{v.var}.{c + 1}"))
        if isinstance(v, NpSumV):
            if self.const_index(s) != 1:
                self.fail("np.sum(...)[c] with c != 1", e)
            return k(IntV(f"npSumCol1 {v.rows}"))
        if isinstance(v, RowsV):
            if isinstance(s, ast.Slice):
                if s.step is not None or s.lower is None or s.upper is None:
                    self.fail("slice form", e)
                lo = self.pure_int(s.lower, env)
                hi = self.pure_int(s.upper, env)
                return k(RowsV(f"(npSlice {v.lean} {lo.lean} {hi.lean})"))
            if isinstance(s, ast.Tuple):
                if len(s.elts) != 2 or self.const_index(s.elts[1]) not in (0, 1):
                    self.fail("2-D index form", e)
                c = self.const_index(s.elts[1])
                return self.ev(s.elts[0], env, lambda i: self.bind_row(v, self.as_int(i, e), lambda r: k(IntV(f"{r}.{c + 1}"))))
            return self.ev(s, env, lambda i: self.bind_row(v, self.as_int(i, e), lambda r: k(RowV(r))))
        self.fail(f"subscript of {type(v).__name__}", e)

    def bind_row(self, rows, i, k):
        r = self.fresh_row()
        return ("bind", f"npRow {rows.lean} {i.lean}", r, k(r))

    def call(self, e, env, k):
        f = e.func
        if isinstance(f, ast.Name) and f.id == "int" and len(e.args) == 1 and not e.keywords:
            return self.ev(e.args[0], env, lambda v: k(self.as_int(v, e)))
        if isinstance(f, ast.Name) and f.id == "len" and len(e.args) == 1:
            v = self.pure(e.args[0], env)
            if isinstance(v, RowsV):
                return k(IntV(f"npLen {v.lean}"))
            if isinstance(v, IntV) and v.lean in ("nPL", "nData"):      # len(particle_list) / len(data) in a count row
                return k(v)
            self.fail(f"len of {type(v).__name__}", e)
        if isinstance(f, ast.Attribute) and isinstance(f.value, ast.Name) and f.value.id in ("np", "numpy") and f.attr == "sum":
            ax = [kw for kw in e.keywords if kw.arg == "axis"]
            if len(e.args) == 1 and len(ax) == 1 and len(e.keywords) == 1 and self.const_index(ax[0].value) == 0:
                v = self.pure(e.args[0], env)
                if isinstance(v, RowsV):
                    return k(NpSumV(v.lean))
            self.fail("np.sum form", e)
        if isinstance(f, ast.Name) and f.id == "sum" and len(e.args) == 1 and not e.keywords and \
                isinstance(e.args[0], (ast.GeneratorExp, ast.ListComp)):
            c = e.args[0]
            if len(c.generators) != 1 or c.generators[0].ifs or not isinstance(c.generators[0].target, ast.Name):
                self.fail("sum(...) comprehension form", e)
            g = c.generators[0]
            lo, hi = self.range_bounds(g.iter, env)
            return self.counting_loop(g.target.id, lo, hi, IntV(num(0)), env,
                                      lambda env_b: self.ev(c.elt, env_b, lambda v: ("ok", f"(acc + {self.as_int(v, e).lean})")),
                                      lambda accv: k(accv))
        if isinstance(f, ast.Attribute) and isinstance(f.value, ast.Name) and f.value.id == "self":
            return k(OpaqueV("call self." + f.attr))
        if isinstance(f, ast.Attribute) and f.attr == "keys" and not e.args:
            v = self.pure(f.value, env)
            if isinstance(v, OptsV):
                return k(KeysV())
        self.fail(f"call {ast.unparse(e)[:60]}", e)

    def range_bounds(self, it, env):
        if not (isinstance(it, ast.Call) and isinstance(it.func, ast.Name) and it.func.id == "range" and not it.keywords
                and 1 <= len(it.args) <= 2):
            self.fail("loop is not over range(lo, hi)", it)
        if len(it.args) == 1:
            return IntV(num(0)), self.pure_int(it.args[0], env)
        return self.pure_int(it.args[0], env), self.pure_int(it.args[1], env)

    def counting_loop(self, var, lo, hi, init, env, body_tree, k):
        if self.in_loop:
            self.fail("nested loop")
        self.in_loop = True
        env_b = dict(env)
        env_b[var] = IntV("i")
        tb = body_tree(env_b)
        self.in_loop = False
        self.nacc += 1
        a = f"acc{self.nacc}"
        return ("bind", f"forAcc (fun i acc => {render(tb)}) (pyRangeI {lo.lean} {hi.lean}) {init.lean}", a, k(IntV(a)))

    # ------------------------------------------------------------------ conditions: ('s', True/False/None) | ('d', lean)
    def tv(self, e, env):
        if isinstance(e, ast.BoolOp):
            vals = [self.tv(x, env) for x in e.values]
            is_or = isinstance(e.op, ast.Or)
            absorbing = is_or            # True absorbs `or`, False absorbs `and`
            if any(v == ("s", absorbing) for v in vals):
                # operands are pure, so an absorbing operand decides the result wherever it stands
                return ("s", absorbing)
            rest = [v for v in vals if v != ("s", not absorbing)]
            if not rest:
                return ("s", not absorbing)
            if any(v[0] == "s" for v in rest):          # an undecided static operand
                return ("s", None)
            if len(rest) == 1:
                return rest[0]
            return ("d", "(" + (" || " if is_or else " && ").join(v[1] for v in rest) + ")")
        if isinstance(e, ast.UnaryOp) and isinstance(e.op, ast.Not):
            v = self.tv(e.operand, env)
            if v[0] == "s":
                return ("s", None if v[1] is None else (not v[1]))
            return ("d", f"(!{v[1]})")
        if isinstance(e, ast.Constant) and isinstance(e.value, bool):
            return ("s", e.value)
        if isinstance(e, ast.Call) and isinstance(e.func, ast.Name) and e.func.id == "isinstance" and len(e.args) == 2:
            try:
                v = self.pure(e.args[0], env)
            except Untranslatable:
                return ("s", None)
            types = e.args[1].elts if isinstance(e.args[1], ast.Tuple) else [e.args[1]]
            names = [t.id for t in types if isinstance(t, ast.Name)]
            if len(names) != len(types):
                return ("s", None)
            if isinstance(v, IntV) and v.lean == "k":
                return ("s", "int" in names)
            if isinstance(v, TupV) and self.mode == "range" and len(v.items) == 2 and v.items[0].lean == "a":
                return ("s", "tuple" in names)
            return ("s", None)
        if isinstance(e, ast.Compare) and len(e.ops) == 1:
            op, l, r = e.ops[0], e.left, e.comparators[0]
            if isinstance(op, (ast.In, ast.NotIn)):
                if isinstance(l, ast.Constant) and isinstance(l.value, str):
                    try:
                        c = self.pure(r, env)
                    except Untranslatable:
                        return ("s", None)
                    if isinstance(c, (OptsV, KeysV)) and l.value == "events":
                        present = self.mode != "all"
                        return ("s", present if isinstance(op, ast.In) else not present)
                return ("s", None)
            sym = {ast.Eq: "==", ast.NotEq: "!=", ast.Lt: "<", ast.LtE: "≤", ast.Gt: ">", ast.GtE: "≥"}
            if type(op) not in sym:
                return ("s", None)
            a = self.pure_int(l, env)
            b = self.pure_int(r, env)
            if isinstance(op, (ast.Eq, ast.NotEq)):
                return ("d", f"({a.lean} {sym[type(op)]} {b.lean})")
            return ("d", f"decide ({a.lean} {sym[type(op)]} {b.lean})")
        if isinstance(e, (ast.Name, ast.Attribute)):
            try:
                v = self.pure(e, env)
            except Untranslatable:
                return ("s", None)
            if isinstance(v, OptsV):
                return ("s", None if self.mode == "all" else True)     # an options dictionary holding `events` is non-empty
            return ("s", None)
        return ("s", None)

    # ------------------------------------------------------------------ statements (CPS)
    def block(self, stmts, env, k):
        if not stmts:
            return k(env)
        return self.stmt(stmts[0], env, lambda env2: self.block(stmts[1:], env2, k))

    def store(self, target, v, env, node):
        if isinstance(target, ast.Name):
            env[target.id] = v
        elif isinstance(target, ast.Attribute) and isinstance(target.value, ast.Name) and target.value.id == "self":
            env["self." + target.attr] = v
        elif isinstance(target, (ast.Tuple, ast.List)):
            if not isinstance(v, TupV) or len(v.items) != len(target.elts):
                self.fail("tuple assignment from something that is not a tuple of that length", node)
            for t, x in zip(target.elts, v.items):
                self.store(t, x, env, node)
        else:
            self.fail(f"assignment target {ast.unparse(target)[:40]}", node)

    def stmt(self, s, env, k):
        if isinstance(s, ast.Expr):
            if isinstance(s.value, ast.Constant):
                return k(env)
            c = s.value
            if isinstance(c, ast.Call) and isinstance(c.func, ast.Attribute) and isinstance(c.func.value, ast.Name) \
                    and c.func.value.id == "self" and c.func.attr in ("_check_that_tuple_contains_integers_only", "_skip_lines"):
                return k(env)
            self.fail(f"expression statement {ast.unparse(s)[:60]}", s)
        if isinstance(s, ast.Pass):
            return k(env)
        if isinstance(s, (ast.Assign, ast.AnnAssign)):
            if isinstance(s, ast.AnnAssign):
                if s.value is None:
                    return k(env)
                targets = [s.target]
            else:
                targets = s.targets

            def after(v):
                env2 = dict(env)
                for t in targets:
                    self.store(t, v, env2, s)
                return k(env2)
            return self.ev(s.value, env, after)
        if isinstance(s, ast.AugAssign):
            ops = {ast.Add: "+", ast.Sub: "-", ast.Mult: "*"}
            if type(s.op) not in ops:
                self.fail("augmented assignment operator", s)
            cur = self.pure(s.target, env)

            def after(v):
                env2 = dict(env)
                self.store(s.target, IntV(f"({self.as_int(cur, s).lean} {ops[type(s.op)]} {self.as_int(v, s).lean})"), env2, s)
                return k(env2)
            return self.ev(s.value, env, after)
        if isinstance(s, ast.If):
            t = self.tv(s.test, env)
            if t[0] == "s":
                if t[1] is None:
                    self.fail(f"cannot decide `{ast.unparse(s.test)[:80]}`", s)
                return self.block(s.body if t[1] else s.orelse, dict(env), k)
            return ("if", t[1], self.block(s.body, dict(env), k), self.block(s.orelse, dict(env), k))
        if isinstance(s, ast.Raise):
            exc = s.exc
            name = exc.func.id if isinstance(exc, ast.Call) and isinstance(exc.func, ast.Name) else \
                exc.id if isinstance(exc, ast.Name) else None
            if name not in ERR_KINDS:
                self.fail(f"raise {name}", s)
            return ("err", ERR_KINDS[name])
        if isinstance(s, ast.Return):
            if self.on_return is None or self.in_loop:
                self.fail("return here", s)
            if s.value is None:
                self.fail("bare return", s)
            return self.ev(s.value, env, lambda v: self.on_return(v, env, s))
        if isinstance(s, ast.With):
            return self.block(s.body, env, k)
        if isinstance(s, ast.For):
            if self.on_for is not None:
                return self.on_for(s, env)
            if s.orelse or not isinstance(s.target, ast.Name):
                self.fail("loop form", s)
            lo, hi = self.range_bounds(s.iter, env)
            stored = set()
            for n in ast.walk(ast.Module(body=s.body, type_ignores=[])):
                if isinstance(n, (ast.Assign, ast.AugAssign, ast.AnnAssign)):
                    for t in (n.targets if isinstance(n, ast.Assign) else [n.target]):
                        for m in ast.walk(t):
                            if isinstance(m, ast.Name):
                                stored.add(m.id)
                            elif isinstance(m, ast.Attribute):
                                self.fail("the loop stores into an attribute", s)
            carried = sorted(x for x in stored if x in env and x != s.target.id)
            if len(carried) != 1:
                self.fail(f"counting loop must carry exactly one variable, found {carried}", s)
            acc = carried[0]
            init = self.as_int(env[acc], s)

            def body_tree(env_b):
                env_b[acc] = IntV("acc")
                return self.block(s.body, env_b, lambda e2: ("ok", self.as_int(e2[acc], s).lean))

            def after(accv):
                env2 = dict(env)
                env2[acc] = accv
                return k(env2)
            return self.counting_loop(s.target.id, lo, hi, init, env, body_tree, after)
        self.fail(f"statement {type(s).__name__}", s)


# ----------------------------------------------------------------------------- locating things
def _class_fn(tree, cls, fn):
    for node in tree.body:
        if isinstance(node, ast.ClassDef) and node.name == cls:
            for f in node.body:
                if isinstance(f, ast.FunctionDef) and (f.name == fn or f.name == f"_{cls}{fn}"):
                    return f
    raise Untranslatable(f"{cls}.{fn} not found")


def _body(f):
    return [s for s in f.body if not (isinstance(s, ast.Expr) and isinstance(s.value, ast.Constant))]


def _mentions_events(node):
    return any(isinstance(n, ast.Constant) and n.value == "events" for n in ast.walk(node))


def _base_env(f):
    env = {"self." + OPTS_ATTR: OptsV(), "self." + ROWS_ATTR: RowsV("rows"), "self." + NEV_ATTR: IntV("numEvents")}
    for a in f.args.args[1:] + ([f.args.kwarg] if f.args.kwarg else []):
        env[a.arg] = OptsV()
    return env


MODES = [("all", ".all"), ("one", ".one k"), ("range", ".range a b")]


def _three(make):
    """make(mode) -> tree; returns the three match arms"""
    return "".join(f"  | {pat} => {render(make(mode))}\n" for mode, pat in MODES)


def _first_loop(f):
    """the line loop of set_particle_list: the first `for` (possibly inside `with`)"""
    for s in f.body:
        for n in ast.walk(s):
            if isinstance(n, ast.For):
                return n
    raise Untranslatable(f"{f.name}: line loop not found")


def _count_row_assigns(loop):
    out = []
    for n in ast.walk(loop):
        if isinstance(n, ast.Assign) and len(n.targets) == 1 and isinstance(n.targets[0], ast.Subscript):
            t = n.targets[0]
            if isinstance(t.value, ast.Attribute) and t.value.attr == ROWS_ATTR and isinstance(n.value, ast.Tuple) \
                    and len(n.value.elts) == 2:
                out.append(n)
    return out


def _len_arg(e):
    if isinstance(e, ast.Call) and isinstance(e.func, ast.Name) and e.func.id == "len" and len(e.args) == 1 \
            and isinstance(e.args[0], ast.Name):
        return e.args[0].id
    return None


# ----------------------------------------------------------------------------- the regions
def gen_valid(src, cls, tag):
    tree = ast.parse(src)
    f = _class_fn(tree, cls, "load")
    ifs = [s for s in _body(f) if isinstance(s, ast.If) and _mentions_events(s.test)]
    if not ifs:
        raise Untranslatable(f"{cls}.load: no `if` statement validating `events` found")
    for s in _body(f):          # the keyword whitelist must still admit `events`
        if isinstance(s, ast.For) and any(isinstance(n, ast.Raise) for n in ast.walk(s)):
            lists = [n for n in ast.walk(s) if isinstance(n, ast.List) and all(isinstance(x, ast.Constant) for x in n.elts)]
            if lists and not any("events" in [x.value for x in l.elts] for l in lists):
                raise Untranslatable(f"{cls}.load: the keyword whitelist does not contain 'events'")

    def make(mode):
        ex = Exec(mode, f"{cls}.load")
        return ex.block(ifs, _base_env(f), lambda env: ("ok", "()"))
    text = (f"/-- `{cls}.load`: validation of the `events` keyword -/\n"
            f"def genValid{tag} : Sel → Except Err Unit\n" + _three(make))
    region = dict(region=f"{cls}.load (events validation)", lines=[ifs[0].lineno, ifs[-1].end_lineno],
                  sha=_sha("\n".join(_seg(src, s) for s in ifs)))
    return text, region


def gen_fn(src, cls, fn, tag, lean_name, doc):
    tree = ast.parse(src)
    f = _class_fn(tree, cls, fn)

    def make(mode):
        ex = Exec(mode, f"{cls}.{fn}")
        ex.on_return = lambda v, env, s: ("ok", ex.as_int(v, s).lean)

        def fell(env):
            raise Untranslatable(f"{cls}.{fn} [{mode}]: the end of the method is reached without `return`")
        return ex.block(_body(f), _base_env(f), fell)
    text = (f"/-- `{cls}.{fn}`{doc} -/\n"
            f"def {lean_name}{tag} (rows : List (Int × Int)) : Sel → Except Err Int\n" + _three(make))
    region = dict(region=f"{cls}.{fn}", lines=[f.lineno, f.end_lineno], sha=_sha(_seg(src, f)))
    return text, region


def gen_prelude(src, cls, tag, oscar):
    tree = ast.parse(src)
    f = _class_fn(tree, cls, "set_particle_list")
    loop = _first_loop(f)
    rows_assigns = _count_row_assigns(loop)
    if not rows_assigns:
        raise Untranslatable(f"{cls}.set_particle_list: no count-row assignment `{ROWS_ATTR}[..] = (label, n)` in the loop")
    idx_var = None
    if oscar:
        apps = [n for n in ast.walk(loop) if isinstance(n, ast.Call) and isinstance(n.func, ast.Attribute)
                and n.func.attr == "append" and isinstance(n.func.value, ast.Attribute) and n.func.value.attr == IDX_ATTR]
        if not apps or any(len(a.args) != 1 or not isinstance(a.args[0], ast.Name) for a in apps) \
                or len({a.args[0].id for a in apps}) != 1:
            raise Untranslatable(f"{cls}.set_particle_list: `{IDX_ATTR}.append(<name>)` not found in the loop")
        idx_var = apps[0].args[0].id

    def run(mode, finish):
        ex = Exec(mode, f"{cls}.set_particle_list (prelude)")
        ex.on_for = lambda s, env: finish(ex, env, s)

        def fell(env):
            raise Untranslatable(f"{cls}.set_particle_list: line loop not reached")
        return ex.block(_body(f), _base_env(f), fell)

    # the variable the loop adds to len(particle_list) in the label of a count row
    def label_var(ex, env):
        names = set()
        for a in rows_assigns:
            for n in ast.walk(a.value.elts[0]):
                if isinstance(n, ast.Name) and isinstance(env.get(n.id), IntV):
                    names.add(n.id)
        if len(names) != 1:
            ex.fail(f"the label of a count row must use exactly one prelude variable, found {sorted(names)}")
        return names.pop()

    def fin_prelude(ex, env, s):
        rows, ne = env.get("self." + ROWS_ATTR), env.get("self." + NEV_ATTR)
        fl = env[label_var(ex, env)]
        if not isinstance(rows, RowsV) or not isinstance(ne, IntV):
            ex.fail("counts rows / num_events_ are not what the prelude left")
        return ("ok", f"{rows.lean}, {ne.lean}, {fl.lean}")

    def fin_index(ex, env, s):
        if idx_var not in env:
            ex.fail(f"`{idx_var}` has no value when the loop starts")
        return ("ok", ex.as_int(env[idx_var], s).lean)

    text = (f"/-- `{cls}.set_particle_list` before the line loop: rows kept in `{ROWS_ATTR}`, `{NEV_ATTR}`, the label offset of the loop -/\n"
            f"def genPrelude{tag} (rows : List (Int × Int)) (numEvents : Int) : Sel → Except Err (List (Int × Int) × Int × Int)\n"
            + _three(lambda m: run(m, fin_prelude)))
    if oscar:
        text += (f"\n/-- `{cls}.set_particle_list`: value of `{'event_index'}` (the variable appended to `{IDX_ATTR}`) when the line loop starts -/\n"
                 f"def genEventIndex{tag} (rows : List (Int × Int)) (numEvents : Int) : Sel → Except Err Int\n"
                 + _three(lambda m: run(m, fin_index)))
    # the tuples written into count rows by the loop
    row_terms = []
    for j, a in enumerate(rows_assigns, 1):
        ex = Exec("row", f"{cls}.set_particle_list (count row {j})")
        pl = _len_arg(a.targets[0].slice)
        dt = _len_arg(a.value.elts[1])
        if pl is None or dt is None:
            raise Untranslatable(f"{cls}.set_particle_list: count row {j} is not `rows[len(<list>)] = (<label>, len(<data>))`")
        lv = None
        for n in ast.walk(a.value.elts[0]):
            if isinstance(n, ast.Name) and n.id not in (pl, dt, "len", "int"):
                lv = n.id if lv in (None, n.id) else "?"
        if lv in (None, "?"):
            raise Untranslatable(f"{cls}.set_particle_list: count row {j}: label expression")
        env = {pl: IntV("nPL"), dt: IntV("nData"), lv: IntV("firstLabel")}
        lab = ex.as_int(ex.pure(a.value.elts[0], env), a)
        cnt = ex.as_int(ex.pure(a.value.elts[1], env), a)
        row_terms.append(f"({lab.lean}, {cnt.lean})")
    text += (f"\n/-- `{cls}.set_particle_list`: the tuple(s) the loop writes into a count row, one per occurrence in the source "
             f"(`nPL = len(particle_list)`, `nData = len(data)`) -/\n"
             f"def genCountRows{tag} (nPL firstLabel nData : Int) : List (Int × Int) := [{', '.join(row_terms)}]\n")
    region = dict(region=f"{cls}.set_particle_list (prelude + count rows)", lines=[f.lineno, loop.lineno],
                  sha=_sha("\n".join(src.splitlines()[f.lineno - 1:loop.lineno - 1]) + "\n".join(_seg(src, a) for a in rows_assigns)),
                  count_rows=len(rows_assigns))
    return text, region


def gen_first_header(src, cls, tag):
    tree = ast.parse(src)
    f = _class_fn(tree, cls, "set_particle_list")
    loop = _first_loop(f)
    found = None
    for n in ast.walk(loop):
        for fieldname in ("body", "orelse"):
            blk = getattr(n, fieldname, None)
            if not isinstance(blk, list):
                continue
            for pos, s in enumerate(blk):
                if isinstance(s, ast.If) and isinstance(s.test, ast.Compare) and len(s.test.ops) == 1 \
                        and isinstance(s.test.ops[0], ast.Eq):
                    sides = [s.test.left, s.test.comparators[0]]
                    nm = [x for x in sides if isinstance(x, ast.Name)]
                    cl = [x for x in sides if isinstance(x, ast.Call) and isinstance(x.func, ast.Name) and x.func.id == "int"
                          and x.args and isinstance(x.args[0], ast.Subscript)]
                    if len(nm) == 1 and len(cl) == 1 and any(isinstance(b, ast.Continue) for b in s.body):
                        found = (blk, pos, nm[0].id, s)
    if found is None:
        raise Untranslatable(f"{cls}.set_particle_list: `if int(line_list[2]) == <first header>: continue` not found")
    blk, pos, var, ifs = found

    def stores(s):
        for n in ast.walk(s):
            if isinstance(n, (ast.Assign, ast.AugAssign, ast.AnnAssign)):
                for t in (n.targets if isinstance(n, ast.Assign) else [n.target]):
                    if isinstance(t, ast.Name) and t.id == var:
                        return True
        return False
    stmts = [s for s in blk[:pos] if stores(s)]
    if not stmts:
        raise Untranslatable(f"{cls}.set_particle_list: no statement computing `{var}` before the comparison")

    def make(mode):
        ex = Exec(mode, f"{cls}.set_particle_list (first event header)")
        return ex.block(stmts, _base_env(f), lambda env: ("ok", ex.as_int(env[var], ifs).lean))
    text = (f"/-- `{cls}.set_particle_list`: the event number of the first header line that is read (`{'first_event_header'}`) -/\n"
            f"def genFirstHeader{tag} : Sel → Except Err Int\n" + _three(make))
    region = dict(region=f"{cls}.set_particle_list (first event header)", lines=[stmts[0].lineno, ifs.lineno],
                  sha=_sha("\n".join(_seg(src, s) for s in stmts) + ast.unparse(ifs.test)))
    return text, region


def gen_impact(src, cls):
    tree = ast.parse(src)
    f = _class_fn(tree, cls, "impact_parameter")
    comps = [n for n in ast.walk(f) if isinstance(n, ast.ListComp) and len(n.generators) == 1
             and isinstance(n.generators[0].iter, ast.Attribute) and n.generators[0].iter.attr == IDX_ATTR]
    if len(comps) != 1:
        raise Untranslatable(f"{cls}.impact_parameter: `[xs[i] for i in self.{IDX_ATTR}]` not found")
    c = comps[0]
    g = c.generators[0]
    if g.ifs or not isinstance(g.target, ast.Name) or not isinstance(c.elt, ast.Subscript) or not isinstance(c.elt.value, ast.Name):
        raise Untranslatable(f"{cls}.impact_parameter: comprehension form")
    ex = Exec("pick", f"{cls}.impact_parameter")
    idx = ex.as_int(ex.pure(c.elt.slice, {g.target.id: IntV("i")}), c)
    # what the comprehension result is used for: it must be what the method returns
    rets = [n for n in ast.walk(f) if isinstance(n, ast.Return)]
    asg = [n for n in ast.walk(f) if isinstance(n, (ast.Assign, ast.AnnAssign)) and n.value is c]
    ok = any(r.value is c for r in rets) or (
        len(asg) == 1 and len(rets) == 1 and isinstance(rets[0].value, ast.Name)
        and any(isinstance(t, ast.Name) and t.id == rets[0].value.id for t in (asg[0].targets if isinstance(asg[0], ast.Assign) else [asg[0].target]))
        and asg[0].lineno < rets[0].lineno)
    if not ok:
        raise Untranslatable(f"{cls}.impact_parameter: the selected list is not what the method returns")
    text = (f"/-- `{cls}.impact_parameter`: `[{ast.unparse(c.elt)} for {g.target.id} in self.{IDX_ATTR}]` (`xs` = one value per end line of the file) -/\n"
            f"def genImpactPick {{α : Type}} (xs : List α) (idx : List Int) : Except Err (List α) :=\n"
            f"  pickAll (fun i => pyGet xs {idx.lean}) idx\n")
    region = dict(region=f"{cls}.impact_parameter (selection by {IDX_ATTR})", lines=[c.lineno, c.end_lineno], sha=_sha(_seg(src, c)))
    return text, region


HEADER = """-- GENERATED by harness/translate/readersel.py from src/sparkx/loader/OscarLoader.py, src/sparkx/loader/JetscapeLoader.py -- do not edit
import SparkxVerif.Core.ReaderSelG

set_option linter.unusedVariables false

namespace SparkxVerif.Gen.ReaderSelGen
open SparkxVerif.Rd SparkxVerif.RdSel

"""

FOOTER = """/-- the generated selection arithmetic of `OscarLoader` -/
def genOscar : SelArith where
  valid := genValidOscar
  skip := genSkipOscar
  nread := genNreadOscar
  prelude := genPreludeOscar
  firstHeader := fun _ => .ok (0 : Int)

/-- the generated selection arithmetic of `JetscapeLoader` -/
def genJetscape : SelArith where
  valid := genValidJetscape
  skip := genSkipJetscape
  nread := genNreadJetscape
  prelude := genPreludeJetscape
  firstHeader := genFirstHeaderJetscape

/-- the shared reader loop driven by the generated arithmetic -/
def genReadOscar (f : FileF) (sel : Sel) (filt : Option EvFilter) : Except Err Loaded :=
  readOscarWith genOscar f sel filt

def genReadJetscape (f : FileF) (sel : Sel) (partons : Bool) (filt : Option EvFilter) : Except Err Loaded :=
  readJetscapeWith genJetscape f sel partons filt

end SparkxVerif.Gen.ReaderSelGen
"""


def render_all(src_oscar, src_jetscape):
    parts, regions = [], []
    for src, cls, tag, rel, oscar in ((src_oscar, "OscarLoader", "Oscar", SRC_OSCAR, True),
                                      (src_jetscape, "JetscapeLoader", "Jetscape", SRC_JETSCAPE, False)):
        out = [gen_valid(src, cls, tag),
               gen_fn(src, cls, "_get_num_skip_lines", tag, "genSkip", ""),
               gen_fn(src, cls, "__get_num_read_lines", tag, "genNread", " (the number of `readline()` calls of the loop)"),
               gen_prelude(src, cls, tag, oscar)]
        if oscar:
            out.append(gen_impact(src, cls))
        else:
            out.append(gen_first_header(src, cls, tag))
        for t, r in out:
            parts.append(t)
            r["file"] = rel
            regions.append(r)
    n_rows = {r["file"]: r["count_rows"] for r in regions if "count_rows" in r}
    return HEADER + "\n".join(parts) + "\n" + FOOTER, regions, n_rows
