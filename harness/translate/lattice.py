"""Tie T for C17: the index arithmetic of src/sparkx/Lattice3D.py -> Gen/Lattice.lean.

What is translated (every method body is compiled AS FOUND, statement by statement, in Python's evaluation
order; nothing is pattern-matched against an expected formula):

  __init__ (the nine geometry parameters: field assignments, `np.linspace`, `np.zeros`, and the derived
  attributes `cell_volume_`, `spacing_*_`, `density_*_`), __is_valid_index, set_value_by_index,
  get_value_by_index, __get_index, __get_index_nearest_neighbor, __get_indices,
  __get_indices_nearest_neighbor, set_value, set_value_nearest_neighbor, get_value,
  get_value_nearest_neighbor, __get_value, get_coordinates, __find_closest_index, __is_within_range,
  find_closest_indices, interpolate_value (range guard; `interpn` is the parameter `interp`),
  __operate_on_lattice, __add__, __sub__, __mul__, __truediv__, average, rescale, reset.

How Python is rendered
  * a method is a Lean function into `Except Err τ` (`raise ValueError/TypeError/IndexError` = `.error`);
    an operation that can raise (`values[i]`, `grid_[i, j, k]`, a call of another method, `interpn`) is
    sequenced with `Except.bind` in evaluation order; `and` / `or` / chained comparisons short-circuit;
  * Python ints are `Int` (node counts are `Nat`, cast where they meet an int or a float), coordinates are `α`,
    grid values `β`; `a > b` is rendered `b < a`, `a >= b` as `b ≤ a` (IEEE: the same also for NaN);
  * `self` is the record `Lat α β` of Core/Lattice.lean (`grid_` = C-order flattening, `grid_.shape` =
    `(nx, ny, nz)`); a mutating method returns the new record; `warnings.warn` sets a flag that is returned
    where the property observes it (set_value*, find_closest_indices) and is dropped elsewhere;
  * numpy / scipy calls become the primitives of Core/Lattice.lean: `searchsorted` -> `searchRight` /
    `searchLeft`, `argmin` -> `argminFirst`, `np.abs` -> `absG`, array ± scalar -> `List.map`, `grid_[i,j,k]`
    -> `rawGet` / `rawSet` (numpy's negative-index wrap included), `values[i]` -> `pyGet`, `np.linspace` -> the
    parameter `lin`, `np.zeros` -> `List.replicate`, `np.ndindex` -> `ndindex`, `np.mean(axis=0)` ->
    `npMeanAxis0`, a callable applied to two grids -> `List.zipWith`.
  * `for x in <list of lattices>` whose body only tests and raises -> `List.forM`;
    `for i, j, k in np.ndindex(shape)` whose body only writes the grid -> `List.foldlM`.

Anything outside this fragment raises `Untranslatable` (the caller then falls back to the golden model and
the correspondence, DESIGN 2.1 (i)).  Local names, parameter names, statement order, the way conditions are
composed, temporaries: free.  Method names and arities: fixed.
"""
import ast

from . import pyexpr
from .pyexpr import Untranslatable

CLS = "Lattice3D"
FILE = "Lattice3D.py"

# attribute of a lattice object -> (field of `Lat α β`, type)
FIELDS = {
    "x_min_": ("xmin", "F"), "x_max_": ("xmax", "F"), "y_min_": ("ymin", "F"), "y_max_": ("ymax", "F"),
    "z_min_": ("zmin", "F"), "z_max_": ("zmax", "F"),
    "num_points_x_": ("nx", "N"), "num_points_y_": ("ny", "N"), "num_points_z_": ("nz", "N"),
    "x_values_": ("xs", "AF"), "y_values_": ("ys", "AF"), "z_values_": ("zs", "AF"),
    "grid_": ("grid", "G"),
}
FIELD_ORDER = ["xmin", "xmax", "ymin", "ymax", "zmin", "zmax", "nx", "ny", "nz", "xs", "ys", "zs", "grid"]
# derived constructor attributes that get a generated definition of their own
DERIVED = ["cell_volume_", "spacing_x_", "spacing_y_", "spacing_z_", "density_x_", "density_y_", "density_z_"]
# constructor attributes outside C17 (smearing widths, C16): statement skipped, reading them is Untranslatable
IGNORED_INIT = {"n_sigma_x_", "n_sigma_y_", "n_sigma_z_"}
INIT_PARAMS = ["F"] * 6 + ["N"] * 3

# type names: F coordinate (α)   V grid value (β)   I Python int (Int)   N node count (Nat)   B bool
#             AF List α   G flat grid (List β)   LAT lattice   LLAT list of lattices   LG list of grids
#             FN β → β → β   M interpolation method (opaque)   NONE   LIT integer literal   T tuple   OPTV / OPTF
LEAN_TY = {"F": "α", "V": "β", "I": "Int", "N": "Nat", "B": "Bool", "AF": "List α", "G": "List β",
           "LAT": "Lat α β", "LLAT": "List (Lat α β)", "LG": "List (List β)", "FN": "β → β → β", "M": "M",
           "OPTV": "Option β", "OPTF": "Option α", "T3I": "Int × Int × Int", "T3F": "α × α × α",
           "SHAPE": "Nat × Nat × Nat", "NDX": "List (Nat × Nat × Nat)"}

# method -> (Lean name, parameter types, result type, mutates self, warning flag is part of the result)
SIGS = {
    "__is_valid_index": ("isValidIndex", ["I", "I", "I"], "B", False, False),
    "set_value_by_index": ("setValueByIndex", ["I", "I", "I", "V"], None, True, True),
    "get_value_by_index": ("getValueByIndex", ["I", "I", "I"], "OPTV", False, False),
    "__get_index": ("getIndex", ["F", "AF"], "I", False, False),
    "__get_index_nearest_neighbor": ("getIndexNN", ["F", "AF"], "I", False, False),
    "__get_indices": ("getIndices", ["F", "F", "F"], "T3I", False, False),
    "__get_indices_nearest_neighbor": ("getIndicesNN", ["F", "F", "F"], "T3I", False, False),
    "set_value": ("setValue", ["F", "F", "F", "V"], None, True, True),
    "set_value_nearest_neighbor": ("setValueNN", ["F", "F", "F", "V"], None, True, True),
    "get_value": ("getValue", ["F", "F", "F"], "OPTV", False, False),
    "get_value_nearest_neighbor": ("getValueNN", ["F", "F", "F"], "OPTV", False, False),
    "__get_value": ("getCoord", ["I", "AF", "I"], "F", False, False),
    "get_coordinates": ("getCoordinates", ["I", "I", "I"], "T3F", False, False),
    "__find_closest_index": ("findClosestIndex", ["F", "AF"], "I", False, False),
    "__is_within_range": ("isWithinRange", ["F", "F", "F"], "B", False, False),
    "find_closest_indices": ("findClosestIndices", ["F", "F", "F"], "T3I", False, True),
    "interpolate_value": ("interpolateValue", ["F", "F", "F", "M"], "V", False, False),
    "__operate_on_lattice": ("operateOnLattice", ["LAT", "FN"], "LAT", False, False),
    "__add__": ("add", ["LAT"], "LAT", False, False),
    "__sub__": ("sub", ["LAT"], "LAT", False, False),
    "__mul__": ("mul", ["LAT"], "LAT", False, False),
    "__truediv__": ("truediv", ["LAT"], "LAT", False, False),
    "average": ("average", ["*LLAT"], "LAT", False, False),
    "rescale": ("rescale", ["V"], None, True, False),
    "reset": ("reset", [], None, True, False),
}
ROOTS = ["__is_valid_index", "set_value_by_index", "get_value_by_index", "__get_index",
         "__get_index_nearest_neighbor", "__get_indices", "__get_indices_nearest_neighbor", "set_value",
         "set_value_nearest_neighbor", "get_value", "get_value_nearest_neighbor", "__get_value", "get_coordinates",
         "__find_closest_index", "__is_within_range", "find_closest_indices", "interpolate_value",
         "__operate_on_lattice", "__add__", "__sub__", "__mul__", "__truediv__", "average", "rescale", "reset"]
EXC = {"ValueError": ".value", "TypeError": ".type", "IndexError": ".index"}
NUMERIC = ("F", "V", "I", "N", "LIT")


class Val:
    def __init__(self, term, ty, items=None):
        self.term, self.ty, self.items = term, ty, items

    def __repr__(self):
        return f"Val({self.term!r}, {self.ty})"


def nm(py):
    """Lean identifier of a Python name (suffix: never a Lean keyword, never one of my temporaries)"""
    return py + "_"


def lit(v, want):
    if want == "I":
        return f"({v} : Int)" if v >= 0 else f"(-{-v} : Int)"
    if want == "N":
        if v < 0:
            raise Untranslatable(f"negative literal {v} where a node count is expected")
        return f"({v} : Nat)"
    if want in ("F", "V"):
        t = "α" if want == "F" else "β"
        return f"(({v} : Nat) : {t})" if v >= 0 else f"(-(({-v} : Nat) : {t}))"
    raise Untranslatable(f"literal {v} used as {want}")


def co(v, want):
    """coerce a value to the wanted type (Python's implicit numeric conversions only)"""
    if v.ty == want:
        return v.term
    if v.ty == "LIT":
        return lit(v.term, want)
    if v.ty == "N" and want == "I":
        return f"(({v.term} : Nat) : Int)"
    if v.ty == "N" and want == "F":
        return f"(({v.term} : Nat) : α)"
    if v.ty == "N" and want == "V":
        return f"(({v.term} : Nat) : β)"
    if v.ty == "NONE" and want in ("OPTV", "OPTF"):
        return "none"
    if (v.ty, want) in (("V", "OPTV"), ("F", "OPTF")):
        return f"(some {v.term})"
    if v.ty == "T" and want in ("T3I", "T3F") and len(v.items) == 3:
        e = want[2]
        return "(" + ", ".join(co(x, e) for x in v.items) + ")"
    raise Untranslatable(f"a value of type {v.ty} where {want} is expected")


def join_num(a, b):
    """common type of two numeric operands"""
    for x in (a, b):
        if x.ty not in NUMERIC:
            raise Untranslatable(f"arithmetic / comparison on {x.ty}")
    ts = {a.ty, b.ty} - {"LIT"}
    if not ts:
        return "LIT"
    if len(ts) == 1:
        return ts.pop()
    if ts == {"N", "I"}:
        return "I"
    if ts == {"N", "F"}:
        return "F"
    if ts == {"N", "V"}:
        return "V"
    raise Untranslatable(f"mixed operands {a.ty} and {b.ty}")


class St:
    """symbolic state along one path"""

    def __init__(self, env, L, warned="false", selfattrs=None):
        self.env = env              # Python name -> Val
        self.L = L                  # Lean term of `self` (None: method that does not touch self)
        self.warned = warned        # Lean Bool term
        self.pend = []              # (temporary, Except-valued term) still to be bound, in evaluation order
        self.selfattrs = selfattrs  # inside __init__: attribute -> Val assigned so far
        self.noreturn = False       # inside a loop body
        self.frozen_self = False    # inside a `forM` loop body: self may not be mutated

    def copy(self):
        s = St(dict(self.env), self.L, self.warned, None if self.selfattrs is None else dict(self.selfattrs))
        s.noreturn, s.frozen_self = self.noreturn, self.frozen_self
        return s


def or_(a, b):
    if a == "true" or b == "true":
        return "true"
    if a == "false":
        return b
    if b == "false":
        return a
    return f"({a} || {b})"


class Tr:
    def __init__(self, source):
        self.source = source
        self.tree = ast.parse(source)
        self.done = {}       # method -> dict(text, uses)
        self.order = []
        self.active = []
        self.regions = []
        self.ntmp = 0

    # ------------------------------------------------------------------ helpers
    def tmp(self):
        self.ntmp += 1
        return f"t{self.ntmp}'"

    def fdef(self, name):
        f = pyexpr.find_function(self.tree, name, CLS)
        if f is None:
            raise Untranslatable(f"method {name} not found in class {CLS}")
        return f

    def bind(self, st, term):
        t = self.tmp()
        st.pend.append((t, term))
        return t

    def flush(self, st, ind):
        pad = "  " * ind
        out = "".join(f"{pad}({e}).bind fun {t} =>\n" for t, e in st.pend)
        st.pend = []
        return out

    # ------------------------------------------------------------------ expressions
    def ev(self, n, st):
        if isinstance(n, ast.Constant):
            v = n.value
            if v is None:
                return Val("none", "NONE")
            if isinstance(v, bool):
                return Val("true" if v else "false", "B")
            if isinstance(v, int):
                return Val(v, "LIT")
            if isinstance(v, float) and v == int(v) and abs(v) < 2 ** 53 and str(v)[0] != "-":
                return Val(int(v), "LIT")
            raise Untranslatable(f"literal {v!r}")
        if isinstance(n, ast.Name):
            if n.id in st.env:
                v = st.env[n.id]
                if v.ty == "IGN":
                    raise Untranslatable(f"use of `{n.id}` (outside the translated fragment)")
                return v
            if n.id == "self":
                return self.selfval(st)
            raise Untranslatable(f"name `{n.id}`")
        if isinstance(n, ast.Attribute):
            return self.attr(n, st)
        if isinstance(n, ast.Subscript):
            return self.subscript(n, st)
        if isinstance(n, ast.UnaryOp):
            if isinstance(n.op, ast.Not):
                v = self.ev(n.operand, st)
                if v.ty != "B":
                    raise Untranslatable("`not` of a non-boolean")
                return Val({"true": "false", "false": "true"}.get(v.term, f"(!{v.term})"), "B")
            v = self.ev(n.operand, st)
            if isinstance(n.op, ast.UAdd) and v.ty in NUMERIC:
                return v
            if isinstance(n.op, ast.USub):
                if v.ty == "LIT":
                    return Val(-v.term, "LIT")
                if v.ty == "N":
                    return Val(f"(-{co(v, 'I')})", "I")
                if v.ty in ("F", "V", "I"):
                    return Val(f"(-{v.term})", v.ty)
            raise Untranslatable("unary operator on " + v.ty)
        if isinstance(n, ast.BinOp):
            return self.binop(n, st)
        if isinstance(n, ast.Compare):
            return self.compare_pure(n, st)
        if isinstance(n, ast.BoolOp):
            vs = [self.ev(x, st) for x in n.values]
            if any(v.ty != "B" for v in vs):
                raise Untranslatable("and/or of non-booleans")
            op = " && " if isinstance(n.op, ast.And) else " || "
            return Val("(" + op.join(v.term for v in vs) + ")", "B")
        if isinstance(n, (ast.Tuple, ast.List)):
            items = [self.ev(e, st) for e in n.elts]
            if len(items) == 1 and items[0].ty == "LAT" and isinstance(n, ast.List):
                return Val(f"[{items[0].term}]", "LLAT")
            return Val(None, "T", items)
        if isinstance(n, ast.Call):
            return self.call(n, st)
        if isinstance(n, ast.Lambda):
            a = n.args
            if a.vararg or a.kwarg or a.kwonlyargs or a.defaults or len(a.args) != 2:
                raise Untranslatable("lambda that is not a plain binary function")
            x, y = a.args[0].arg, a.args[1].arg
            inner = St({x: Val(nm(x), "V"), y: Val(nm(y), "V")}, None)
            r = self.ev(n.body, inner)
            if inner.pend:
                raise Untranslatable("lambda body that can raise")
            return Val(f"(fun {nm(x)} {nm(y)} => {co(r, 'V')})", "FN")
        if isinstance(n, ast.ListComp):
            if len(n.generators) != 1 or n.generators[0].ifs or n.generators[0].is_async \
                    or not isinstance(n.generators[0].target, ast.Name):
                raise Untranslatable("comprehension shape")
            src = self.ev(n.generators[0].iter, st)
            if src.ty != "LLAT":
                raise Untranslatable("comprehension over " + src.ty)
            x = n.generators[0].target.id
            inner = St(dict(st.env), st.L)
            inner.env[x] = Val(nm(x), "LAT")
            r = self.ev(n.elt, inner)
            if inner.pend or r.ty != "G":
                raise Untranslatable("comprehension element is not a grid")
            return Val(f"({src.term}.map (fun {nm(x)} => {r.term}))", "LG")
        raise Untranslatable("expression " + ast.dump(n)[:90])

    def selfval(self, st):
        if st.L is None:
            raise Untranslatable("use of `self` in a method modelled as a function of its arguments")
        return Val(st.L, "LAT")

    def attr(self, n, st):
        # <lattice>.grid_.shape
        if n.attr == "shape":
            g = self.ev(n.value, st)
            if g.ty != "G" or g.items is None:
                raise Untranslatable(".shape of something that is not a lattice's grid_")
            o = g.items
            return Val(f"({o}.nx, {o}.ny, {o}.nz)", "SHAPE", items=[f"{o}.nx", f"{o}.ny", f"{o}.nz"])
        if isinstance(n.value, ast.Name) and n.value.id == "self" and st.selfattrs is not None:
            if n.attr in st.selfattrs:
                return st.selfattrs[n.attr]
            raise Untranslatable(f"self.{n.attr} read in __init__ before it is assigned")
        o = self.ev(n.value, st)
        if o.ty != "LAT":
            raise Untranslatable(f"attribute .{n.attr} of {o.ty}")
        if n.attr not in FIELDS:
            raise Untranslatable(f"attribute .{n.attr} (outside the translated fragment)")
        f, ty = FIELDS[n.attr]
        return Val(f"{o.term}.{f}", ty, items=o.term if ty == "G" else None)

    def index3(self, sl, st):
        if not (isinstance(sl, ast.Tuple) and len(sl.elts) == 3):
            raise Untranslatable("grid_ indexed with something other than three indices")
        return [co(self.ev(e, st), "I") for e in sl.elts]

    def subscript(self, n, st):
        if isinstance(n.value, ast.Call) and self.callname(n.value) in (("", "interpn"), ("scipy.interpolate", "interpn")):
            i = self.ev(n.slice, st)
            if not (i.ty == "LIT" and i.term == 0):
                raise Untranslatable("interpn(...)[k] with k != 0")
            return self.ev(n.value, st)
        o = self.ev(n.value, st)
        if o.ty == "G":
            if o.items is None:
                raise Untranslatable("indexing a grid that is not an attribute of a lattice")
            i, j, k = self.index3(n.slice, st)
            return Val(self.bind(st, f"{o.items}.rawGet {i} {j} {k}"), "V")
        if o.ty == "AF":
            i = co(self.ev(n.slice, st), "I")
            return Val(self.bind(st, f"pyGet {o.term} {i}"), "F")
        raise Untranslatable("subscript of " + o.ty)

    def binop(self, n, st):
        a = self.ev(n.left, st)
        b = self.ev(n.right, st)
        op = {ast.Add: "+", ast.Sub: "-", ast.Mult: "*", ast.Div: "/"}.get(type(n.op))
        if op is None:
            raise Untranslatable("operator " + type(n.op).__name__)
        if a.ty == "LLAT" and b.ty == "LLAT" and op == "+":
            return Val(f"({a.term} ++ {b.term})", "LLAT")
        # numpy broadcasting: array of coordinates with a scalar
        if a.ty == "AF" and b.ty in ("F", "LIT", "N") and op in "+-*/":
            return Val(f"({a.term}.map (fun a' => a' {op} {co(b, 'F')}))", "AF")
        if b.ty == "AF" and a.ty in ("F", "LIT", "N") and op in "+-*/":
            return Val(f"({b.term}.map (fun a' => {co(a, 'F')} {op} a'))", "AF")
        t = join_num(a, b)
        if op == "/":
            if t in ("LIT", "N", "I"):
                if t == "I":
                    raise Untranslatable("true division of Python ints held as Int")
                t = "F"     # int / int is a float in Python
            return Val(f"({co(a, t)} / {co(b, t)})", t)
        if t == "LIT":
            return Val({"+": a.term + b.term, "-": a.term - b.term, "*": a.term * b.term}[op], "LIT")
        if t == "N" and op == "-":
            t = "I"         # a difference of counts can be negative
        return Val(f"({co(a, t)} {op} {co(b, t)})", t)

    def cmp1(self, a, op, b):
        if a.ty == "SHAPE" and b.ty == "SHAPE":
            if isinstance(op, ast.Eq):
                return f"decide ({a.term} = {b.term})"
            if isinstance(op, ast.NotEq):
                return f"(!decide ({a.term} = {b.term}))"
            raise Untranslatable("ordering of shapes")
        t = join_num(a, b)
        if t == "LIT":
            t = "I"
        x, y = co(a, t), co(b, t)
        if isinstance(op, ast.Lt):
            return f"decide ({x} < {y})"
        if isinstance(op, ast.Gt):
            return f"decide ({y} < {x})"
        if isinstance(op, ast.LtE):
            return f"decide ({x} ≤ {y})"
        if isinstance(op, ast.GtE):
            return f"decide ({y} ≤ {x})"
        if t in ("I", "N"):
            if isinstance(op, ast.Eq):
                return f"decide ({x} = {y})"
            if isinstance(op, ast.NotEq):
                return f"(!decide ({x} = {y}))"
        raise Untranslatable(f"comparison {type(op).__name__} on {t}")

    def compare_pure(self, n, st):
        """a comparison (chain) in value position: operands are evaluated once, left to right"""
        vs = [self.ev(n.left, st)] + [self.ev(c, st) for c in n.comparators]
        parts = [self.cmp1(vs[i], n.ops[i], vs[i + 1]) for i in range(len(n.ops))]
        return Val(parts[0] if len(parts) == 1 else "(" + " && ".join(parts) + ")", "B")

    def callname(self, c):
        f = c.func
        if isinstance(f, ast.Name):
            return ("", f.id)
        if isinstance(f, ast.Attribute):
            if isinstance(f.value, ast.Name):
                return (f.value.id, f.attr)
            if isinstance(f.value, ast.Attribute) and isinstance(f.value.value, ast.Name):
                return (f.value.value.id + "." + f.value.attr, f.attr)
            return ("<expr>", f.attr)
        return ("?", "?")

    def kw(self, c, allowed):
        out = {}
        for k in c.keywords:
            if k.arg not in allowed:
                raise Untranslatable(f"keyword argument {k.arg} of {self.callname(c)[1]}")
            out[k.arg] = k.value
        return out

    def call(self, c, st):
        mod, name = self.callname(c)
        # ---- methods of self
        if mod == "self":
            return self.callself(name, c, st)
        # ---- constructor
        if (mod, name) in (("", CLS), ("", "cls")) or (mod == "" and name == "type"):
            if name == "type":
                raise Untranslatable("type(...)")
            if c.keywords or len(c.args) != 9:
                raise Untranslatable("constructor call that does not pass exactly the nine geometry arguments positionally")
            init = self.method("__init__")
            args = [co(self.ev(a, st), t) for a, t in zip(c.args, INIT_PARAMS)]
            self.uses.add("lin")
            return Val(f"(init lin {' '.join(args)})", "LAT")
        # ---- numpy / builtins
        if (mod, name) in (("np", "searchsorted"), ("numpy", "searchsorted")):
            kws = self.kw(c, {"side", "a", "v"})
            pos = list(c.args)
            a = pos[0] if pos else kws.get("a")
            v = pos[1] if len(pos) > 1 else kws.get("v")
            if a is None or v is None or len(pos) > 2:
                raise Untranslatable("searchsorted arguments")
            side = kws.get("side")
            sd = "left" if side is None else (side.value if isinstance(side, ast.Constant) else None)
            if sd not in ("left", "right"):
                raise Untranslatable("searchsorted side")
            arr, val = self.ev(a, st), self.ev(v, st)
            if arr.ty != "AF":
                raise Untranslatable("searchsorted on " + arr.ty)
            fn = "searchRight" if sd == "right" else "searchLeft"
            return Val(f"(({fn} {arr.term} {co(val, 'F')} : Nat) : Int)", "I")
        if (mod, name) in (("np", "array"), ("np", "asarray"), ("numpy", "array"), ("numpy", "asarray")):
            kws = self.kw(c, {"dtype"})
            if "dtype" in kws and not (isinstance(kws["dtype"], ast.Name) and kws["dtype"].id == "float") \
                    and not (isinstance(kws["dtype"], ast.Attribute) and kws["dtype"].attr == "float64"):
                raise Untranslatable("np.array dtype")
            if len(c.args) != 1:
                raise Untranslatable("np.array arguments")
            v = self.ev(c.args[0], st)
            if v.ty != "AF":
                raise Untranslatable("np.array of " + v.ty)
            return v
        if (mod, name) in (("np", "abs"), ("np", "absolute"), ("np", "fabs"), ("", "abs"), ("math", "fabs"),
                           ("numpy", "abs")) and len(c.args) == 1 and not c.keywords:
            v = self.ev(c.args[0], st)
            if v.ty == "AF":
                return Val(f"({v.term}.map absG)", "AF")
            if v.ty in ("F", "N", "LIT"):
                return Val(f"(absG {co(v, 'F')})", "F")
            raise Untranslatable("abs of " + v.ty)
        if ((mod, name) in (("np", "argmin"), ("numpy", "argmin")) and len(c.args) == 1 and not c.keywords) or \
                (name == "argmin" and not c.args and not c.keywords and mod not in ("np", "numpy")):
            arr = self.ev(c.args[0] if c.args else c.func.value, st)
            if arr.ty != "AF":
                raise Untranslatable("argmin of " + arr.ty)
            return Val(f"((argminFirst {arr.term} : Nat) : Int)", "I")
        if (mod, name) == ("", "int") and len(c.args) == 1 and not c.keywords:
            v = self.ev(c.args[0], st)
            if v.ty in ("I", "N", "LIT"):
                return v
            raise Untranslatable("int() of " + v.ty)
        if (mod, name) == ("", "float") and len(c.args) == 1 and not c.keywords:
            v = self.ev(c.args[0], st)
            if v.ty in ("F", "V"):
                return v
            raise Untranslatable("float() of " + v.ty)
        if (mod, name) == ("", "list") and len(c.args) == 1 and not c.keywords:
            v = self.ev(c.args[0], st)
            if v.ty == "LLAT":
                return v
            raise Untranslatable("list() of " + v.ty)
        if (mod, name) == ("", "isinstance") and len(c.args) == 2 and not c.keywords:
            v = self.ev(c.args[0], st)
            k = c.args[1]
            if v.ty == "LAT" and isinstance(k, ast.Name) and k.id == CLS:
                return Val("true", "B")        # operands of the model ARE lattices
            if v.ty == "AF" and isinstance(k, ast.Name) and k.id == "list":
                return Val(None, "UB")         # list or ndarray: not observable in the model
            raise Untranslatable("isinstance test")
        if (mod, name) in (("np", "linspace"), ("numpy", "linspace")) and len(c.args) == 3 and not c.keywords:
            a, b, k = (self.ev(x, st) for x in c.args)
            self.uses.add("lin")
            return Val(f"(lin {co(a, 'F')} {co(b, 'F')} {co(k, 'N')})", "AF")
        if (mod, name) in (("np", "zeros"), ("numpy", "zeros")) and len(c.args) == 1 and not c.keywords:
            sh = self.ev(c.args[0], st)
            if sh.ty != "T" or len(sh.items) != 3:
                raise Untranslatable("np.zeros shape")
            a, b, k = (co(x, "N") for x in sh.items)
            return Val(f"(List.replicate ({a} * {b} * {k}) ((0 : Nat) : β))", "G")
        if (mod, name) in (("np", "ndindex"), ("numpy", "ndindex")) and len(c.args) == 1 and not c.keywords:
            sh = self.ev(c.args[0], st)
            if sh.ty != "SHAPE":
                raise Untranslatable("np.ndindex of " + sh.ty)
            return Val(f"(ndindex {' '.join(sh.items)})", "NDX")
        if (mod, name) in (("np", "mean"), ("numpy", "mean")) and len(c.args) == 1:
            kws = self.kw(c, {"axis"})
            ax = kws.get("axis")
            if not (isinstance(ax, ast.Constant) and ax.value == 0 and not isinstance(ax.value, bool)):
                raise Untranslatable("np.mean without axis=0")
            v = self.ev(c.args[0], st)
            if v.ty != "LG":
                raise Untranslatable("np.mean of " + v.ty)
            return Val(f"(npMeanAxis0 {v.term})", "G")
        if name == "interpn" and mod in ("", "scipy.interpolate"):
            kws = self.kw(c, {"method"})
            if len(c.args) != 3 or "method" not in kws:
                raise Untranslatable("interpn arguments")
            pts, vals, xi, m = (self.ev(x, st) for x in (c.args[0], c.args[1], c.args[2], kws["method"]))
            if pts.ty != "T" or len(pts.items) != 3 or any(p.ty != "AF" for p in pts.items) or vals.ty != "G" \
                    or xi.ty != "T" or len(xi.items) != 3 or m.ty != "M":
                raise Untranslatable("interpn argument types")
            self.uses.add("interp")
            p = " ".join(x.term for x in pts.items)
            return Val(self.bind(st, f"interp {p} {vals.term} {co(xi, 'T3F')} {m.term}"), "V")
        # ---- a callable parameter applied to two grids (numpy: element-wise)
        if mod == "" and name in st.env and st.env[name].ty == "FN" and len(c.args) == 2 and not c.keywords:
            a, b = self.ev(c.args[0], st), self.ev(c.args[1], st)
            if a.ty != "G" or b.ty != "G":
                raise Untranslatable("callable applied to " + a.ty + ", " + b.ty)
            return Val(f"(List.zipWith {st.env[name].term} {a.term} {b.term})", "G")
        raise Untranslatable(f"call of {mod + '.' if mod else ''}{name}")

    def callself(self, name, c, st, as_stmt=False):
        if name not in SIGS:
            raise Untranslatable(f"call of self.{name} (not in the translated fragment)")
        lname, ptys, rty, mutates, warnobs = SIGS[name]
        info = self.method(name)
        f = self.fdef(name)
        pnames = [a.arg for a in f.args.args[1:]]
        if ptys and ptys[0].startswith("*"):
            raise Untranslatable("call of a variadic method")
        slots = [None] * len(ptys)
        if len(c.args) > len(ptys):
            raise Untranslatable(f"too many arguments for self.{name}")
        for i, a in enumerate(c.args):
            if isinstance(a, ast.Starred):
                raise Untranslatable("starred argument")
            slots[i] = a
        for k in c.keywords:
            if k.arg not in pnames or slots[pnames.index(k.arg)] is not None:
                raise Untranslatable(f"keyword argument {k.arg} of self.{name}")
            slots[pnames.index(k.arg)] = k.value
        if any(s is None for s in slots):
            raise Untranslatable(f"missing argument of self.{name} (defaults are not modelled)")
        # Python evaluates positional arguments, then keyword arguments, in source order
        order = sorted(range(len(slots)), key=lambda i: (slots[i].lineno, slots[i].col_offset))
        vals = {}
        for i in order:
            vals[i] = co(self.ev(slots[i], st), ptys[i])
        args = [vals[i] for i in range(len(slots))]
        self.uses |= info["uses"]
        head = [lname] + [u for u in ("lin", "interp") if u in info["uses"]]
        if info["self"]:
            head.append(self.selfval(st).term)
        if mutates and st.frozen_self:
            raise Untranslatable("self is modified inside a loop over lattices")
        t = self.bind(st, " ".join(head + args))
        if mutates:
            if warnobs:
                st.L, st.warned = f"{t}.1", or_(st.warned, f"{t}.2")
            else:
                st.L = t
            return Val("none", "NONE")
        if warnobs:
            st.warned = or_(st.warned, f"{t}.2")
            t = f"{t}.1"
        if rty in ("T3I", "T3F"):
            e = rty[2]
            return Val(None, "T", [Val(f"{t}.1", e), Val(f"{t}.2.1", e), Val(f"{t}.2.2", e)])
        return Val(t, rty)

    # ------------------------------------------------------------------ conditions (short-circuit, CPS)
    def cond(self, n, st, kt, kf, ind):
        """text that evaluates the condition in `st` and continues with kt(st', ind) / kf(st', ind)"""
        pad = "  " * ind
        if isinstance(n, ast.UnaryOp) and isinstance(n.op, ast.Not):
            return self.cond(n.operand, st, kf, kt, ind)
        # a condition without anything that can raise: one Boolean term
        probe = st.copy()
        keep = self.ntmp
        try:
            v = self.ev(n, probe)
            pure = not probe.pend and probe.L == st.L and probe.warned == st.warned
        except Untranslatable:
            pure = False
        self.ntmp = keep
        if pure:
            v = self.ev(n, st)
            if v.ty != "B":
                raise Untranslatable("condition of type " + v.ty)
            if v.term == "true":
                return kt(st, ind)
            if v.term == "false":
                return kf(st, ind)
            a, b = st.copy(), st.copy()
            return f"{pad}if {v.term} then\n{kt(a, ind + 1)}\n{pad}else\n{kf(b, ind + 1)}"
        if isinstance(n, ast.BoolOp):
            rest = n.values[1:]
            nxt = rest[0] if len(rest) == 1 else ast.BoolOp(op=n.op, values=rest)
            if isinstance(n.op, ast.And):
                return self.cond(n.values[0], st, lambda s, i: self.cond(nxt, s, kt, kf, i), kf, ind)
            return self.cond(n.values[0], st, kt, lambda s, i: self.cond(nxt, s, kt, kf, i), ind)
        if isinstance(n, ast.Compare) and len(n.ops) > 1:
            a = self.ev(n.left, st)
            return self.chain(a, list(n.ops), list(n.comparators), st, kt, kf, ind)
        v = self.ev(n, st)
        if v.ty != "B":
            raise Untranslatable("condition of type " + v.ty)
        pre = self.flush(st, ind)
        a, b = st.copy(), st.copy()
        return f"{pre}{pad}if {v.term} then\n{kt(a, ind + 1)}\n{pad}else\n{kf(b, ind + 1)}"

    def chain(self, a, ops, comps, st, kt, kf, ind):
        pad = "  " * ind
        b = self.ev(comps[0], st)
        test = self.cmp1(a, ops[0], b)
        pre = self.flush(st, ind)
        s1, s2 = st.copy(), st.copy()
        if len(ops) == 1:
            yes = kt(s1, ind + 1)
        else:
            yes = self.chain(b, ops[1:], comps[1:], s1, kt, kf, ind + 1)
        return f"{pre}{pad}if {test} then\n{yes}\n{pad}else\n{kf(s2, ind + 1)}"

    # ------------------------------------------------------------------ statements
    def run(self, ss, st, ind, fin):
        """text of the statement list `ss` followed by `fin(st, ind)` when control falls off its end"""
        if not ss:
            return fin(st, ind)
        s, rest = ss[0], ss[1:]
        pad = "  " * ind
        go = lambda s_, i_: self.run(rest, s_, i_, fin)     # noqa: E731
        if isinstance(s, ast.Pass):
            return go(st, ind)
        if isinstance(s, ast.Expr):
            v = s.value
            if isinstance(v, ast.Constant) and isinstance(v.value, str):
                return go(st, ind)
            if isinstance(v, ast.Call):
                mod, name = self.callname(v)
                if (mod, name) == ("warnings", "warn"):
                    st.warned = "true"
                    return go(st, ind)
                if mod == "self" and name in SIGS and SIGS[name][3]:
                    self.callself(name, v, st)
                    return self.flush(st, ind) + go(st, ind)
            raise Untranslatable("expression statement " + ast.dump(v)[:70])
        if isinstance(s, ast.Return):
            if st.noreturn:
                raise Untranslatable("return inside a loop")
            return self.ret(s.value, st, ind)
        if isinstance(s, ast.Raise):
            e = s.exc
            cls = e.func.id if isinstance(e, ast.Call) and isinstance(e.func, ast.Name) else \
                e.id if isinstance(e, ast.Name) else None
            if cls not in EXC or s.cause is not None:
                raise Untranslatable("raise of " + str(cls))
            return f"{pad}.error {EXC[cls]}"
        if isinstance(s, ast.If):
            if self.unobservable(s.test, st):
                # a test the model cannot observe (list vs ndarray): both branches must leave the same state
                if s.orelse:
                    raise Untranslatable("isinstance(values, list) with an else branch")
                b = st.copy()
                marker = "\0END\0"
                txt = self.run(list(s.body), b, ind, lambda s_, i_: marker)
                if txt != marker or b.pend or b.L != st.L or b.warned != st.warned or \
                        {k: (v.term, v.ty) for k, v in b.env.items()} != {k: (v.term, v.ty) for k, v in st.env.items()}:
                    raise Untranslatable("a branch on isinstance(values, list) that is not a pure conversion")
                return go(st, ind)
            return self.cond(s.test, st,
                             lambda s_, i_: self.run(list(s.body) + rest, s_, i_, fin),
                             lambda s_, i_: self.run(list(s.orelse) + rest, s_, i_, fin), ind)
        if isinstance(s, (ast.Assign, ast.AnnAssign)):
            if isinstance(s, ast.AnnAssign):
                if s.value is None:
                    return go(st, ind)
                targets = [s.target]
            else:
                targets = s.targets
            if len(targets) != 1:
                raise Untranslatable("chained assignment")
            return self.assign(targets[0], s.value, st, ind, go)
        if isinstance(s, ast.AugAssign):
            binop = ast.BinOp(left=self._as_load(s.target), op=s.op, right=s.value)
            ast.copy_location(binop, s)
            if isinstance(s.target, ast.Attribute):
                # grid_ *= factor : numpy broadcasts the scalar
                o = self.ev(s.target, st)
                f = self.ev(s.value, st)
                op = {ast.Add: "+", ast.Sub: "-", ast.Mult: "*", ast.Div: "/"}.get(type(s.op))
                if o.ty != "G" or o.items is None or op is None or f.ty not in ("V", "LIT", "N"):
                    raise Untranslatable("augmented assignment to an attribute")
                new = Val(f"({o.term}.map (fun g' => g' {op} {co(f, 'V')}))", "G")
                return self.store_attr(s.target, new, st, ind, go)
            return self.assign(s.target, binop, st, ind, go)
        if isinstance(s, ast.For):
            return self.loop(s, rest, st, ind, fin)
        raise Untranslatable("statement " + type(s).__name__)

    def unobservable(self, test, st):
        """`isinstance(values, list)`: list or ndarray is not a distinction of the model"""
        if not (isinstance(test, ast.Call) and self.callname(test) == ("", "isinstance")):
            return False
        probe = st.copy()
        keep = self.ntmp
        try:
            v = self.ev(test, probe)
        except Untranslatable:
            return False
        finally:
            self.ntmp = keep
        return v.ty == "UB"

    @staticmethod
    def _as_load(t):
        c = ast.parse(ast.unparse(t), mode="eval").body
        return c

    def store_attr(self, target, v, st, ind, go):
        """<lattice>.grid_ = v   (a local lattice, or self)"""
        pad = "  " * ind
        if target.attr != "grid_" or v.ty != "G":
            raise Untranslatable(f"assignment to .{target.attr}")
        if isinstance(target.value, ast.Name) and target.value.id == "self":
            if st.frozen_self:
                raise Untranslatable("self is modified inside a loop over lattices")
            t = self.tmp()
            pre = self.flush(st, ind)
            out = f"{pre}{pad}let {t} : Lat α β := {{ {self.selfval(st).term} with grid := {v.term} }}\n"
            st.L = t
            return out + go(st, ind)
        if isinstance(target.value, ast.Name) and target.value.id in st.env and st.env[target.value.id].ty == "LAT":
            x = target.value.id
            pre = self.flush(st, ind)
            out = f"{pre}{pad}let {nm(x)} : Lat α β := {{ {st.env[x].term} with grid := {v.term} }}\n"
            st.env[x] = Val(nm(x), "LAT")
            return out + go(st, ind)
        raise Untranslatable("assignment to an attribute of " + ast.dump(target.value)[:40])

    def assign(self, target, value, st, ind, go):
        pad = "  " * ind
        if isinstance(target, ast.Name):
            v = self.ev(value, st)
            pre = self.flush(st, ind)
            if v.ty in ("T", "NONE", "LIT", "UB") or v.ty not in LEAN_TY:
                st.env[target.id] = v               # tuples / literals stay symbolic
                return pre + go(st, ind)
            if v.term == nm(target.id) and target.id in st.env and st.env[target.id].ty == v.ty:
                return pre + go(st, ind)            # x = <conversion that is the identity in the model>(x)
            st.env[target.id] = Val(nm(target.id), v.ty, v.items)
            return f"{pre}{pad}let {nm(target.id)} : {LEAN_TY[v.ty]} := {v.term}\n" + go(st, ind)
        if isinstance(target, (ast.Tuple, ast.List)):
            v = self.ev(value, st)
            if v.ty != "T" or len(v.items) != len(target.elts) or not all(isinstance(e, ast.Name) for e in target.elts):
                raise Untranslatable("unpacking")
            pre = self.flush(st, ind)
            for e, x in zip(target.elts, v.items):
                st.env[e.id] = x
            return pre + go(st, ind)
        if isinstance(target, ast.Subscript):
            o = self.ev(target.value, st)
            if o.ty != "G" or o.items is None or o.items != (st.L or ""):
                raise Untranslatable("item assignment to something other than self.grid_")
            if st.frozen_self:
                raise Untranslatable("self is modified inside a loop over lattices")
            # Python: right-hand side first, then the target's index expressions
            v = self.ev(value, st)
            i, j, k = self.index3(target.slice, st)
            t = self.bind(st, f"{st.L}.rawSet {i} {j} {k} {co(v, 'V')}")
            st.L = t
            return self.flush(st, ind) + go(st, ind)
        if isinstance(target, ast.Attribute):
            v = self.ev(value, st)
            return self.store_attr(target, v, st, ind, go)
        raise Untranslatable("assignment target " + type(target).__name__)

    def loop(self, s, rest, st, ind, fin):
        pad = "  " * ind
        if s.orelse:
            raise Untranslatable("for ... else")
        it = self.ev(s.iter, st)
        pre = self.flush(st, ind)
        before = {k: (v.term, v.ty) for k, v in st.env.items()}
        if it.ty == "LLAT" and isinstance(s.target, ast.Name):
            # body may only test and raise
            x = s.target.id
            b = st.copy()
            b.env[x] = Val(nm(x), "LAT")
            b.noreturn, b.frozen_self = True, True
            ends = []

            def end(s_, i_):
                ends.append(s_)
                return "  " * i_ + ".ok ()"
            body = self.run(list(s.body), b, ind + 1, end)
            for e in ends:
                if e.L != st.L or e.warned != st.warned or \
                        {k: (v.term, v.ty) for k, v in e.env.items() if k != x} != before:
                    raise Untranslatable("loop over lattices whose body changes the state")
            t = self.tmp()
            st.env.pop(x, None)
            return (f"{pre}{pad}(List.forM (m := Except Err) {it.term} (fun {nm(x)} =>\n{body})).bind fun {t} =>\n"
                    + self.run(rest, st, ind, fin))
        if it.ty == "NDX" and isinstance(s.target, (ast.Tuple, ast.List)) and len(s.target.elts) == 3 \
                and all(isinstance(e, ast.Name) for e in s.target.elts):
            # body may only write self.grid_
            acc, p = self.tmp(), self.tmp()
            b = st.copy()
            b.L = acc
            b.noreturn = True
            names = [e.id for e in s.target.elts]
            for e, proj in zip(names, (".1", ".2.1", ".2.2")):
                b.env[e] = Val(f"{p}{proj}", "N")
            ends = []

            def end(s_, i_):
                ends.append(s_)
                return "  " * i_ + f".ok {s_.L}"
            body = self.run(list(s.body), b, ind + 1, end)
            for e in ends:
                if e.warned != st.warned or \
                        {k: (v.term, v.ty) for k, v in e.env.items() if k not in names} != \
                        {k: v for k, v in before.items() if k not in names}:
                    raise Untranslatable("ndindex loop whose body changes more than the grid")
            t = self.tmp()
            cur = self.selfval(st).term
            st.L = t
            for e in names:
                st.env.pop(e, None)
            return (f"{pre}{pad}(List.foldlM (m := Except Err) (fun ({acc} : Lat α β) ({p} : Nat × Nat × Nat) =>\n{body}) {cur} {it.term})"
                    f".bind fun {t} =>\n" + self.run(rest, st, ind, fin))
        raise Untranslatable("for loop over " + it.ty)

    # ------------------------------------------------------------------ results
    def ret(self, node, st, ind):
        pad = "  " * ind
        name, (lname, ptys, rty, mutates, warnobs) = self.cur
        if mutates:
            if node is not None and not (isinstance(node, ast.Constant) and node.value is None):
                raise Untranslatable(f"{name} returns a value")
            pre = self.flush(st, ind)
            return f"{pre}{pad}.ok " + (f"({st.L}, {st.warned})" if warnobs else st.L)
        if node is None:
            node = ast.Constant(value=None)
        if isinstance(node, ast.IfExp):
            return self.cond(node.test, st, lambda s_, i_: self.ret(node.body, s_, i_),
                             lambda s_, i_: self.ret(node.orelse, s_, i_), ind)
        v = self.ev(node, st)
        if rty == "INFER":
            rty = {"F": "OPTF" if self.infer_opt else "F", "NONE": "OPTF", "V": "V"}.get(v.ty)
            if rty is None:
                raise Untranslatable("derived attribute of type " + v.ty)
            self.inferred.add(rty)
        if self.cur_self_const and st.L != "L":
            raise Untranslatable(f"{name} modifies self")
        t = co(v, rty)
        pre = self.flush(st, ind)
        return f"{pre}{pad}.ok " + (f"({t}, {st.warned})" if warnobs else t)

    # ------------------------------------------------------------------ one method
    def method(self, name):
        if name in self.done:
            return self.done[name]
        if name in self.active:
            raise Untranslatable(f"recursion through {name}")
        if name == "__init__":
            return self.init()
        self.active.append(name)
        saved = (getattr(self, "cur", None), getattr(self, "uses", None), getattr(self, "cur_self_const", None), self.ntmp)
        self.ntmp = 0
        lname, ptys, rty, mutates, warnobs = SIGS[name]
        f = self.fdef(name)
        a = f.args
        if a.kwonlyargs or a.kwarg or a.posonlyargs or not a.args:
            raise Untranslatable(f"{name}: parameter list")
        if f.decorator_list:
            raise Untranslatable(f"{name}: decorated")
        params = a.args[1:]
        selfname = a.args[0].arg
        variadic = bool(ptys) and ptys[0].startswith("*")
        if variadic:
            if params or a.vararg is None:
                raise Untranslatable(f"{name}: expected *lattices only")
            plist = [(a.vararg.arg, "LLAT")]
        else:
            if a.vararg is not None or len(params) != len(ptys):
                raise Untranslatable(f"{name}: expected {len(ptys)} parameters, found {len(params)}")
            plist = [(p.arg, t) for p, t in zip(params, ptys)]
        if selfname != "self":
            raise Untranslatable("first parameter is not called self")
        self.cur = (name, SIGS[name])
        self.uses = set()
        self.cur_self_const = not mutates
        env = {p: Val(nm(p), t) for p, t in plist}
        st = St(env, "L")
        body = self.run(list(f.body), st, 1, lambda s_, i_: self.ret(None, s_, i_))
        uses_self = self._mentions_self(body)
        if mutates:
            res = "Lat α β × Bool" if warnobs else "Lat α β"
        else:
            res = LEAN_TY[rty]
            if warnobs:
                res = f"({res}) × Bool"
        binders = []
        if "lin" in self.uses:
            binders.append("(lin : α → α → Nat → List α)")
        if "interp" in self.uses:
            binders.append("(interp : List α → List α → List α → List β → α × α × α → M → Except Err β)")
        if uses_self:
            binders.append("(L : Lat α β)")
        binders += [f"({nm(p)} : {LEAN_TY[t]})" for p, t in plist]
        text = (f"/-- `{CLS}.{name}` as written in the source -/\n"
                f"def {lname} {' '.join(binders)} : Except Err ({res}) :=\n{body}\n")
        info = dict(text=text, uses=set(self.uses), self=uses_self, lean=lname)
        self.done[name] = info
        self.order.append(name)
        self.regions.append(dict(file=FILE, region=name, sha=pyexpr.src_hash(self.source, f)))
        self.active.pop()
        self.cur, uses_prev, self.cur_self_const, self.ntmp = saved
        self.uses = uses_prev if uses_prev is not None else set()
        return info

    @staticmethod
    def _mentions_self(body):
        import re
        return re.search(r"(?<![A-Za-z0-9_'.])L(?![A-Za-z0-9_'])", body) is not None

    # ------------------------------------------------------------------ the constructor
    def init(self):
        f = self.fdef("__init__")
        a = f.args
        if a.vararg or a.kwarg or a.kwonlyargs or a.posonlyargs or len(a.args) < 10:
            raise Untranslatable("__init__: parameter list")
        params = [p.arg for p in a.args[1:]]
        geo = params[:9]
        ndef = len(a.defaults)
        if len(params) - ndef > 9:
            raise Untranslatable("__init__: more than nine parameters without default")
        saved = (getattr(self, "cur", None), getattr(self, "uses", None), getattr(self, "cur_self_const", None))
        saved_ntmp = self.ntmp
        self.active.append("__init__")
        self.uses = set()
        env = {p: Val(nm(p), t) for p, t in zip(geo, INIT_PARAMS)}
        for p in params[9:]:
            env[p] = Val(None, "IGN")
        st = St(env, None, selfattrs={})
        derived = {}
        for s in f.body:
            if isinstance(s, ast.Expr) and isinstance(s.value, ast.Constant) and isinstance(s.value.value, str):
                continue
            if isinstance(s, ast.AnnAssign) and s.value is not None:
                tgt, val = s.target, s.value
            elif isinstance(s, ast.Assign) and len(s.targets) == 1:
                tgt, val = s.targets[0], s.value
            else:
                raise Untranslatable("__init__: statement " + type(s).__name__)
            if isinstance(tgt, ast.Name):
                # a local of the constructor (hoisted subexpression): kept symbolic
                v = self.ev(val, st)
                if st.pend:
                    raise Untranslatable(f"__init__: local {tgt.id} computed by an expression that can raise")
                st.env[tgt.id] = v
                continue
            if not (isinstance(tgt, ast.Attribute) and isinstance(tgt.value, ast.Name) and tgt.value.id == "self"):
                raise Untranslatable("__init__: assignment to something other than an attribute of self")
            at = tgt.attr
            if at in IGNORED_INIT:
                continue
            if at in FIELDS:
                v = self.ev(val, st)
                if st.pend:
                    raise Untranslatable(f"__init__: {at} computed by an expression that can raise")
                fty = FIELDS[at][1]
                if fty in ("AF", "G"):
                    if v.ty != fty:
                        raise Untranslatable(f"__init__: {at} of type {v.ty}")
                    st.selfattrs[at] = Val(v.term, fty)
                else:
                    st.selfattrs[at] = Val(co(v, fty), fty)
                continue
            if at in DERIVED:
                derived[at] = (val, dict(st.selfattrs), dict(st.env))
                continue
            raise Untranslatable(f"__init__: attribute {at} (outside the translated fragment)")
        missing = [k for k in FIELDS if k not in st.selfattrs]
        if missing:
            raise Untranslatable("__init__: attributes not assigned: " + ", ".join(missing))
        missing = [k for k in DERIVED if k not in derived]
        if missing:
            raise Untranslatable("__init__: derived attributes not assigned: " + ", ".join(missing))
        byfield = {FIELDS[k][0]: st.selfattrs[k].term for k in FIELDS}
        pbind = " ".join(f"({nm(p)} : {LEAN_TY[t]})" for p, t in zip(geo, INIT_PARAMS))
        fields = ",\n    ".join(f"{k} := {byfield[k]}" for k in FIELD_ORDER)
        text = (f"/-- `{CLS}.__init__`: the record built from the nine geometry arguments -/\n"
                f"def init (lin : α → α → Nat → List α) {pbind} : Lat α β :=\n  {{ {fields} }}\n")
        # derived attributes: one definition each, as functions of the constructor arguments
        for at in DERIVED:
            val, attrs, env_at = derived[at]
            self.cur = ("__init__." + at, ("attr_" + at, [], "INFER", False, False))
            self.cur_self_const = False
            self.infer_opt = isinstance(val, ast.IfExp)
            self.inferred = set()
            before = set(self.uses)
            self.uses = set()
            s2 = St(dict(env_at), None, selfattrs=attrs)
            self.ntmp = 0
            body = self.ret(val, s2, 1)
            if len(self.inferred) != 1:
                raise Untranslatable(f"__init__: {at} has branches of different types")
            rty = self.inferred.pop()
            lb = "(lin : α → α → Nat → List α) "
            self.uses = before
            text += (f"\n/-- `self.{at}` as computed by `__init__` -/\n"
                     f"def attr_{at} {lb}{pbind} : Except Err ({LEAN_TY[rty]}) :=\n{body}\n")
        info = dict(text=text, uses={"lin"}, self=False, lean="init")
        self.done["__init__"] = info
        self.order.append("__init__")
        self.regions.append(dict(file=FILE, region="__init__", sha=pyexpr.src_hash(self.source, f)))
        self.active.pop()
        self.cur, self.uses, self.cur_self_const = saved
        self.ntmp = saved_ntmp
        if self.uses is None:
            self.uses = set()
        return info


HEADER = """-- GENERATED by harness/translate/lattice.py from src/sparkx/Lattice3D.py -- do not edit
import SparkxVerif.Core.Lattice

set_option linter.unusedVariables false

namespace SparkxVerif.Gen.Lattice3D
open SparkxVerif.Lattice (Err Lat pyGet searchRight searchLeft argminFirst absG ndindex npMeanAxis0)

variable {α β M : Type} [LT α] [LE α] [DecidableLT α] [DecidableLE α] [Add α] [Sub α] [Neg α] [NatCast α] [Mul α] [Div α]
  [Add β] [Sub β] [Mul β] [Div β] [NatCast β]
"""


def render(source: str):
    tr = Tr(source)
    tr.method("__init__")
    for m in ROOTS:
        tr.method(m)
    L = [HEADER]
    for m in tr.order:
        L.append(tr.done[m]["text"])
    L.append("end SparkxVerif.Gen.Lattice3D")
    info = {m: dict(lean=tr.done[m]["lean"], uses=sorted(tr.done[m]["uses"]), self=tr.done[m]["self"]) for m in tr.order}
    return "\n".join(L) + "\n", tr.regions, info
