"""Tie T for C02: `BaseStorer.particle_list` (src/sparkx/BaseStorer.py) -> Gen/ParticleList.lean.

`Core/ReaderSel.lean: particleList` is a hand-written mirror of the method: the `num_events_ == 1` branch reads
`num_output_per_event_[0][1]`, the other branch `num_output_per_event_[:, 1]` (needs a 2-D array) and loops over
`range(num_events)`.  The one thing that decides whether "particle_list() works" after constructor filters that keep
no event is an early return for `num_events == 0`.  Extracted on every run from the tree under test:

  * `zeroEventsGuard` : does `num_events == 0` reach the (then empty) event loop / the end of the method without
    indexing the counts array, either through a statement before the array is indexed
        if num_events == 0: return []          (also accepted: `if not num_events`, `if num_events < 1`, `<= 0`)
    or through a branch of the first `if num_events == 1` chain
        elif num_events == 0: num_particles = <something that does not index num_output_per_event_>
  * checked (not rendered): the two indexing expressions and the two loops still have the shape the model mirrors;
    the skeleton hash of the rest of the method is compared with the recorded one (a change is reported as a note and
    decided by tie C).
"""
import ast
import hashlib

CLS = "BaseStorer"
FN = "particle_list"
GOLDEN_SKELETON = "4518759fe71a85ec"  # skeleton (method minus the guard) the hand-written model mirrors; tie C decides when it differs


class Untranslatable(Exception):
    pass


def _find(tree):
    for node in tree.body:
        if isinstance(node, ast.ClassDef) and node.name == CLS:
            for f in node.body:
                if isinstance(f, ast.FunctionDef) and f.name == FN:
                    return f
    raise Untranslatable(f"{CLS}.{FN} not found")


def _is_name(n, name="num_events"):
    return isinstance(n, ast.Name) and n.id == name


def _is_zero_test(t):
    """`num_events == 0` and equivalents for a non-negative integer"""
    if isinstance(t, ast.Compare) and len(t.ops) == 1 and _is_name(t.left) and isinstance(t.comparators[0], ast.Constant):
        v = t.comparators[0].value
        if isinstance(t.ops[0], ast.Eq) and v == 0:
            return True
        if isinstance(t.ops[0], ast.LtE) and v == 0:
            return True
        if isinstance(t.ops[0], ast.Lt) and v == 1:
            return True
    if isinstance(t, ast.UnaryOp) and isinstance(t.op, ast.Not) and _is_name(t.operand):
        return True
    return False


def _returns_empty_list(body):
    return (len(body) == 1 and isinstance(body[0], ast.Return) and isinstance(body[0].value, ast.List)
            and len(body[0].value.elts) == 0)


def _indexes_counts(node):
    for n in ast.walk(node):
        if isinstance(n, ast.Subscript) and isinstance(n.value, ast.Attribute) and n.value.attr == "num_output_per_event_":
            return True
    return False


def render(src):
    tree = ast.parse(src)
    f = _find(tree)
    body = [s for s in f.body if not (isinstance(s, ast.Expr) and isinstance(s.value, ast.Constant))]
    # num_events = self.num_events_
    if not any(isinstance(s, ast.Assign) and len(s.targets) == 1 and _is_name(s.targets[0]) and
               isinstance(s.value, ast.Attribute) and s.value.attr == "num_events_" for s in body):
        raise Untranslatable("`num_events = self.num_events_` not found")
    guard = False
    rest = []
    seen_index = False
    for s in body:
        if isinstance(s, ast.If) and _is_zero_test(s.test) and not s.orelse and _returns_empty_list(s.body) and not seen_index:
            guard = True
            continue
        if _indexes_counts(s):
            seen_index = True
        rest.append(s)
    # shape checks on what the model mirrors
    ifs = [s for s in rest if isinstance(s, ast.If) and isinstance(s.test, ast.Compare) and _is_name(s.test.left)
           and isinstance(s.test.ops[0], ast.Eq) and isinstance(s.test.comparators[0], ast.Constant)
           and s.test.comparators[0].value == 1]
    if len(ifs) != 2:
        raise Untranslatable(f"expected two `if num_events == 1` statements, found {len(ifs)}")
    first = ifs[0]
    if len(first.orelse) == 1 and isinstance(first.orelse[0], ast.If) and _is_zero_test(first.orelse[0].test):
        inner = first.orelse[0]
        if not any(_indexes_counts(x) for x in inner.body) and inner.orelse:
            guard = True
            first.orelse = inner.orelse          # the rest is the shape the model mirrors
    seg = ast.unparse(first)
    if "self.num_output_per_event_[0][1]" not in seg or "self.num_output_per_event_[:, 1]" not in seg:
        raise Untranslatable("the indexing expressions `[0][1]` / `[:, 1]` are not where the model expects them")
    loop = ast.unparse(ifs[1])
    if "range(0, num_particles)" not in loop or "range(0, num_events)" not in loop or "range(0, num_particles[i_ev])" not in loop:
        raise Untranslatable("the particle loops do not have the shape the model mirrors")
    skeleton = hashlib.sha256("\n".join(ast.dump(s) for s in rest).encode()).hexdigest()[:16]
    region_src = ast.get_source_segment(src, f) or ""
    text = f"""/-
GENERATED by harness/translate/particlelist.py from src/sparkx/BaseStorer.py ({CLS}.{FN}) — do not edit.
`zeroEventsGuard`: the method returns `[]` for `num_events_ == 0` before it indexes `num_output_per_event_`.
-/
namespace SparkxVerif.Gen.ParticleList

def zeroEventsGuard : Bool := {"true" if guard else "false"}

end SparkxVerif.Gen.ParticleList
"""
    regions = [dict(region=f"BaseStorer.py:{CLS}.{FN}", lines=[f.lineno, f.end_lineno],
                    sha=hashlib.sha256(region_src.encode()).hexdigest()[:16], skeleton_sha=skeleton,
                    zero_events_guard=guard)]
    return text, regions
