"""Tie T for C11: QCumulantFlow.__calculate_corr (numpy over per-event vectors) -> Gen/QCumulant.lean.

The three `if k == K:` blocks of `__calculate_corr` are straight-line numpy: assignments of expressions over the
per-event vectors `mult`, `Qn`, `Q2n`, `Q3n` and scalars derived from them.  The translator does a small shape
inference (SR real scalar, SC complex scalar, VR real per-event vector, VC complex per-event vector), maps numpy
operations to Core/Vec.lean and emits, for each K, `corrK (evs : List (Event α)) : α` = the value returned as
`corr`, with one `let` per source assignment it depends on.  Anything outside the fragment raises Untranslatable.
"""
import ast

from . import pyexpr
from .pyexpr import Untranslatable

SR, SC, VR, VC = "SR", "SC", "VR", "VC"


class T:
    def __init__(self, term, ty):
        self.term, self.ty = term, ty


def lit(v):
    if isinstance(v, bool) or not isinstance(v, (int, float)):
        raise Untranslatable(f"literal {v!r}")
    if float(v) == int(v) and abs(v) < 2 ** 53:
        n = int(v)
        return f"(nat {n})" if n >= 0 else f"(-(nat {-n}))"
    a, b = abs(float(v)).as_integer_ratio()
    t = f"(nat {a} / nat {b})"
    return t if v > 0 else f"(-{t})"


class Tr:
    def __init__(self, env):
        self.env = dict(env)  # name -> T

    def call_name(self, f):
        if isinstance(f, ast.Attribute) and isinstance(f.value, ast.Name) and f.value.id == "np":
            return "np." + f.attr
        return None

    def qn_harmonic(self, node):
        """self.__Qn(phi, self.n_) / self.__Qn(phi, 2 * self.n_) -> m"""
        if not (isinstance(node, ast.Call) and isinstance(node.func, ast.Attribute) and node.func.attr.endswith("__Qn")
                and isinstance(node.func.value, ast.Name) and node.func.value.id == "self" and len(node.args) == 2):
            return None
        if not (isinstance(node.args[0], ast.Name) and node.args[0].id == "phi"):
            raise Untranslatable("__Qn on something other than phi")
        h = node.args[1]
        if isinstance(h, ast.Attribute) and h.attr == "n_":
            return 1
        if isinstance(h, ast.BinOp) and isinstance(h.op, ast.Mult):
            for a, b in ((h.left, h.right), (h.right, h.left)):
                if isinstance(a, ast.Constant) and isinstance(a.value, int) and isinstance(b, ast.Attribute) and b.attr == "n_":
                    return a.value
        raise Untranslatable("harmonic of __Qn: " + ast.unparse(h))

    def e(self, n):
        m = self.qn_harmonic(n)
        if m is not None:
            return T(f"(evs.map (Qm {m}))", VC)
        if isinstance(n, ast.Name):
            if n.id in self.env:
                return T(n.id + "_", self.env[n.id].ty)
            raise Untranslatable("unknown name " + n.id)
        if isinstance(n, ast.Constant):
            return T(lit(n.value), SR)
        if isinstance(n, ast.UnaryOp) and isinstance(n.op, ast.USub):
            a = self.e(n.operand)
            if a.ty == SR:
                return T(f"(-{a.term})", SR)
            if a.ty == VR:
                return T(f"(vneg {a.term})", VR)
            raise Untranslatable("negation of " + a.ty)
        if isinstance(n, ast.Attribute) and n.attr in ("real", "imag"):
            a = self.e(n.value)
            f = "re" if n.attr == "real" else "im"
            if a.ty == SC:
                return T(f"({a.term}).{f}", SR)
            if a.ty == VC:
                return T(f"(c{f} {a.term})", VR)
            if a.ty in (SR, VR) and n.attr == "real":
                return a
            raise Untranslatable(f".{n.attr} of {a.ty}")
        if isinstance(n, ast.Call):
            if isinstance(n.func, ast.Attribute) and n.func.attr == "conj" and not n.args:
                a = self.e(n.func.value)
                if a.ty == VC:
                    return T(f"(cconj {a.term})", VC)
                if a.ty == SC:
                    return T(f"(Cx.conj {a.term})", SC)
                if a.ty in (SR, VR):
                    return a
            name = self.call_name(n.func)
            args = [self.e(a) for a in n.args] if name not in ("np.power",) else None
            if name == "np.sum" and len(args) == 1:
                a = args[0]
                if a.ty == VR:
                    return T(f"(vsum {a.term})", SR)
                if a.ty == VC:
                    return T(f"(csum {a.term})", SC)
            if name == "np.real" and len(args) == 1:
                a = args[0]
                if a.ty == SC:
                    return T(f"({a.term}).re", SR)
                if a.ty == VC:
                    return T(f"(cre {a.term})", VR)
                if a.ty in (SR, VR):
                    return a
            if name in ("np.inner", "np.vdot") and len(args) == 2:
                a, b = args
                if a.ty == VR and b.ty == VR:
                    return T(f"(inner {a.term} {b.term})", SR)
                if a.ty == VC and b.ty == VC:
                    return T(f"({'cinner' if name == 'np.inner' else 'cvdot'} {a.term} {b.term})", SC)
            if name == "np.square" and len(args) == 1:
                a = args[0]
                if a.ty == VR:
                    return T(f"(vsquare {a.term})", VR)
                if a.ty == VC:
                    return T(f"(csquare {a.term})", VC)
                if a.ty == SR:
                    return T(f"({a.term} * {a.term})", SR)
            if name == "np.multiply" and len(args) == 2:
                return self.binop(ast.Mult(), args[0], args[1])
            if name == "np.power" and len(n.args) == 2 and isinstance(n.args[1], ast.Constant) \
                    and isinstance(n.args[1].value, int) and n.args[1].value >= 0:
                a = self.e(n.args[0])
                k = n.args[1].value
                if a.ty == VR:
                    return T(f"(vpow {a.term} {k})", VR)
                if a.ty == VC:
                    return T(f"(cpowv {a.term} {k})", VC)
                if a.ty == SR:
                    return T(f"(npow {a.term} {k})", SR)
            raise Untranslatable("call " + ast.unparse(n)[:70])
        if isinstance(n, ast.BinOp):
            if isinstance(n.op, ast.Pow):
                a = self.e(n.left)
                if isinstance(n.right, ast.Constant) and float(n.right.value) == int(n.right.value) and n.right.value >= 0 and a.ty == SR:
                    return T(f"(npow {a.term} {int(n.right.value)})", SR)
                raise Untranslatable("power " + ast.unparse(n)[:60])
            return self.binop(n.op, self.e(n.left), self.e(n.right))
        raise Untranslatable("expression " + ast.unparse(n)[:70])

    def binop(self, op, a, b):
        o = {ast.Add: "add", ast.Sub: "sub", ast.Mult: "mul", ast.Div: "div"}.get(type(op))
        if o is None:
            raise Untranslatable("operator " + type(op).__name__)
        sym = {"add": "+", "sub": "-", "mul": "*", "div": "/"}[o]
        t = (a.ty, b.ty)
        if t == (SR, SR):
            return T(f"({a.term} {sym} {b.term})", SR)
        if t == (VR, VR):
            return T(f"(v{o} {a.term} {b.term})", VR)
        if t == (SR, VR):
            f = {"add": "sadd", "sub": "ssub", "mul": "smul", "div": "sdiv"}.get(o)
            if f:
                return T(f"({f} {a.term} {b.term})", VR)
        if t == (VR, SR):
            f = {"add": "vadds", "sub": "vsubs", "mul": "vmuls", "div": "vdivs"}[o]
            return T(f"({f} {a.term} {b.term})", VR)
        if t == (VC, VC) and o in ("add", "sub", "mul"):
            return T(f"(c{o} {a.term} {b.term})", VC)
        if t == (SC, SC) and o in ("add", "sub", "mul"):
            return T(f"({a.term} {sym} {b.term})", SC)
        if o == "mul" and t == (VR, VC):
            return T(f"(rcmul {a.term} {b.term})", VC)
        if o == "mul" and t == (VC, VR):
            return T(f"(rcmul {b.term} {a.term})", VC)
        if o == "mul" and t == (SR, VC):
            return T(f"(scmul {a.term} {b.term})", VC)
        if o == "mul" and t == (VC, SR):
            return T(f"(scmul {b.term} {a.term})", VC)
        if o == "mul" and t == (SR, SC):
            return T(f"(Cx.smul {a.term} {b.term})", SC)
        if o == "mul" and t == (SC, SR):
            return T(f"(Cx.smul {b.term} {a.term})", SC)
        raise Untranslatable(f"{o} of {t}")


LEAN_TY = {SR: "α", SC: "Cx α", VR: "List α", VC: "List (Cx α)"}


def _is_mult_def(v):
    return ast.unparse(v).replace(" ", "") == "np.array([float(len(i))foriinphi])"


def extract(source):
    tree = ast.parse(source)
    fn = None
    for c in tree.body:
        if isinstance(c, ast.ClassDef) and c.name == "QCumulantFlow":
            for f in c.body:
                if isinstance(f, ast.FunctionDef) and f.name == "__calculate_corr":
                    fn = f
    if fn is None:
        raise Untranslatable("__calculate_corr not found")
    body = fn.body
    if body and isinstance(body[0], ast.Expr) and isinstance(getattr(body[0], "value", None), ast.Constant):
        body = body[1:]
    prelude, blocks = [], {}
    for st in body:
        if isinstance(st, ast.Assign):
            if blocks:
                raise Untranslatable("assignment after the k-blocks")
            prelude.append(st)
        elif isinstance(st, ast.If):
            cur = st
            while True:
                t = cur.test
                if not (isinstance(t, ast.Compare) and isinstance(t.left, ast.Name) and t.left.id == "k"
                        and isinstance(t.ops[0], ast.Eq) and isinstance(t.comparators[0], ast.Constant)):
                    raise Untranslatable("dispatch is not `k == K`")
                blocks[t.comparators[0].value] = cur.body
                if len(cur.orelse) == 1 and isinstance(cur.orelse[0], ast.If):
                    cur = cur.orelse[0]
                    continue
                if cur.orelse and not all(isinstance(x, ast.Raise) for x in cur.orelse):
                    raise Untranslatable("unexpected else branch")
                break
        else:
            raise Untranslatable("unexpected statement " + ast.unparse(st)[:50])
    if sorted(blocks) != [2, 4, 6]:
        raise Untranslatable(f"k-blocks found: {sorted(blocks)}")
    return fn, prelude, blocks


def render_block(prelude, block, K):
    """returns Lean text of `corrK`"""
    assigns = []
    ret = None
    for st in list(prelude) + list(block):
        if isinstance(st, ast.Assign):
            if len(st.targets) != 1 or not isinstance(st.targets[0], ast.Name):
                raise Untranslatable("assignment target " + ast.unparse(st.targets[0]))
            assigns.append((st.targets[0].id, st.value))
        elif isinstance(st, ast.Return):
            ret = st.value
        elif isinstance(st, ast.Expr) and isinstance(st.value, ast.Constant):
            continue
        else:
            raise Untranslatable("statement in block: " + ast.unparse(st)[:50])
    if not (isinstance(ret, ast.Tuple) and len(ret.elts) == 3 and isinstance(ret.elts[0], ast.Name)):
        raise Untranslatable("return is not `corr, corr_err, ebe`")
    target = ret.elts[0].id
    # dependency closure of the returned correlator (names may be re-assigned: keep source order, last wins before use)
    needed = {target}
    order = []
    for name, val in reversed(assigns):
        if name in needed:
            order.append((name, val))
            needed.discard(name)
            for x in ast.walk(val):
                if isinstance(x, ast.Name) and x.id not in ("np", "phi", "self", "float", "len", "i"):
                    needed.add(x.id)
    needed -= {"k"}
    if needed:
        raise Untranslatable("undefined names: " + ", ".join(sorted(needed)))
    order.reverse()
    tr = Tr({})
    lets = []
    for name, val in order:
        if _is_mult_def(val):
            t = T("(evs.map mult)", VR)
        else:
            t = tr.e(val)
        tr.env[name] = t
        lets.append(f"  let {name}_ : {LEAN_TY[t.ty]} := {t.term}")
    fin = tr.env[target]
    if fin.ty != SR:
        raise Untranslatable("returned correlator is not a real scalar")
    return (f"/-- `corr` returned by the `k == {K}` block of `__calculate_corr` -/\n"
            f"def corr{K} (evs : List (Event α)) : α :=\n" + "\n".join(lets) + f"\n  {target}_\n")


def render(source):
    fn, prelude, blocks = extract(source)
    L = ["-- GENERATED by harness/translate/qcumulant.py from src/sparkx/flow/QCumulantFlow.py -- do not edit",
         "import SparkxVerif.Core.Vec", "import SparkxVerif.Core.QCumulant", "", "namespace SparkxVerif.Gen.QCumulant",
         "open SparkxVerif SparkxVerif.Vec SparkxVerif.QC", "",
         "variable {α : Type} [Add α] [Sub α] [Mul α] [Div α] [Neg α] [NatCast α]", ""]
    for K in (2, 4, 6):
        L.append(render_block(prelude, blocks[K], K))
    L.append("end SparkxVerif.Gen.QCumulant")
    regions = [dict(file="flow/QCumulantFlow.py", region="__calculate_corr", sha=pyexpr.src_hash(source, fn))]
    return "\n".join(L) + "\n", regions
