"""Tie T for C11: QCumulantFlow (numpy over per-event vectors, scalar if-chains) -> Gen/QCumulant.lean.

Three fragments of src/sparkx/flow/QCumulantFlow.py are re-translated on every run:

1. `__calculate_corr`.  The three `if k == K:` blocks are straight-line numpy: assignments of expressions over the
   per-event vectors `mult`, `Qn`, `Q2n`, `Q3n` and scalars derived from them.  The translator does a small shape
   inference (SR real scalar, SC complex scalar, VR real per-event vector, VC complex per-event vector), maps numpy
   operations to Core/Vec.lean and emits, for each K, `corrK (evs : List (Event α)) : α` = the value returned as
   `corr`, with one `let` per source assignment it depends on.

2. The scalar decision logic (`__init__`: `cumulant_factor_`; `__cumulant_flow`: `cum2/cum4/cum6`;
   `__flow_from_cumulant`, `__flow_from_cumulant_differential`), by symbolic execution of the if-chains
   (second half of this file).

3. The differential bin function `__compute_differential_flow_bin`, VALUE PART ONLY (everything that feeds the
   error estimate - variance, *_err, covariance terms, avg_vn*_err* - is ignored; it is simply never reached by the
   dependency closure of the translated values).  Emitted:
     `dargs2 (evs : List (PEvent α)) (c2 : α) : α × Cx α`     the two arguments of the call of
         `__flow_from_cumulant_differential` whose result is returned when `self.k_ == 2`
     `dargs4 (evs : List (PEvent α)) (c2 c4 : α) : α × Cx α`  the same for `self.k_ == 4`
   The statements of the function are put in execution order for the given order K (`if self.k_ == C:` blocks are
   entered iff C == K); the value returned is `[<v>.real, …]`, the LAST assignment of `<v>` must be the call; the
   dependency closure of its two arguments becomes one `let` per source assignment (same shape inference as in 1).
   What the parameters mean is DERIVED from `differential_flow`, not assumed:
     * the list `full_event_quantities` is found as the first argument of the (single) call of
       `__compute_differential_flow_bin`; its element i is resolved through the list literal assigned to that name
       (the unconditional one for K = 2, the one under `if self.k_ == 4:` for K = 4) and the definition of the
       element's name: `self.__Qn(<all>, m * self.n_)` -> Q-vectors `Qm m (full e)`; `[len(i) for i in <all>]` ->
       `mult (full e)`; first component of `self.__calculate_corr(<all>, k=2 / k=4)` -> the scalar `c2` / `c4`;
       every other element is opaque (using it raises Untranslatable).  `<all>` must be one and the same name.
     * the second and third argument of the call site must be the SAME expression (today `phi_bin_poi[bin]`: all
       particles are reference particles, so the POI∩reference set is the POI set); both parameters then denote
       the POI sub-event `poi e` of the flagged event (`self.__Qn(p, m * self.n_)` -> `Qm m (poi e)`,
       `np.array([len(i) for i in p])` -> `mult (poi e)`).  WHICH particles the binning loop of
       `differential_flow` puts into that list is not translated; that is tie C (op `gdflow` / `dflow` of the
       driver against the public `differential_flow`).
   numpy forms added for this fragment: `np.divide(num, w, out=np.zeros_like(num), where=(w != 0))` ->
   `cdivGuard`; `np.vdot(real, complex)` -> `rcvdot`; complex ± real vectors -> `cradd/crsub`; complex scalar /
   real scalar -> `cdivs`; `np.array(x)` of something that already is a vector -> `x`.
   `feq_layout(source)` exports the derived layout of `full_event_quantities` so that the harness can call the
   private function with a correctly built argument.

Anything outside the fragments raises Untranslatable (the harness then falls back to the golden model +
correspondence).
"""
import ast

from . import pyexpr
from .pyexpr import Untranslatable

SR, SC, VR, VC = "SR", "SC", "VR", "VC"


class T:
    def __init__(self, term, ty):
        self.term, self.ty = term, ty


def lit(v):
    if isinstance(v, bool) or not isinstance(v, (int, float)):
        raise Untranslatable(f"literal {v!r}")
    if float(v) == int(v) and abs(v) < 2 ** 53:
        n = int(v)
        return f"(nat {n})" if n >= 0 else f"(-(nat {-n}))"
    a, b = abs(float(v)).as_integer_ratio()
    t = f"(nat {a} / nat {b})"
    return t if v > 0 else f"(-{t})"


def _harmonic(h):
    """self.n_ -> 1, m * self.n_ / self.n_ * m -> m"""
    if isinstance(h, ast.Attribute) and h.attr == "n_":
        return 1
    if isinstance(h, ast.BinOp) and isinstance(h.op, ast.Mult):
        for a, b in ((h.left, h.right), (h.right, h.left)):
            if isinstance(a, ast.Constant) and isinstance(a.value, int) and not isinstance(a.value, bool) and a.value >= 0 \
                    and isinstance(b, ast.Attribute) and b.attr == "n_":
                return a.value
    raise Untranslatable("harmonic of __Qn: " + ast.unparse(h))


class Tr:
    # name of the angle list handed to __Qn -> Lean event selector applied to `e` ("" = the event itself)
    qn_sources = {"phi": ""}

    def __init__(self, env):
        self.env = dict(env)  # name -> T
        self.qn_src = ""

    def call_name(self, f):
        if isinstance(f, ast.Attribute) and isinstance(f.value, ast.Name) and f.value.id == "np":
            return "np." + f.attr
        return None

    def qn_harmonic(self, node):
        """self.__Qn(phi, self.n_) / self.__Qn(phi, 2 * self.n_) -> m"""
        if not (isinstance(node, ast.Call) and isinstance(node.func, ast.Attribute) and node.func.attr.endswith("__Qn")
                and isinstance(node.func.value, ast.Name) and node.func.value.id == "self" and len(node.args) == 2):
            return None
        if not (isinstance(node.args[0], ast.Name) and node.args[0].id in self.qn_sources):
            raise Untranslatable("__Qn on something other than " + "/".join(sorted(self.qn_sources)))
        self.qn_src = self.qn_sources[node.args[0].id]
        return _harmonic(node.args[1])

    def e(self, n):
        m = self.qn_harmonic(n)
        if m is not None:
            if self.qn_src == "":
                return T(f"(evs.map (Qm {m}))", VC)
            return T(f"(evs.map (fun e => Qm {m} ({self.qn_src} e)))", VC)
        if isinstance(n, ast.Name):
            if n.id in self.env:
                return T(n.id + "_", self.env[n.id].ty)
            raise Untranslatable("unknown name " + n.id)
        if isinstance(n, ast.Constant):
            return T(lit(n.value), SR)
        if isinstance(n, ast.UnaryOp) and isinstance(n.op, ast.USub):
            a = self.e(n.operand)
            if a.ty == SR:
                return T(f"(-{a.term})", SR)
            if a.ty == VR:
                return T(f"(vneg {a.term})", VR)
            raise Untranslatable("negation of " + a.ty)
        if isinstance(n, ast.Attribute) and n.attr in ("real", "imag"):
            a = self.e(n.value)
            f = "re" if n.attr == "real" else "im"
            if a.ty == SC:
                return T(f"({a.term}).{f}", SR)
            if a.ty == VC:
                return T(f"(c{f} {a.term})", VR)
            if a.ty in (SR, VR) and n.attr == "real":
                return a
            raise Untranslatable(f".{n.attr} of {a.ty}")
        if isinstance(n, ast.Call):
            if isinstance(n.func, ast.Attribute) and n.func.attr == "conj" and not n.args:
                a = self.e(n.func.value)
                if a.ty == VC:
                    return T(f"(cconj {a.term})", VC)
                if a.ty == SC:
                    return T(f"(Cx.conj {a.term})", SC)
                if a.ty in (SR, VR):
                    return a
            name = self.call_name(n.func)
            args = [self.e(a) for a in n.args] if name not in ("np.power",) else None
            if name == "np.sum" and len(args) == 1:
                a = args[0]
                if a.ty == VR:
                    return T(f"(vsum {a.term})", SR)
                if a.ty == VC:
                    return T(f"(csum {a.term})", SC)
            if name == "np.real" and len(args) == 1:
                a = args[0]
                if a.ty == SC:
                    return T(f"({a.term}).re", SR)
                if a.ty == VC:
                    return T(f"(cre {a.term})", VR)
                if a.ty in (SR, VR):
                    return a
            if name in ("np.inner", "np.vdot") and len(args) == 2:
                a, b = args
                if a.ty == VR and b.ty == VR:
                    return T(f"(inner {a.term} {b.term})", SR)
                if a.ty == VC and b.ty == VC:
                    return T(f"({'cinner' if name == 'np.inner' else 'cvdot'} {a.term} {b.term})", SC)
            if name == "np.square" and len(args) == 1:
                a = args[0]
                if a.ty == VR:
                    return T(f"(vsquare {a.term})", VR)
                if a.ty == VC:
                    return T(f"(csquare {a.term})", VC)
                if a.ty == SR:
                    return T(f"({a.term} * {a.term})", SR)
            if name == "np.multiply" and len(args) == 2:
                return self.binop(ast.Mult(), args[0], args[1])
            if name == "np.power" and len(n.args) == 2 and isinstance(n.args[1], ast.Constant) \
                    and isinstance(n.args[1].value, int) and n.args[1].value >= 0:
                a = self.e(n.args[0])
                k = n.args[1].value
                if a.ty == VR:
                    return T(f"(vpow {a.term} {k})", VR)
                if a.ty == VC:
                    return T(f"(cpowv {a.term} {k})", VC)
                if a.ty == SR:
                    return T(f"(npow {a.term} {k})", SR)
            raise Untranslatable("call " + ast.unparse(n)[:70])
        if isinstance(n, ast.BinOp):
            if isinstance(n.op, ast.Pow):
                a = self.e(n.left)
                if isinstance(n.right, ast.Constant) and float(n.right.value) == int(n.right.value) and n.right.value >= 0 and a.ty == SR:
                    return T(f"(npow {a.term} {int(n.right.value)})", SR)
                raise Untranslatable("power " + ast.unparse(n)[:60])
            return self.binop(n.op, self.e(n.left), self.e(n.right))
        raise Untranslatable("expression " + ast.unparse(n)[:70])

    def binop(self, op, a, b):
        o = {ast.Add: "add", ast.Sub: "sub", ast.Mult: "mul", ast.Div: "div"}.get(type(op))
        if o is None:
            raise Untranslatable("operator " + type(op).__name__)
        sym = {"add": "+", "sub": "-", "mul": "*", "div": "/"}[o]
        t = (a.ty, b.ty)
        if t == (SR, SR):
            return T(f"({a.term} {sym} {b.term})", SR)
        if t == (VR, VR):
            return T(f"(v{o} {a.term} {b.term})", VR)
        if t == (SR, VR):
            f = {"add": "sadd", "sub": "ssub", "mul": "smul", "div": "sdiv"}.get(o)
            if f:
                return T(f"({f} {a.term} {b.term})", VR)
        if t == (VR, SR):
            f = {"add": "vadds", "sub": "vsubs", "mul": "vmuls", "div": "vdivs"}[o]
            return T(f"({f} {a.term} {b.term})", VR)
        if t == (VC, VC) and o in ("add", "sub", "mul"):
            return T(f"(c{o} {a.term} {b.term})", VC)
        if t == (SC, SC) and o in ("add", "sub", "mul"):
            return T(f"({a.term} {sym} {b.term})", SC)
        if o == "mul" and t == (VR, VC):
            return T(f"(rcmul {a.term} {b.term})", VC)
        if o == "mul" and t == (VC, VR):
            return T(f"(rcmul {b.term} {a.term})", VC)
        if o == "mul" and t == (SR, VC):
            return T(f"(scmul {a.term} {b.term})", VC)
        if o == "mul" and t == (VC, SR):
            return T(f"(scmul {b.term} {a.term})", VC)
        if o == "mul" and t == (SR, SC):
            return T(f"(Cx.smul {a.term} {b.term})", SC)
        if o == "mul" and t == (SC, SR):
            return T(f"(Cx.smul {b.term} {a.term})", SC)
        raise Untranslatable(f"{o} of {t}")


LEAN_TY = {SR: "α", SC: "Cx α", VR: "List α", VC: "List (Cx α)"}


def _is_mult_def(v):
    return ast.unparse(v).replace(" ", "") == "np.array([float(len(i))foriinphi])"


def extract(source):
    tree = ast.parse(source)
    fn = None
    for c in tree.body:
        if isinstance(c, ast.ClassDef) and c.name == "QCumulantFlow":
            for f in c.body:
                if isinstance(f, ast.FunctionDef) and f.name == "__calculate_corr":
                    fn = f
    if fn is None:
        raise Untranslatable("__calculate_corr not found")
    body = fn.body
    if body and isinstance(body[0], ast.Expr) and isinstance(getattr(body[0], "value", None), ast.Constant):
        body = body[1:]
    prelude, blocks = [], {}
    for st in body:
        if isinstance(st, ast.Assign):
            if blocks:
                raise Untranslatable("assignment after the k-blocks")
            prelude.append(st)
        elif isinstance(st, ast.If):
            cur = st
            while True:
                t = cur.test
                if not (isinstance(t, ast.Compare) and isinstance(t.left, ast.Name) and t.left.id == "k"
                        and isinstance(t.ops[0], ast.Eq) and isinstance(t.comparators[0], ast.Constant)):
                    raise Untranslatable("dispatch is not `k == K`")
                blocks[t.comparators[0].value] = cur.body
                if len(cur.orelse) == 1 and isinstance(cur.orelse[0], ast.If):
                    cur = cur.orelse[0]
                    continue
                if cur.orelse and not all(isinstance(x, ast.Raise) for x in cur.orelse):
                    raise Untranslatable("unexpected else branch")
                break
        else:
            raise Untranslatable("unexpected statement " + ast.unparse(st)[:50])
    if sorted(blocks) != [2, 4, 6]:
        raise Untranslatable(f"k-blocks found: {sorted(blocks)}")
    return fn, prelude, blocks


def render_block(prelude, block, K):
    """returns Lean text of `corrK`"""
    assigns = []
    ret = None
    for st in list(prelude) + list(block):
        if isinstance(st, ast.Assign):
            if len(st.targets) != 1 or not isinstance(st.targets[0], ast.Name):
                raise Untranslatable("assignment target " + ast.unparse(st.targets[0]))
            assigns.append((st.targets[0].id, st.value))
        elif isinstance(st, ast.Return):
            ret = st.value
        elif isinstance(st, ast.Expr) and isinstance(st.value, ast.Constant):
            continue
        else:
            raise Untranslatable("statement in block: " + ast.unparse(st)[:50])
    if not (isinstance(ret, ast.Tuple) and len(ret.elts) == 3 and isinstance(ret.elts[0], ast.Name)):
        raise Untranslatable("return is not `corr, corr_err, ebe`")
    target = ret.elts[0].id
    # dependency closure of the returned correlator (names may be re-assigned: keep source order, last wins before use)
    needed = {target}
    order = []
    for name, val in reversed(assigns):
        if name in needed:
            order.append((name, val))
            needed.discard(name)
            for x in ast.walk(val):
                if isinstance(x, ast.Name) and x.id not in ("np", "phi", "self", "float", "len", "i"):
                    needed.add(x.id)
    needed -= {"k"}
    if needed:
        raise Untranslatable("undefined names: " + ", ".join(sorted(needed)))
    order.reverse()
    tr = Tr({})
    lets = []
    for name, val in order:
        if _is_mult_def(val):
            t = T("(evs.map mult)", VR)
        else:
            t = tr.e(val)
        tr.env[name] = t
        lets.append(f"  let {name}_ : {LEAN_TY[t.ty]} := {t.term}")
    fin = tr.env[target]
    if fin.ty != SR:
        raise Untranslatable("returned correlator is not a real scalar")
    return (f"/-- `corr` returned by the `k == {K}` block of `__calculate_corr` -/\n"
            f"def corr{K} (evs : List (Event α)) : α :=\n" + "\n".join(lets) + f"\n  {target}_\n")


# ---------------------------------------------------------------------------------------------------------------
# second fragment: the scalar decision logic around the correlators
#   __init__             : the table `cumulant_factor_`
#   __cumulant_flow      : which combination of <<2>>, <<4>>, <<6>> is handed to __flow_from_cumulant for k = 2, 4, 6
#   __flow_from_cumulant / __flow_from_cumulant_differential : the `imaginary` decision tables
# They are straight-line scalar code with if-chains; the translator executes them symbolically (state: name -> Lean
# term, an `if` becomes `if c then .. else ..` on every name the branches disagree on).  `x ** (a / self.k_)` becomes
# the abstract root `root x k` (a = 1) / `rootp x a k`, `float("nan")` the `Flow.nan` outcome.

def _method(source, name):
    tree = ast.parse(source)
    for c in tree.body:
        if isinstance(c, ast.ClassDef) and c.name == "QCumulantFlow":
            for f in c.body:
                if isinstance(f, ast.FunctionDef) and f.name == name:
                    return f
    raise Untranslatable(name + " not found")


def _strip_doc(body):
    if body and isinstance(body[0], ast.Expr) and isinstance(getattr(body[0], "value", None), ast.Constant):
        return body[1:]
    return body


def _is_self_attr(n, attr):
    return isinstance(n, ast.Attribute) and n.attr == attr and isinstance(n.value, ast.Name) and n.value.id == "self"


NAN = "<nan>"


class Scalar:
    """symbolic execution of the scalar decision functions; `rootp` selects the three-argument root"""

    def __init__(self, rootp):
        self.rootp = rootp

    def e(self, n, st):
        if isinstance(n, ast.Name):
            if n.id in st:
                return st[n.id]
            raise Untranslatable("unknown name " + n.id)
        if isinstance(n, ast.Constant):
            return lit(n.value)
        if isinstance(n, ast.Call) and isinstance(n.func, ast.Name) and n.func.id == "float" and len(n.args) == 1 \
                and isinstance(n.args[0], ast.Constant) and str(n.args[0].value).lower() == "nan":
            return NAN
        if isinstance(n, ast.Subscript) and _is_self_attr(n.value, "cumulant_factor_"):
            ix = n.slice
            if _is_self_attr(ix, "k_"):
                return "(factor k)"
            if isinstance(ix, ast.Constant) and isinstance(ix.value, int):
                return f"(factor {ix.value})"
            raise Untranslatable("index of cumulant_factor_: " + ast.unparse(ix))
        if isinstance(n, ast.UnaryOp) and isinstance(n.op, ast.USub):
            a = self.e(n.operand, st)
            if a == NAN:
                raise Untranslatable("arithmetic on nan")
            return f"(-{a})"
        if isinstance(n, ast.BinOp):
            if isinstance(n.op, ast.Pow):
                a = self.e(n.left, st)
                r = n.right
                if isinstance(r, ast.BinOp) and isinstance(r.op, ast.Div) and isinstance(r.left, ast.Constant) \
                        and isinstance(r.left.value, int) and r.left.value > 0 and _is_self_attr(r.right, "k_"):
                    if self.rootp:
                        return f"(rootp {a} {r.left.value} k)"
                    if r.left.value == 1:
                        return f"(root {a} k)"
                raise Untranslatable("power " + ast.unparse(n)[:60])
            sym = {ast.Add: "+", ast.Sub: "-", ast.Mult: "*", ast.Div: "/"}.get(type(n.op))
            if sym is None:
                raise Untranslatable("operator " + type(n.op).__name__)
            a, b = self.e(n.left, st), self.e(n.right, st)
            if NAN in (a, b):
                raise Untranslatable("arithmetic on nan")
            return f"({a} {sym} {b})"
        raise Untranslatable("scalar expression " + ast.unparse(n)[:70])

    def cond(self, t, st):
        if isinstance(t, ast.Compare) and len(t.ops) == 1:
            l, r, op = t.left, t.comparators[0], t.ops[0]
            if _is_self_attr(l, "imaginary_") and isinstance(op, ast.Eq) and isinstance(r, ast.Constant) \
                    and r.value in ("zero", "negative", "nan"):
                return f"im = Imag.{r.value}"
            if _is_self_attr(l, "k_") and isinstance(op, ast.Eq) and isinstance(r, ast.Constant) and isinstance(r.value, int):
                return f"k = {r.value}"
            sym = {ast.Lt: "<", ast.LtE: "≤", ast.Gt: ">", ast.GtE: "≥"}.get(type(op))
            if sym:
                return f"{self.e(l, st)} {sym} {self.e(r, st)}"
        raise Untranslatable("condition " + ast.unparse(t)[:70])

    def run(self, stmts, st):
        st = dict(st)
        for s in stmts:
            if isinstance(s, ast.Assign) and len(s.targets) == 1 and isinstance(s.targets[0], ast.Name):
                st[s.targets[0].id] = self.e(s.value, st)
            elif isinstance(s, ast.If):
                c = self.cond(s.test, st)
                a, b = self.run(s.body, st), self.run(s.orelse, st)
                if "<return>" in a or "<return>" in b:
                    raise Untranslatable("return inside a branch")
                for name in sorted(set(a) | set(b)):
                    if name not in a or name not in b:
                        raise Untranslatable(f"{name} assigned on one branch only")
                    st[name] = a[name] if a[name] == b[name] else ("ite", c, a[name], b[name])
            elif isinstance(s, ast.Return) and isinstance(s.value, ast.Name):
                st["<return>"] = st[s.value.id]
                break
            elif isinstance(s, ast.Expr) and isinstance(s.value, ast.Constant):
                continue
            else:
                raise Untranslatable("statement " + ast.unparse(s)[:60])
        return st


def _flow_term(v, ind):
    pad = "  " * ind
    if isinstance(v, tuple):
        _, c, a, b = v
        return f"{pad}if {c} then\n{_flow_term(a, ind + 1)}\n{pad}else\n{_flow_term(b, ind + 1)}"
    return pad + (".nan" if v == NAN else f".val {v}")


def render_flow_from_cumulant(source):
    fn = _method(source, "__flow_from_cumulant")
    args = [a.arg for a in fn.args.args]
    if len(args) != 2:
        raise Untranslatable("__flow_from_cumulant arguments")
    st = Scalar(False).run(_strip_doc(fn.body), {args[1]: "cnk"})
    if "<return>" not in st:
        raise Untranslatable("__flow_from_cumulant returns nothing")
    return ("/-- `__flow_from_cumulant` -/\n"
            "def flowFromCumulant (root : α → Nat → α) (k : Nat) (im : Imag) (cnk : α) : Flow α :=\n"
            + _flow_term(st["<return>"], 1) + "\n"), fn


def render_dflow(source):
    fn = _method(source, "__flow_from_cumulant_differential")
    args = [a.arg for a in fn.args.args]
    if len(args) != 3:
        raise Untranslatable("__flow_from_cumulant_differential arguments")
    st = Scalar(True).run(_strip_doc(fn.body), {args[1]: "cnk", args[2]: "dnk"})
    if "<return>" not in st:
        raise Untranslatable("__flow_from_cumulant_differential returns nothing")
    return ("/-- `__flow_from_cumulant_differential` -/\n"
            "def dflow (rootp : α → Nat → Nat → α) (k : Nat) (im : Imag) (cnk : α) (dnk : α) : Flow α :=\n"
            + _flow_term(st["<return>"], 1) + "\n"), fn


def render_factor(source):
    fn = _method(source, "__init__")
    table = None
    for s in ast.walk(fn):
        tgt = None
        if isinstance(s, ast.AnnAssign):
            tgt, val = s.target, s.value
        elif isinstance(s, ast.Assign) and len(s.targets) == 1:
            tgt, val = s.targets[0], s.value
        if tgt is not None and _is_self_attr(tgt, "cumulant_factor_"):
            if table is not None or not isinstance(val, ast.Dict):
                raise Untranslatable("cumulant_factor_ is not one dict literal")
            table = val
    if table is None:
        raise Untranslatable("cumulant_factor_ not found")
    sc = Scalar(False)
    rows = []
    for kk, vv in zip(table.keys, table.values):
        if not (isinstance(kk, ast.Constant) and isinstance(kk.value, int) and kk.value >= 0):
            raise Untranslatable("cumulant_factor_ key")
        rows.append((kk.value, sc.e(vv, {})))
    if len({k for k, _ in rows}) != len(rows):
        raise Untranslatable("duplicate cumulant_factor_ key")
    body = "".join(f"  | {k} => {v}\n" for k, v in rows)
    return ("/-- the table `cumulant_factor_` of `__init__` (orders missing from the table are never used: `__init__`\n"
            "rejects them; here they read 0) -/\n"
            "def factor (k : Nat) : α :=\n  match k with\n" + body + "  | _ => (nat 0)\n"), fn


def render_cumulants(source):
    """for K in 2,4,6: the argument handed to __flow_from_cumulant in the `self.k_ == K` branch of __cumulant_flow,
    as a function of the three correlators"""
    fn = _method(source, "__cumulant_flow")
    body = _strip_doc(fn.body)
    if len(body) != 1 or not isinstance(body[0], ast.If):
        raise Untranslatable("__cumulant_flow is not one if-chain")
    cur, branches = body[0], {}
    while True:
        t = cur.test
        if not (isinstance(t, ast.Compare) and _is_self_attr(t.left, "k_") and isinstance(t.ops[0], ast.Eq)
                and isinstance(t.comparators[0], ast.Constant)):
            raise Untranslatable("__cumulant_flow dispatch is not `self.k_ == K`")
        branches[t.comparators[0].value] = cur.body
        if len(cur.orelse) == 1 and isinstance(cur.orelse[0], ast.If):
            cur = cur.orelse[0]
            continue
        if cur.orelse and not all(isinstance(x, ast.Raise) for x in cur.orelse):
            raise Untranslatable("__cumulant_flow: unexpected else branch")
        break
    if sorted(branches) != [2, 4, 6]:
        raise Untranslatable(f"__cumulant_flow branches: {sorted(branches)}")
    out = []
    for K in (2, 4, 6):
        env, arg = {}, None  # name -> ast of its defining expression | ("corr", K')
        for s in branches[K]:
            if isinstance(s, ast.Assign) and len(s.targets) == 1:
                tg, v = s.targets[0], s.value
                if isinstance(v, ast.Call) and isinstance(v.func, ast.Attribute) and v.func.attr.endswith("__flow_from_cumulant") \
                        and len(v.args) == 1:
                    if arg is not None:
                        raise Untranslatable("two calls of __flow_from_cumulant in one branch")
                    arg = (v.args[0], dict(env))
                    continue
                if isinstance(tg, ast.Tuple) and isinstance(v, ast.Call) and isinstance(v.func, ast.Attribute) \
                        and v.func.attr.endswith("__calculate_corr"):
                    kw = {k.arg: k.value for k in v.keywords}
                    kk = kw.get("k", v.args[1] if len(v.args) > 1 else None)
                    if not (isinstance(kk, ast.Constant) and kk.value in (2, 4, 6)) or not isinstance(tg.elts[0], ast.Name) \
                            or not (v.args and isinstance(v.args[0], ast.Name) and v.args[0].id == "phi"):
                        raise Untranslatable("call of __calculate_corr: " + ast.unparse(v))
                    env[tg.elts[0].id] = ("corr", kk.value)
                    for other in tg.elts[1:]:
                        if isinstance(other, ast.Name):
                            env[other.id] = ("opaque",)
                    continue
                if isinstance(tg, ast.Name):
                    env[tg.id] = v
                    continue
            # anything else (error propagation, returns) does not feed the flow value
        if arg is None:
            raise Untranslatable(f"no call of __flow_from_cumulant in the k == {K} branch")
        expr, env = arg

        lets, done = [], {}

        def resolve(name):
            if name in done:
                return
            d = env.get(name)
            if d is None or d == ("opaque",):
                raise Untranslatable(f"k == {K}: the cumulant depends on {name}")
            if isinstance(d, tuple):
                done[name] = T(name + "_", SR)
                lets.append(f"  let {name}_ : α := c{d[1]}")
                return
            for x in ast.walk(d):
                if isinstance(x, ast.Name) and x.id not in ("np", "self"):
                    resolve(x.id)
            t = Tr(done).e(d)
            if t.ty != SR:
                raise Untranslatable(f"k == {K}: {name} is not a real scalar")
            done[name] = t
            lets.append(f"  let {name}_ : α := {t.term}")

        for x in ast.walk(expr):
            if isinstance(x, ast.Name):
                resolve(x.id)
        fin = Tr(done).e(expr)
        if fin.ty != SR:
            raise Untranslatable("cumulant is not a real scalar")
        out.append(f"/-- what the `k_ == {K}` branch of `__cumulant_flow` hands to `__flow_from_cumulant`, from "
                   f"`<<2>>`, `<<4>>`, `<<6>>` -/\n"
                   f"def cum{K} (c2 c4 c6 : α) : α :=\n" + "".join(l + "\n" for l in lets) + f"  {fin.term}\n")
    return "\n".join(out), fn


# ---------------------------------------------------------------------------------------------------------------
# third fragment: the differential bin function `__compute_differential_flow_bin` (value part), see module docstring

BIN_FN = "__compute_differential_flow_bin"


def _k_test(t):
    """`self.k_ == C` -> C"""
    if isinstance(t, ast.Compare) and len(t.ops) == 1 and isinstance(t.ops[0], ast.Eq) and _is_self_attr(t.left, "k_") \
            and isinstance(t.comparators[0], ast.Constant) and isinstance(t.comparators[0].value, int):
        return t.comparators[0].value
    return None


def _len_listcomp(v):
    """`[len(i) for i in X]` / `[float(len(i)) for i in X]`, optionally inside np.array(...) -> 'X'"""
    if isinstance(v, ast.Call) and isinstance(v.func, ast.Attribute) and v.func.attr == "array" \
            and isinstance(v.func.value, ast.Name) and v.func.value.id == "np" and len(v.args) == 1 and not v.keywords:
        v = v.args[0]
    if not (isinstance(v, ast.ListComp) and len(v.generators) == 1):
        return None
    g = v.generators[0]
    if g.ifs or g.is_async or not isinstance(g.target, ast.Name) or not isinstance(g.iter, ast.Name):
        return None
    e = v.elt
    if isinstance(e, ast.Call) and isinstance(e.func, ast.Name) and e.func.id == "float" and len(e.args) == 1 and not e.keywords:
        e = e.args[0]
    if isinstance(e, ast.Call) and isinstance(e.func, ast.Name) and e.func.id == "len" and len(e.args) == 1 \
            and isinstance(e.args[0], ast.Name) and e.args[0].id == g.target.id:
        return g.iter.id
    return None


def _self_call(v, suffix):
    return isinstance(v, ast.Call) and isinstance(v.func, ast.Attribute) and v.func.attr.endswith(suffix) \
        and isinstance(v.func.value, ast.Name) and v.func.value.id == "self"


def _stored_names(node):
    return {x.id for x in ast.walk(node) if isinstance(x, ast.Name) and isinstance(x.ctx, (ast.Store, ast.Del))}


def _call_site(source):
    """the single call of the bin function in differential_flow -> (differential_flow node, bin function node,
    name of the list passed as full_event_quantities, [parameter names that receive the POI list])"""
    dfn = _method(source, "differential_flow")
    bfn = _method(source, BIN_FN)
    calls = [c for c in ast.walk(dfn) if _self_call(c, BIN_FN)]
    if len(calls) != 1:
        raise Untranslatable(f"{len(calls)} calls of {BIN_FN} in differential_flow")
    call = calls[0]
    a = bfn.args
    if a.vararg or a.kwarg or a.kwonlyargs or a.posonlyargs or a.defaults or len(a.args) != 4:
        raise Untranslatable(BIN_FN + " signature")
    params = [x.arg for x in a.args[1:]]
    if any(isinstance(x, ast.Starred) for x in call.args) or any(k.arg is None for k in call.keywords):
        raise Untranslatable("star arguments at the call site of " + BIN_FN)
    given = dict(zip(params, call.args))
    for k in call.keywords:
        if k.arg in given or k.arg not in params:
            raise Untranslatable("keyword arguments at the call site of " + BIN_FN)
        given[k.arg] = k.value
    if sorted(given) != sorted(params):
        raise Untranslatable("arguments at the call site of " + BIN_FN)
    feq = given[params[0]]
    if not isinstance(feq, ast.Name):
        raise Untranslatable("first argument of " + BIN_FN + " is not a name")
    if ast.dump(given[params[1]]) != ast.dump(given[params[2]]):
        raise Untranslatable(f"{BIN_FN} is called with different lists for {params[1]} ({ast.unparse(given[params[1]])}) "
                             f"and {params[2]} ({ast.unparse(given[params[2]])}): the model has q = p only")
    return dfn, bfn, feq.id, params


def feq_layout(source):
    """{2: [...], 4: [...]}: what element i of `full_event_quantities` is when `self.k_` is 2 / 4, derived from the
    place where the list is built in `differential_flow`.  Descriptors: ("Q", m) per-event Q-vector of harmonic m*n of
    the full events, ("M",) their multiplicities, ("corr", K, j) component j of `__calculate_corr(<all>, k=K)`,
    ("opaque",)."""
    dfn, bfn, feq, params = _call_site(source)
    out = {}
    for K in (2, 4):
        env, layout, allname = {}, [None], [None]

        def full(n):
            if not isinstance(n, ast.Name):
                raise Untranslatable("full-event quantity computed from " + ast.unparse(n))
            if allname[0] not in (None, n.id):
                raise Untranslatable(f"full-event quantities computed from different lists ({allname[0]}, {n.id})")
            allname[0] = n.id

        def run(stmts):
            for s in stmts:
                if isinstance(s, ast.Assign) and len(s.targets) == 1:
                    tg, v = s.targets[0], s.value
                    if isinstance(tg, ast.Name) and tg.id == feq:
                        if not (isinstance(v, ast.List) and all(isinstance(x, ast.Name) for x in v.elts)):
                            raise Untranslatable(f"{feq} is not built as a list of names")
                        layout[0] = [env.get(x.id, ("opaque",)) for x in v.elts]
                        continue
                    if isinstance(tg, ast.Name) and _self_call(v, "__Qn") and len(v.args) == 2 and not v.keywords:
                        full(v.args[0])
                        env[tg.id] = ("Q", _harmonic(v.args[1]))
                        continue
                    if isinstance(tg, ast.Name) and _len_listcomp(v) is not None:
                        full(ast.Name(id=_len_listcomp(v)))
                        env[tg.id] = ("M",)
                        continue
                    if isinstance(tg, ast.Tuple) and all(isinstance(x, ast.Name) for x in tg.elts) \
                            and _self_call(v, "__calculate_corr"):
                        kw = {k.arg: k.value for k in v.keywords}
                        kk = kw.get("k", v.args[1] if len(v.args) > 1 else None)
                        if v.args and isinstance(kk, ast.Constant) and kk.value in (2, 4, 6) and len(kw) + len(v.args) == 2:
                            full(v.args[0])
                            for j, x in enumerate(tg.elts):
                                env[x.id] = ("corr", kk.value, j)
                            continue
                if isinstance(s, ast.If) and _k_test(s.test) is not None:
                    run(s.body if _k_test(s.test) == K else s.orelse)
                    continue
                # anything else (validation, the binning loops, the loop over the bins): whatever it stores is unknown
                for nm in _stored_names(s):
                    if nm == feq:
                        raise Untranslatable(f"{feq} is modified in a way the translator does not follow")
                    env[nm] = ("opaque",)

        run(_strip_doc(dfn.body))
        if layout[0] is None:
            raise Untranslatable(f"{feq} is never built (k = {K})")
        if allname[0] is not None and (allname[0] in params or allname[0] == feq):
            raise Untranslatable("full-event list name clashes")
        out[K] = layout[0]
    return out


class TrD(Tr):
    """expressions of the bin function; `layout` = meaning of full_event_quantities[i]; `poi_params` = the parameters
    holding the POI angle lists"""

    def __init__(self, env, feq, layout, poi_params):
        super().__init__(env)
        self.feq, self.layout = feq, layout
        self.qn_sources = {p: "poi" for p in poi_params}

    def feq_elt(self, n):
        if not (isinstance(n, ast.Subscript) and isinstance(n.value, ast.Name) and n.value.id == self.feq):
            return None
        ix = n.slice
        if not (isinstance(ix, ast.Constant) and isinstance(ix.value, int) and not isinstance(ix.value, bool)
                and 0 <= ix.value < len(self.layout)):
            raise Untranslatable("index of " + ast.unparse(n))
        d = self.layout[ix.value]
        if d[0] == "Q":
            return T(f"(evs.map (fun e => Qm {d[1]} (full e)))", VC)
        if d[0] == "M":
            return T("(evs.map (fun e => mult (full e)))", VR)
        if d[0] == "corr" and d[2] == 0 and d[1] in (2, 4):
            self.used_c.add(d[1])
            return T(f"c{d[1]}", SR)
        raise Untranslatable(f"{ast.unparse(n)} ({'/'.join(map(str, d))}) is not part of the value fragment")

    used_c = None

    def e(self, n):
        t = self.feq_elt(n)
        if t is not None:
            return t
        src = _len_listcomp(n)
        if src is not None:
            if src not in self.qn_sources:
                raise Untranslatable("lengths of " + src)
            return T("(evs.map (fun e => mult (poi e)))", VR)
        if isinstance(n, ast.Call):
            name = self.call_name(n.func)
            if name == "np.array" and len(n.args) == 1 and not n.keywords:
                a = self.e(n.args[0])
                if a.ty in (VR, VC):
                    return a
                raise Untranslatable("np.array of " + a.ty)
            if name == "np.divide":
                kw = {k.arg: k.value for k in n.keywords}
                if len(n.args) == 2 and sorted(kw) == ["out", "where"]:
                    num, w = n.args
                    o, wh = kw["out"], kw["where"]
                    ok_out = isinstance(o, ast.Call) and self.call_name(o.func) == "np.zeros_like" and len(o.args) == 1 \
                        and not o.keywords and ast.dump(o.args[0]) == ast.dump(num)
                    ok_wh = isinstance(wh, ast.Compare) and len(wh.ops) == 1 and isinstance(wh.ops[0], ast.NotEq) \
                        and ast.dump(wh.left) == ast.dump(w) and isinstance(wh.comparators[0], ast.Constant) \
                        and not isinstance(wh.comparators[0].value, bool) and wh.comparators[0].value == 0
                    if ok_out and ok_wh:
                        a, b = self.e(num), self.e(w)
                        if (a.ty, b.ty) == (VC, VR):
                            return T(f"(cdivGuard {a.term} {b.term})", VC)
                raise Untranslatable("np.divide form: " + ast.unparse(n)[:80])
            if name == "np.vdot" and len(n.args) == 2 and not n.keywords:
                a, b = self.e(n.args[0]), self.e(n.args[1])
                if (a.ty, b.ty) == (VR, VC):
                    return T(f"(rcvdot {a.term} {b.term})", SC)
        return super().e(n)

    def binop(self, op, a, b):
        t = (a.ty, b.ty)
        if isinstance(op, ast.Add) and t == (VC, VR):
            return T(f"(cradd {a.term} {b.term})", VC)
        if isinstance(op, ast.Add) and t == (VR, VC):
            return T(f"(cradd {b.term} {a.term})", VC)
        if isinstance(op, ast.Sub) and t == (VC, VR):
            return T(f"(crsub {a.term} {b.term})", VC)
        if isinstance(op, ast.Div) and t == (SC, SR):
            return T(f"(cdivs {a.term} {b.term})", SC)
        return super().binop(op, a, b)


def _bin_sequence(bfn, K):
    """the statements of the bin function in execution order for self.k_ == K: [(name, value | None)] and the returned
    expression; value None = the name is (re)bound by something outside the fragment"""
    seq, ret = [], [None]

    def run(stmts):
        for s in stmts:
            if ret[0] is not None:
                raise Untranslatable("statements after the return")
            if isinstance(s, ast.Expr) and isinstance(s.value, ast.Constant):
                continue
            if isinstance(s, ast.Assign) and len(s.targets) == 1 and isinstance(s.targets[0], ast.Name):
                seq.append((s.targets[0].id, s.value))
            elif isinstance(s, (ast.Assign, ast.AnnAssign, ast.AugAssign)):
                if isinstance(s, ast.AnnAssign) and isinstance(s.target, ast.Name) and s.value is not None:
                    seq.append((s.target.id, s.value))
                else:
                    for nm in sorted(_stored_names(s)):
                        seq.append((nm, None))
            elif isinstance(s, ast.If) and _k_test(s.test) is not None:
                run(s.body if _k_test(s.test) == K else s.orelse)
            elif isinstance(s, ast.Return):
                ret[0] = s.value
            else:
                raise Untranslatable(f"statement in {BIN_FN}: " + ast.unparse(s)[:60])

    run(_strip_doc(bfn.body))
    if ret[0] is None:
        raise Untranslatable(BIN_FN + " has no top-level return")
    return seq, ret[0]


def _free_names(node):
    bound = set()
    for x in ast.walk(node):
        if isinstance(x, ast.comprehension):
            bound |= _stored_names(x.target)
    return {x.id for x in ast.walk(node) if isinstance(x, ast.Name) and isinstance(x.ctx, ast.Load)} - bound


def render_dargs(source):
    dfn, bfn, feq_outer, params = _call_site(source)
    layouts = feq_layout(source)
    feq, poi_params = params[0], params[1:]
    outside = {"np", "self", "len", "float", feq, *poi_params}
    out = []
    for K in (2, 4):
        seq, ret = _bin_sequence(bfn, K)
        if not (isinstance(ret, (ast.List, ast.Tuple)) and len(ret.elts) == 2):
            raise Untranslatable(BIN_FN + " does not return [value, error]")
        v = ret.elts[0]
        if isinstance(v, ast.Attribute) and v.attr == "real":
            v = v.value
        if not isinstance(v, ast.Name):
            raise Untranslatable("returned value is not `<name>.real`")
        idx = [i for i, (nm, _) in enumerate(seq) if nm == v.id]
        if not idx:
            raise Untranslatable(f"{v.id} is never assigned (k = {K})")
        call = seq[idx[-1]][1]
        if not (call is not None and _self_call(call, "__flow_from_cumulant_differential") and len(call.args) == 2
                and not call.keywords):
            raise Untranslatable(f"the returned {v.id} is not the result of __flow_from_cumulant_differential (k = {K})")
        before = seq[:idx[-1]]
        needed = (_free_names(call.args[0]) | _free_names(call.args[1])) - outside
        order = []
        for name, val in reversed(before):
            if name in needed:
                if val is None:
                    raise Untranslatable(f"k = {K}: the value depends on {name}, which is bound outside the fragment")
                order.append((name, val))
                needed.discard(name)
                needed |= _free_names(val) - outside
        if needed:
            raise Untranslatable(f"k = {K}: undefined names " + ", ".join(sorted(needed)))
        order.reverse()
        tr = TrD({}, feq, layouts[K], poi_params)
        tr.used_c = set()
        lets = []
        for name, val in order:
            t = tr.e(val)
            tr.env[name] = t
            lets.append(f"  let {name}_ : {LEAN_TY[t.ty]} := {t.term}")
        a, b = tr.e(call.args[0]), tr.e(call.args[1])
        if a.ty != SR:
            raise Untranslatable(f"k = {K}: first argument of __flow_from_cumulant_differential is not a real scalar")
        if b.ty == SR:
            b = T(f"(Cx.ofReal {b.term})", SC)
        if b.ty != SC:
            raise Untranslatable(f"k = {K}: second argument of __flow_from_cumulant_differential is not a scalar")
        if not tr.used_c <= ({2} if K == 2 else {2, 4}):
            raise Untranslatable(f"k = {K}: uses <<{max(tr.used_c)}>>")
        sig = "(c2 : α)" if K == 2 else "(c2 c4 : α)"
        out.append(f"/-- the two arguments `__compute_differential_flow_bin` hands to `__flow_from_cumulant_differential` "
                   f"when `k_ == {K}`\n(`evs`: the flagged events, `poi e` = the list passed as `{poi_params[0]}` and `{poi_params[1]}`; "
                   f"`c2`{', `c4`' if K == 4 else ''}: `<<2>>`{', `<<4>>`' if K == 4 else ''} of the full events) -/\n"
                   f"def dargs{K} (evs : List (PEvent α)) {sig} : α × Cx α :=\n"
                   + "".join(l + "\n" for l in lets) + f"  ({a.term}, {b.term})\n")
    return "\n".join(out), bfn, dfn


def render(source):
    fn, prelude, blocks = extract(source)
    L = ["-- GENERATED by harness/translate/qcumulant.py from src/sparkx/flow/QCumulantFlow.py -- do not edit",
         "import SparkxVerif.Core.Vec", "import SparkxVerif.Core.QCumulant", "", "set_option linter.unusedVariables false", "", "namespace SparkxVerif.Gen.QCumulant",
         "open SparkxVerif SparkxVerif.Vec SparkxVerif.QC", "",
         "variable {α : Type} [Add α] [Sub α] [Mul α] [Div α] [Neg α] [NatCast α]", ""]
    for K in (2, 4, 6):
        L.append(render_block(prelude, blocks[K], K))
    regions = [dict(file="flow/QCumulantFlow.py", region="__calculate_corr", sha=pyexpr.src_hash(source, fn))]
    cums, f1 = render_cumulants(source)
    L.append(cums)
    fac, f2 = render_factor(source)
    L.append(fac)
    L.append("variable [LT α] [DecidableLT α] [LE α] [DecidableLE α]\n")
    ffc, f3 = render_flow_from_cumulant(source)
    L.append(ffc)
    dfl, f4 = render_dflow(source)
    L.append(dfl)
    dar, f5, f6 = render_dargs(source)
    L.append(dar)
    L.append("end SparkxVerif.Gen.QCumulant")
    for name, f in (("__cumulant_flow", f1), ("__init__", f2), ("__flow_from_cumulant", f3),
                    ("__flow_from_cumulant_differential", f4), (BIN_FN, f5),
                    ("differential_flow (construction of full_event_quantities, call site of the bin function)", f6)):
        regions.append(dict(file="flow/QCumulantFlow.py", region=name, sha=pyexpr.src_hash(source, f)))
    return "\n".join(L) + "\n", regions
