"""Tie T for C11: QCumulantFlow.__calculate_corr (numpy over per-event vectors) -> Gen/QCumulant.lean.

The three `if k == K:` blocks of `__calculate_corr` are straight-line numpy: assignments of expressions over the
per-event vectors `mult`, `Qn`, `Q2n`, `Q3n` and scalars derived from them.  The translator does a small shape
inference (SR real scalar, SC complex scalar, VR real per-event vector, VC complex per-event vector), maps numpy
operations to Core/Vec.lean and emits, for each K, `corrK (evs : List (Event α)) : α` = the value returned as
`corr`, with one `let` per source assignment it depends on.  Anything outside the fragment raises Untranslatable.
"""
import ast

from . import pyexpr
from .pyexpr import Untranslatable

SR, SC, VR, VC = "SR", "SC", "VR", "VC"


class T:
    def __init__(self, term, ty):
        self.term, self.ty = term, ty


def lit(v):
    if isinstance(v, bool) or not isinstance(v, (int, float)):
        raise Untranslatable(f"literal {v!r}")
    if float(v) == int(v) and abs(v) < 2 ** 53:
        n = int(v)
        return f"(nat {n})" if n >= 0 else f"(-(nat {-n}))"
    a, b = abs(float(v)).as_integer_ratio()
    t = f"(nat {a} / nat {b})"
    return t if v > 0 else f"(-{t})"


class Tr:
    def __init__(self, env):
        self.env = dict(env)  # name -> T

    def call_name(self, f):
        if isinstance(f, ast.Attribute) and isinstance(f.value, ast.Name) and f.value.id == "np":
            return "np." + f.attr
        return None

    def qn_harmonic(self, node):
        """self.__Qn(phi, self.n_) / self.__Qn(phi, 2 * self.n_) -> m"""
        if not (isinstance(node, ast.Call) and isinstance(node.func, ast.Attribute) and node.func.attr.endswith("__Qn")
                and isinstance(node.func.value, ast.Name) and node.func.value.id == "self" and len(node.args) == 2):
            return None
        if not (isinstance(node.args[0], ast.Name) and node.args[0].id == "phi"):
            raise Untranslatable("__Qn on something other than phi")
        h = node.args[1]
        if isinstance(h, ast.Attribute) and h.attr == "n_":
            return 1
        if isinstance(h, ast.BinOp) and isinstance(h.op, ast.Mult):
            for a, b in ((h.left, h.right), (h.right, h.left)):
                if isinstance(a, ast.Constant) and isinstance(a.value, int) and isinstance(b, ast.Attribute) and b.attr == "n_":
                    return a.value
        raise Untranslatable("harmonic of __Qn: " + ast.unparse(h))

    def e(self, n):
        m = self.qn_harmonic(n)
        if m is not None:
            return T(f"(evs.map (Qm {m}))", VC)
        if isinstance(n, ast.Name):
            if n.id in self.env:
                return T(n.id + "_", self.env[n.id].ty)
            raise Untranslatable("unknown name " + n.id)
        if isinstance(n, ast.Constant):
            return T(lit(n.value), SR)
        if isinstance(n, ast.UnaryOp) and isinstance(n.op, ast.USub):
            a = self.e(n.operand)
            if a.ty == SR:
                return T(f"(-{a.term})", SR)
            if a.ty == VR:
                return T(f"(vneg {a.term})", VR)
            raise Untranslatable("negation of " + a.ty)
        if isinstance(n, ast.Attribute) and n.attr in ("real", "imag"):
            a = self.e(n.value)
            f = "re" if n.attr == "real" else "im"
            if a.ty == SC:
                return T(f"({a.term}).{f}", SR)
            if a.ty == VC:
                return T(f"(c{f} {a.term})", VR)
            if a.ty in (SR, VR) and n.attr == "real":
                return a
            raise Untranslatable(f".{n.attr} of {a.ty}")
        if isinstance(n, ast.Call):
            if isinstance(n.func, ast.Attribute) and n.func.attr == "conj" and not n.args:
                a = self.e(n.func.value)
                if a.ty == VC:
                    return T(f"(cconj {a.term})", VC)
                if a.ty == SC:
                    return T(f"(Cx.conj {a.term})", SC)
                if a.ty in (SR, VR):
                    return a
            name = self.call_name(n.func)
            args = [self.e(a) for a in n.args] if name not in ("np.power",) else None
            if name == "np.sum" and len(args) == 1:
                a = args[0]
                if a.ty == VR:
                    return T(f"(vsum {a.term})", SR)
                if a.ty == VC:
                    return T(f"(csum {a.term})", SC)
            if name == "np.real" and len(args) == 1:
                a = args[0]
                if a.ty == SC:
                    return T(f"({a.term}).re", SR)
                if a.ty == VC:
                    return T(f"(cre {a.term})", VR)
                if a.ty in (SR, VR):
                    return a
            if name in ("np.inner", "np.vdot") and len(args) == 2:
                a, b = args
                if a.ty == VR and b.ty == VR:
                    return T(f"(inner {a.term} {b.term})", SR)
                if a.ty == VC and b.ty == VC:
                    return T(f"({'cinner' if name == 'np.inner' else 'cvdot'} {a.term} {b.term})", SC)
            if name == "np.square" and len(args) == 1:
                a = args[0]
                if a.ty == VR:
                    return T(f"(vsquare {a.term})", VR)
                if a.ty == VC:
                    return T(f"(csquare {a.term})", VC)
                if a.ty == SR:
                    return T(f"({a.term} * {a.term})", SR)
            if name == "np.multiply" and len(args) == 2:
                return self.binop(ast.Mult(), args[0], args[1])
            if name == "np.power" and len(n.args) == 2 and isinstance(n.args[1], ast.Constant) \
                    and isinstance(n.args[1].value, int) and n.args[1].value >= 0:
                a = self.e(n.args[0])
                k = n.args[1].value
                if a.ty == VR:
                    return T(f"(vpow {a.term} {k})", VR)
                if a.ty == VC:
                    return T(f"(cpowv {a.term} {k})", VC)
                if a.ty == SR:
                    return T(f"(npow {a.term} {k})", SR)
            raise Untranslatable("call " + ast.unparse(n)[:70])
        if isinstance(n, ast.BinOp):
            if isinstance(n.op, ast.Pow):
                a = self.e(n.left)
                if isinstance(n.right, ast.Constant) and float(n.right.value) == int(n.right.value) and n.right.value >= 0 and a.ty == SR:
                    return T(f"(npow {a.term} {int(n.right.value)})", SR)
                raise Untranslatable("power " + ast.unparse(n)[:60])
            return self.binop(n.op, self.e(n.left), self.e(n.right))
        raise Untranslatable("expression " + ast.unparse(n)[:70])

    def binop(self, op, a, b):
        o = {ast.Add: "add", ast.Sub: "sub", ast.Mult: "mul", ast.Div: "div"}.get(type(op))
        if o is None:
            raise Untranslatable("operator " + type(op).__name__)
        sym = {"add": "+", "sub": "-", "mul": "*", "div": "/"}[o]
        t = (a.ty, b.ty)
        if t == (SR, SR):
            return T(f"({a.term} {sym} {b.term})", SR)
        if t == (VR, VR):
            return T(f"(v{o} {a.term} {b.term})", VR)
        if t == (SR, VR):
            f = {"add": "sadd", "sub": "ssub", "mul": "smul", "div": "sdiv"}.get(o)
            if f:
                return T(f"({f} {a.term} {b.term})", VR)
        if t == (VR, SR):
            f = {"add": "vadds", "sub": "vsubs", "mul": "vmuls", "div": "vdivs"}[o]
            return T(f"({f} {a.term} {b.term})", VR)
        if t == (VC, VC) and o in ("add", "sub", "mul"):
            return T(f"(c{o} {a.term} {b.term})", VC)
        if t == (SC, SC) and o in ("add", "sub", "mul"):
            return T(f"({a.term} {sym} {b.term})", SC)
        if o == "mul" and t == (VR, VC):
            return T(f"(rcmul {a.term} {b.term})", VC)
        if o == "mul" and t == (VC, VR):
            return T(f"(rcmul {b.term} {a.term})", VC)
        if o == "mul" and t == (SR, VC):
            return T(f"(scmul {a.term} {b.term})", VC)
        if o == "mul" and t == (VC, SR):
            return T(f"(scmul {b.term} {a.term})", VC)
        if o == "mul" and t == (SR, SC):
            return T(f"(Cx.smul {a.term} {b.term})", SC)
        if o == "mul" and t == (SC, SR):
            return T(f"(Cx.smul {b.term} {a.term})", SC)
        raise Untranslatable(f"{o} of {t}")


LEAN_TY = {SR: "α", SC: "Cx α", VR: "List α", VC: "List (Cx α)"}


def _is_mult_def(v):
    return ast.unparse(v).replace(" ", "") == "np.array([float(len(i))foriinphi])"


def extract(source):
    tree = ast.parse(source)
    fn = None
    for c in tree.body:
        if isinstance(c, ast.ClassDef) and c.name == "QCumulantFlow":
            for f in c.body:
                if isinstance(f, ast.FunctionDef) and f.name == "__calculate_corr":
                    fn = f
    if fn is None:
        raise Untranslatable("__calculate_corr not found")
    body = fn.body
    if body and isinstance(body[0], ast.Expr) and isinstance(getattr(body[0], "value", None), ast.Constant):
        body = body[1:]
    prelude, blocks = [], {}
    for st in body:
        if isinstance(st, ast.Assign):
            if blocks:
                raise Untranslatable("assignment after the k-blocks")
            prelude.append(st)
        elif isinstance(st, ast.If):
            cur = st
            while True:
                t = cur.test
                if not (isinstance(t, ast.Compare) and isinstance(t.left, ast.Name) and t.left.id == "k"
                        and isinstance(t.ops[0], ast.Eq) and isinstance(t.comparators[0], ast.Constant)):
                    raise Untranslatable("dispatch is not `k == K`")
                blocks[t.comparators[0].value] = cur.body
                if len(cur.orelse) == 1 and isinstance(cur.orelse[0], ast.If):
                    cur = cur.orelse[0]
                    continue
                if cur.orelse and not all(isinstance(x, ast.Raise) for x in cur.orelse):
                    raise Untranslatable("unexpected else branch")
                break
        else:
            raise Untranslatable("unexpected statement " + ast.unparse(st)[:50])
    if sorted(blocks) != [2, 4, 6]:
        raise Untranslatable(f"k-blocks found: {sorted(blocks)}")
    return fn, prelude, blocks


def render_block(prelude, block, K):
    """returns Lean text of `corrK`"""
    assigns = []
    ret = None
    for st in list(prelude) + list(block):
        if isinstance(st, ast.Assign):
            if len(st.targets) != 1 or not isinstance(st.targets[0], ast.Name):
                raise Untranslatable("assignment target " + ast.unparse(st.targets[0]))
            assigns.append((st.targets[0].id, st.value))
        elif isinstance(st, ast.Return):
            ret = st.value
        elif isinstance(st, ast.Expr) and isinstance(st.value, ast.Constant):
            continue
        else:
            raise Untranslatable("statement in block: " + ast.unparse(st)[:50])
    if not (isinstance(ret, ast.Tuple) and len(ret.elts) == 3 and isinstance(ret.elts[0], ast.Name)):
        raise Untranslatable("return is not `corr, corr_err, ebe`")
    target = ret.elts[0].id
    # dependency closure of the returned correlator (names may be re-assigned: keep source order, last wins before use)
    needed = {target}
    order = []
    for name, val in reversed(assigns):
        if name in needed:
            order.append((name, val))
            needed.discard(name)
            for x in ast.walk(val):
                if isinstance(x, ast.Name) and x.id not in ("np", "phi", "self", "float", "len", "i"):
                    needed.add(x.id)
    needed -= {"k"}
    if needed:
        raise Untranslatable("undefined names: " + ", ".join(sorted(needed)))
    order.reverse()
    tr = Tr({})
    lets = []
    for name, val in order:
        if _is_mult_def(val):
            t = T("(evs.map mult)", VR)
        else:
            t = tr.e(val)
        tr.env[name] = t
        lets.append(f"  let {name}_ : {LEAN_TY[t.ty]} := {t.term}")
    fin = tr.env[target]
    if fin.ty != SR:
        raise Untranslatable("returned correlator is not a real scalar")
    return (f"/-- `corr` returned by the `k == {K}` block of `__calculate_corr` -/\n"
            f"def corr{K} (evs : List (Event α)) : α :=\n" + "\n".join(lets) + f"\n  {target}_\n")


# ---------------------------------------------------------------------------------------------------------------
# second fragment: the scalar decision logic around the correlators
#   __init__             : the table `cumulant_factor_`
#   __cumulant_flow      : which combination of <<2>>, <<4>>, <<6>> is handed to __flow_from_cumulant for k = 2, 4, 6
#   __flow_from_cumulant / __flow_from_cumulant_differential : the `imaginary` decision tables
# They are straight-line scalar code with if-chains; the translator executes them symbolically (state: name -> Lean
# term, an `if` becomes `if c then .. else ..` on every name the branches disagree on).  `x ** (a / self.k_)` becomes
# the abstract root `root x k` (a = 1) / `rootp x a k`, `float("nan")` the `Flow.nan` outcome.

def _method(source, name):
    tree = ast.parse(source)
    for c in tree.body:
        if isinstance(c, ast.ClassDef) and c.name == "QCumulantFlow":
            for f in c.body:
                if isinstance(f, ast.FunctionDef) and f.name == name:
                    return f
    raise Untranslatable(name + " not found")


def _strip_doc(body):
    if body and isinstance(body[0], ast.Expr) and isinstance(getattr(body[0], "value", None), ast.Constant):
        return body[1:]
    return body


def _is_self_attr(n, attr):
    return isinstance(n, ast.Attribute) and n.attr == attr and isinstance(n.value, ast.Name) and n.value.id == "self"


NAN = "<nan>"


class Scalar:
    """symbolic execution of the scalar decision functions; `rootp` selects the three-argument root"""

    def __init__(self, rootp):
        self.rootp = rootp

    def e(self, n, st):
        if isinstance(n, ast.Name):
            if n.id in st:
                return st[n.id]
            raise Untranslatable("unknown name " + n.id)
        if isinstance(n, ast.Constant):
            return lit(n.value)
        if isinstance(n, ast.Call) and isinstance(n.func, ast.Name) and n.func.id == "float" and len(n.args) == 1 \
                and isinstance(n.args[0], ast.Constant) and str(n.args[0].value).lower() == "nan":
            return NAN
        if isinstance(n, ast.Subscript) and _is_self_attr(n.value, "cumulant_factor_"):
            ix = n.slice
            if _is_self_attr(ix, "k_"):
                return "(factor k)"
            if isinstance(ix, ast.Constant) and isinstance(ix.value, int):
                return f"(factor {ix.value})"
            raise Untranslatable("index of cumulant_factor_: " + ast.unparse(ix))
        if isinstance(n, ast.UnaryOp) and isinstance(n.op, ast.USub):
            a = self.e(n.operand, st)
            if a == NAN:
                raise Untranslatable("arithmetic on nan")
            return f"(-{a})"
        if isinstance(n, ast.BinOp):
            if isinstance(n.op, ast.Pow):
                a = self.e(n.left, st)
                r = n.right
                if isinstance(r, ast.BinOp) and isinstance(r.op, ast.Div) and isinstance(r.left, ast.Constant) \
                        and isinstance(r.left.value, int) and r.left.value > 0 and _is_self_attr(r.right, "k_"):
                    if self.rootp:
                        return f"(rootp {a} {r.left.value} k)"
                    if r.left.value == 1:
                        return f"(root {a} k)"
                raise Untranslatable("power " + ast.unparse(n)[:60])
            sym = {ast.Add: "+", ast.Sub: "-", ast.Mult: "*", ast.Div: "/"}.get(type(n.op))
            if sym is None:
                raise Untranslatable("operator " + type(n.op).__name__)
            a, b = self.e(n.left, st), self.e(n.right, st)
            if NAN in (a, b):
                raise Untranslatable("arithmetic on nan")
            return f"({a} {sym} {b})"
        raise Untranslatable("scalar expression " + ast.unparse(n)[:70])

    def cond(self, t, st):
        if isinstance(t, ast.Compare) and len(t.ops) == 1:
            l, r, op = t.left, t.comparators[0], t.ops[0]
            if _is_self_attr(l, "imaginary_") and isinstance(op, ast.Eq) and isinstance(r, ast.Constant) \
                    and r.value in ("zero", "negative", "nan"):
                return f"im = Imag.{r.value}"
            if _is_self_attr(l, "k_") and isinstance(op, ast.Eq) and isinstance(r, ast.Constant) and isinstance(r.value, int):
                return f"k = {r.value}"
            sym = {ast.Lt: "<", ast.LtE: "≤", ast.Gt: ">", ast.GtE: "≥"}.get(type(op))
            if sym:
                return f"{self.e(l, st)} {sym} {self.e(r, st)}"
        raise Untranslatable("condition " + ast.unparse(t)[:70])

    def run(self, stmts, st):
        st = dict(st)
        for s in stmts:
            if isinstance(s, ast.Assign) and len(s.targets) == 1 and isinstance(s.targets[0], ast.Name):
                st[s.targets[0].id] = self.e(s.value, st)
            elif isinstance(s, ast.If):
                c = self.cond(s.test, st)
                a, b = self.run(s.body, st), self.run(s.orelse, st)
                if "<return>" in a or "<return>" in b:
                    raise Untranslatable("return inside a branch")
                for name in sorted(set(a) | set(b)):
                    if name not in a or name not in b:
                        raise Untranslatable(f"{name} assigned on one branch only")
                    st[name] = a[name] if a[name] == b[name] else ("ite", c, a[name], b[name])
            elif isinstance(s, ast.Return) and isinstance(s.value, ast.Name):
                st["<return>"] = st[s.value.id]
                break
            elif isinstance(s, ast.Expr) and isinstance(s.value, ast.Constant):
                continue
            else:
                raise Untranslatable("statement " + ast.unparse(s)[:60])
        return st


def _flow_term(v, ind):
    pad = "  " * ind
    if isinstance(v, tuple):
        _, c, a, b = v
        return f"{pad}if {c} then\n{_flow_term(a, ind + 1)}\n{pad}else\n{_flow_term(b, ind + 1)}"
    return pad + (".nan" if v == NAN else f".val {v}")


def render_flow_from_cumulant(source):
    fn = _method(source, "__flow_from_cumulant")
    args = [a.arg for a in fn.args.args]
    if len(args) != 2:
        raise Untranslatable("__flow_from_cumulant arguments")
    st = Scalar(False).run(_strip_doc(fn.body), {args[1]: "cnk"})
    if "<return>" not in st:
        raise Untranslatable("__flow_from_cumulant returns nothing")
    return ("/-- `__flow_from_cumulant` -/\n"
            "def flowFromCumulant (root : α → Nat → α) (k : Nat) (im : Imag) (cnk : α) : Flow α :=\n"
            + _flow_term(st["<return>"], 1) + "\n"), fn


def render_dflow(source):
    fn = _method(source, "__flow_from_cumulant_differential")
    args = [a.arg for a in fn.args.args]
    if len(args) != 3:
        raise Untranslatable("__flow_from_cumulant_differential arguments")
    st = Scalar(True).run(_strip_doc(fn.body), {args[1]: "cnk", args[2]: "dnk"})
    if "<return>" not in st:
        raise Untranslatable("__flow_from_cumulant_differential returns nothing")
    return ("/-- `__flow_from_cumulant_differential` -/\n"
            "def dflow (rootp : α → Nat → Nat → α) (k : Nat) (im : Imag) (cnk : α) (dnk : α) : Flow α :=\n"
            + _flow_term(st["<return>"], 1) + "\n"), fn


def render_factor(source):
    fn = _method(source, "__init__")
    table = None
    for s in ast.walk(fn):
        tgt = None
        if isinstance(s, ast.AnnAssign):
            tgt, val = s.target, s.value
        elif isinstance(s, ast.Assign) and len(s.targets) == 1:
            tgt, val = s.targets[0], s.value
        if tgt is not None and _is_self_attr(tgt, "cumulant_factor_"):
            if table is not None or not isinstance(val, ast.Dict):
                raise Untranslatable("cumulant_factor_ is not one dict literal")
            table = val
    if table is None:
        raise Untranslatable("cumulant_factor_ not found")
    sc = Scalar(False)
    rows = []
    for kk, vv in zip(table.keys, table.values):
        if not (isinstance(kk, ast.Constant) and isinstance(kk.value, int) and kk.value >= 0):
            raise Untranslatable("cumulant_factor_ key")
        rows.append((kk.value, sc.e(vv, {})))
    if len({k for k, _ in rows}) != len(rows):
        raise Untranslatable("duplicate cumulant_factor_ key")
    body = "".join(f"  | {k} => {v}\n" for k, v in rows)
    return ("/-- the table `cumulant_factor_` of `__init__` (orders missing from the table are never used: `__init__`\n"
            "rejects them; here they read 0) -/\n"
            "def factor (k : Nat) : α :=\n  match k with\n" + body + "  | _ => (nat 0)\n"), fn


def render_cumulants(source):
    """for K in 2,4,6: the argument handed to __flow_from_cumulant in the `self.k_ == K` branch of __cumulant_flow,
    as a function of the three correlators"""
    fn = _method(source, "__cumulant_flow")
    body = _strip_doc(fn.body)
    if len(body) != 1 or not isinstance(body[0], ast.If):
        raise Untranslatable("__cumulant_flow is not one if-chain")
    cur, branches = body[0], {}
    while True:
        t = cur.test
        if not (isinstance(t, ast.Compare) and _is_self_attr(t.left, "k_") and isinstance(t.ops[0], ast.Eq)
                and isinstance(t.comparators[0], ast.Constant)):
            raise Untranslatable("__cumulant_flow dispatch is not `self.k_ == K`")
        branches[t.comparators[0].value] = cur.body
        if len(cur.orelse) == 1 and isinstance(cur.orelse[0], ast.If):
            cur = cur.orelse[0]
            continue
        if cur.orelse and not all(isinstance(x, ast.Raise) for x in cur.orelse):
            raise Untranslatable("__cumulant_flow: unexpected else branch")
        break
    if sorted(branches) != [2, 4, 6]:
        raise Untranslatable(f"__cumulant_flow branches: {sorted(branches)}")
    out = []
    for K in (2, 4, 6):
        env, arg = {}, None  # name -> ast of its defining expression | ("corr", K')
        for s in branches[K]:
            if isinstance(s, ast.Assign) and len(s.targets) == 1:
                tg, v = s.targets[0], s.value
                if isinstance(v, ast.Call) and isinstance(v.func, ast.Attribute) and v.func.attr.endswith("__flow_from_cumulant") \
                        and len(v.args) == 1:
                    if arg is not None:
                        raise Untranslatable("two calls of __flow_from_cumulant in one branch")
                    arg = (v.args[0], dict(env))
                    continue
                if isinstance(tg, ast.Tuple) and isinstance(v, ast.Call) and isinstance(v.func, ast.Attribute) \
                        and v.func.attr.endswith("__calculate_corr"):
                    kw = {k.arg: k.value for k in v.keywords}
                    kk = kw.get("k", v.args[1] if len(v.args) > 1 else None)
                    if not (isinstance(kk, ast.Constant) and kk.value in (2, 4, 6)) or not isinstance(tg.elts[0], ast.Name) \
                            or not (v.args and isinstance(v.args[0], ast.Name) and v.args[0].id == "phi"):
                        raise Untranslatable("call of __calculate_corr: " + ast.unparse(v))
                    env[tg.elts[0].id] = ("corr", kk.value)
                    for other in tg.elts[1:]:
                        if isinstance(other, ast.Name):
                            env[other.id] = ("opaque",)
                    continue
                if isinstance(tg, ast.Name):
                    env[tg.id] = v
                    continue
            # anything else (error propagation, returns) does not feed the flow value
        if arg is None:
            raise Untranslatable(f"no call of __flow_from_cumulant in the k == {K} branch")
        expr, env = arg

        lets, done = [], {}

        def resolve(name):
            if name in done:
                return
            d = env.get(name)
            if d is None or d == ("opaque",):
                raise Untranslatable(f"k == {K}: the cumulant depends on {name}")
            if isinstance(d, tuple):
                done[name] = T(name + "_", SR)
                lets.append(f"  let {name}_ : α := c{d[1]}")
                return
            for x in ast.walk(d):
                if isinstance(x, ast.Name) and x.id not in ("np", "self"):
                    resolve(x.id)
            t = Tr(done).e(d)
            if t.ty != SR:
                raise Untranslatable(f"k == {K}: {name} is not a real scalar")
            done[name] = t
            lets.append(f"  let {name}_ : α := {t.term}")

        for x in ast.walk(expr):
            if isinstance(x, ast.Name):
                resolve(x.id)
        fin = Tr(done).e(expr)
        if fin.ty != SR:
            raise Untranslatable("cumulant is not a real scalar")
        out.append(f"/-- what the `k_ == {K}` branch of `__cumulant_flow` hands to `__flow_from_cumulant`, from "
                   f"`<<2>>`, `<<4>>`, `<<6>>` -/\n"
                   f"def cum{K} (c2 c4 c6 : α) : α :=\n" + "".join(l + "\n" for l in lets) + f"  {fin.term}\n")
    return "\n".join(out), fn


def render(source):
    fn, prelude, blocks = extract(source)
    L = ["-- GENERATED by harness/translate/qcumulant.py from src/sparkx/flow/QCumulantFlow.py -- do not edit",
         "import SparkxVerif.Core.Vec", "import SparkxVerif.Core.QCumulant", "", "set_option linter.unusedVariables false", "", "namespace SparkxVerif.Gen.QCumulant",
         "open SparkxVerif SparkxVerif.Vec SparkxVerif.QC", "",
         "variable {α : Type} [Add α] [Sub α] [Mul α] [Div α] [Neg α] [NatCast α]", ""]
    for K in (2, 4, 6):
        L.append(render_block(prelude, blocks[K], K))
    regions = [dict(file="flow/QCumulantFlow.py", region="__calculate_corr", sha=pyexpr.src_hash(source, fn))]
    cums, f1 = render_cumulants(source)
    L.append(cums)
    fac, f2 = render_factor(source)
    L.append(fac)
    L.append("variable [LT α] [DecidableLT α] [LE α] [DecidableLE α]\n")
    ffc, f3 = render_flow_from_cumulant(source)
    L.append(ffc)
    dfl, f4 = render_dflow(source)
    L.append(dfl)
    L.append("end SparkxVerif.Gen.QCumulant")
    for name, f in (("__cumulant_flow", f1), ("__init__", f2), ("__flow_from_cumulant", f3),
                    ("__flow_from_cumulant_differential", f4)):
        regions.append(dict(file="flow/QCumulantFlow.py", region=name, sha=pyexpr.src_hash(source, f)))
    return "\n".join(L) + "\n", regions
