"""Tie T for C06: Oscar.py / Jetscape.py / Particle.py / loader/OscarLoader.py -> Gen/WriterTables.lean.

Extracted on every run from the tree under test (stdlib `ast` only):

Oscar.print_particle_lists_to_file
  * the savetxt format strings `format_oscar2013`, `format_oscar2013_extended`, the `" %d"` extension rule and the
    `format_map` dictionary (key -> conversion);
  * the event number written into the `# event N out M` header (`event = <expr>`: the stored label, or the position
    plus a constant) in the `num_events_ > 1` branch and in the else branch;
  * the expression written as end line (`self.event_end_lines_[event]` = lookup by label, or
    `self._event_footer(event)` = the event's own end line with the number substituted), and the shape of
    `_event_footer`;
  * the "number of events is zero" test, the guard of the format extension (`i == 0 and …` or every event);
  * the pieces of the event header string.
Oscar.__init__ / Oscar.multiplicity_cut / Oscar.lower_event_energy_cut
  * whether `event_origin_` exists and whether the two event-removing cuts keep it aligned.
Oscar._particle_as_list / Jetscape._particle_as_list
  * column order with the `float(...)` / `int(...)` wrapper of every column.
Jetscape.print_particle_lists_to_file
  * the savetxt format, the pieces of the event header f-string, the event number rule of both branches, the trailer.
Particle.__initialize_from_array
  * `attribute_mapping` of Oscar2013 / Oscar2013Extended / JETSCAPE (attribute -> column of the line) and the two
    cast lists.
OscarLoader._set_custom_attr_list
  * `attr_map` (header name -> attribute name).
"""
import ast
import re

from . import pyexpr
from .pyexpr import Untranslatable

SPEC = {"%g": "g", "%.9g": "g9", "%d": "d"}


def _const_str(node):
    if isinstance(node, ast.Constant) and isinstance(node.value, str):
        return node.value
    raise Untranslatable("expected a string literal: " + ast.dump(node)[:80])


def _specs(fmt):
    out = []
    for t in fmt.split(" "):
        if t not in SPEC:
            raise Untranslatable(f"conversion {t!r} not in {sorted(SPEC)}")
        out.append(SPEC[t])
    return out


def _assign_value(fn, name):
    """value node of the (annotated) assignment `name = …` directly in the body of fn"""
    for st in fn.body:
        if isinstance(st, ast.Assign) and len(st.targets) == 1 and isinstance(st.targets[0], ast.Name) \
                and st.targets[0].id == name:
            return st.value
        if isinstance(st, ast.AnnAssign) and isinstance(st.target, ast.Name) and st.target.id == name and st.value:
            return st.value
    raise Untranslatable(f"assignment `{name} = …` not found in {fn.name}")


def _is_self_attr(node, attr):
    return isinstance(node, ast.Attribute) and node.attr == attr and isinstance(node.value, ast.Name) \
        and node.value.id == "self"


def _label_rule(expr, loopvar):
    """`event = <expr>` -> ('stored',) | ('pos', c)"""
    if isinstance(expr, ast.Name) and expr.id == loopvar:
        return ("pos", 0)
    if isinstance(expr, ast.Constant) and isinstance(expr.value, int) and loopvar is None:
        return ("pos", expr.value)
    if isinstance(expr, ast.BinOp) and isinstance(expr.op, ast.Add) and isinstance(expr.left, ast.Name) \
            and expr.left.id == loopvar and isinstance(expr.right, ast.Constant) and isinstance(expr.right.value, int):
        return ("pos", expr.right.value)
    if isinstance(expr, ast.Subscript) and _is_self_attr(expr.value, "num_output_per_event_"):
        sl = expr.slice
        if isinstance(sl, ast.Tuple) and len(sl.elts) == 2 and isinstance(sl.elts[0], ast.Name) \
                and sl.elts[0].id == loopvar and isinstance(sl.elts[1], ast.Constant) and sl.elts[1].value == 0:
            return ("stored",)
    raise Untranslatable("event number rule not understood: " + ast.dump(expr)[:120])


def _find_assign_in(stmts, name):
    for st in stmts:
        if isinstance(st, ast.Assign) and len(st.targets) == 1 and isinstance(st.targets[0], ast.Name) \
                and st.targets[0].id == name:
            return st.value
    raise Untranslatable(f"`{name} = …` not found")


def _writes(stmts):
    """all `f_out.write(X)` argument nodes below stmts"""
    out = []
    for st in stmts:
        for n in ast.walk(st):
            if isinstance(n, ast.Call) and isinstance(n.func, ast.Attribute) and n.func.attr == "write" \
                    and isinstance(n.func.value, ast.Name) and n.func.value.id == "f_out" and len(n.args) == 1:
                out.append(n.args[0])
    return out


def _footer_rule(node):
    if isinstance(node, ast.Subscript) and _is_self_attr(node.value, "event_end_lines_") \
            and isinstance(node.slice, ast.Name) and node.slice.id == "event":
        return "byLabel"
    if isinstance(node, ast.Call) and _is_self_attr(node.func, "_event_footer") and len(node.args) == 1 \
            and isinstance(node.args[0], ast.Name) and node.args[0].id == "event":
        return "own"
    return None


def _concat_pieces(node):
    """`"a" + str(x) + "b"` -> [('lit','a'),('var','x'),('lit','b')]"""
    if isinstance(node, ast.BinOp) and isinstance(node.op, ast.Add):
        return _concat_pieces(node.left) + _concat_pieces(node.right)
    if isinstance(node, ast.Constant) and isinstance(node.value, str):
        return [("lit", node.value)]
    if isinstance(node, ast.Call) and isinstance(node.func, ast.Name) and node.func.id == "str" and len(node.args) == 1 \
            and isinstance(node.args[0], ast.Name):
        return [("var", node.args[0].id)]
    raise Untranslatable("header piece not understood: " + ast.dump(node)[:100])


def _fstring_pieces(node):
    if not isinstance(node, ast.JoinedStr):
        raise Untranslatable("JETSCAPE event header is not an f-string")
    out = []
    for v in node.values:
        if isinstance(v, ast.Constant):
            out.append(("lit", v.value))
        elif isinstance(v, ast.FormattedValue) and v.format_spec is None and v.conversion == -1:
            if isinstance(v.value, ast.Name):
                out.append(("var", v.value.id))
            elif _is_self_attr(v.value, "particle_type_defining_string_"):
                out.append(("var", "defstr"))
            else:
                raise Untranslatable("f-string field not understood: " + ast.dump(v.value)[:80])
        else:
            raise Untranslatable("f-string field with format/conversion")
    return out


def _as_list_cols(stmts, target):
    """`particle_list.append(CAST(particle.ATTR))` statements directly in stmts"""
    cols = []
    for st in stmts:
        if isinstance(st, ast.Expr) and isinstance(st.value, ast.Call) and isinstance(st.value.func, ast.Attribute) \
                and st.value.func.attr == "append" and isinstance(st.value.func.value, ast.Name) \
                and st.value.func.value.id == target:
            cols.append(_cast_attr(st.value.args[0]))
    return cols


def _cast_attr(node):
    if isinstance(node, ast.Call) and isinstance(node.func, ast.Name) and node.func.id in ("float", "int") \
            and len(node.args) == 1 and isinstance(node.args[0], ast.Attribute) \
            and isinstance(node.args[0].value, ast.Name) and node.args[0].value.id == "particle":
        return (node.func.id, node.args[0].attr)
    raise Untranslatable("column is not float(particle.x) / int(particle.x): " + ast.dump(node)[:100])


def _mentions(node, name):
    return any((isinstance(n, ast.Attribute) and n.attr == name) or (isinstance(n, ast.Name) and n.id == name)
               for n in ast.walk(node))


def _str_consts(node):
    return [n.value for n in ast.walk(node) if isinstance(n, ast.Constant) and isinstance(n.value, str)]


# ----------------------------------------------------------------------------- Oscar
def extract_oscar(source):
    tree = ast.parse(source)
    T = {}
    wr = pyexpr.find_function(tree, "print_particle_lists_to_file", "Oscar")
    if wr is None:
        raise Untranslatable("Oscar.print_particle_lists_to_file not found")
    T["fmt2013"] = _specs(_const_str(_assign_value(wr, "format_oscar2013")))
    T["fmtExt"] = _specs(_const_str(_assign_value(wr, "format_oscar2013_extended")))
    fm = _assign_value(wr, "format_map")
    if not isinstance(fm, ast.Dict):
        raise Untranslatable("format_map is not a dict literal")
    T["formatMap"] = [(_const_str(k), _specs(_const_str(v))[0]) for k, v in zip(fm.keys, fm.values)]
    # the extension `(len(particle_output[0]) - 20) * " %d"`
    ext = set()
    for n in ast.walk(wr):
        if isinstance(n, ast.BinOp) and isinstance(n.op, ast.Mult) and isinstance(n.right, ast.Constant) \
                and isinstance(n.right.value, str):
            m = re.fullmatch(r" (%\S+)", n.right.value)
            if not m:
                raise Untranslatable(f"format extension {n.right.value!r}")
            ext.add(SPEC.get(m.group(1)) or "?")
            if not (isinstance(n.left, ast.BinOp) and isinstance(n.left.op, ast.Sub)
                    and isinstance(n.left.right, ast.Constant) and n.left.right.value == 20):
                raise Untranslatable("format extension count is not `len(row) - 20`")
    if len(ext) != 1 or "?" in ext:
        raise Untranslatable(f"format extension conversions {ext}")
    T["extSpec"] = ext.pop()
    # the three-way branch on num_events_
    chain = None
    for n in ast.walk(wr):
        if isinstance(n, ast.If) and any(_mentions(n.test, "particle_list_") for _ in [0]) and _mentions(n.test, "num_events_") \
                and [] in [c.elts if isinstance(c, ast.List) else None for c in ast.walk(n.test)]:
            chain = pyexpr.if_chain(n)
            break
    if chain is None or len(chain) != 3 or chain[2][0] is not None:
        raise Untranslatable("the `zero events / num_events_ > 1 / else` chain was not found")
    T["zeroNeedsNoOrigin"] = _mentions(chain[0][0], "event_origin_")
    T["zeroWhenNoEvents"] = any(
        isinstance(c, ast.Compare) and _is_self_attr(c.left, "num_events_") and isinstance(c.ops[0], ast.Eq)
        and isinstance(c.comparators[0], ast.Constant) and c.comparators[0].value == 0 for c in ast.walk(chain[0][0]))
    multi, single = chain[1][1], chain[2][1]
    loops = [st for st in multi if isinstance(st, ast.For)]
    if len(loops) != 1 or not isinstance(loops[0].target, ast.Name):
        raise Untranslatable("multi-event branch is not one for loop")
    lv = loops[0].target.id
    T["labelMulti"] = _label_rule(_find_assign_in(loops[0].body, "event"), lv)
    T["labelSingle"] = _label_rule(_find_assign_in(single, "event"), None)
    rules = set()
    hdr = []
    for w in _writes(loops[0].body) + _writes(single):
        r = _footer_rule(w)
        if r:
            rules.add(r)
        else:
            hdr.append(_concat_pieces(w))
    if len(rules) != 1:
        raise Untranslatable(f"end line expressions differ / not understood: {rules}")
    T["footerRule"] = rules.pop()
    if not hdr or any(h != hdr[0] for h in hdr):
        raise Untranslatable("event header expressions differ")
    T["outHeader"] = hdr[0]
    # guard of the extension inside the loop: `i == 0 and …` ?
    T["extFirstEventOnly"] = False
    for n in ast.walk(loops[0]):
        if isinstance(n, ast.If):
            for test, _ in pyexpr.if_chain(n):
                if test is not None and any(isinstance(c, ast.Compare) and isinstance(c.left, ast.Name) and c.left.id == lv
                                            and isinstance(c.ops[0], ast.Eq) and isinstance(c.comparators[0], ast.Constant)
                                            and c.comparators[0].value == 0 for c in ast.walk(test)):
                    T["extFirstEventOnly"] = True
    # _event_footer
    T["footerSubstIndex"] = None
    ef = pyexpr.find_function(tree, "_event_footer", "Oscar")
    if T["footerRule"] == "own":
        if ef is None:
            raise Untranslatable("_event_footer not found")
        ok_lookup = any(isinstance(n, ast.Subscript) and _is_self_attr(n.value, "event_end_lines_")
                        and isinstance(n.slice, ast.Subscript) and _is_self_attr(n.slice.value, "event_origin_")
                        for n in ast.walk(ef))
        idx = [st.targets[0].slice.value for st in ast.walk(ef)
               if isinstance(st, ast.Assign) and isinstance(st.targets[0], ast.Subscript)
               and isinstance(st.targets[0].slice, ast.Constant)
               and isinstance(st.value, ast.Call) and isinstance(st.value.func, ast.Name) and st.value.func.id == "str"]
        seps = [c for c in _str_consts(ef) if c == " "]
        if not ok_lookup or len(idx) != 1 or len(seps) < 2:
            raise Untranslatable("_event_footer does not have the shape split(' ') / [k] = str(i) / ' '.join")
        T["footerSubstIndex"] = idx[0]
    # constructor / cuts
    init = pyexpr.find_function(tree, "__init__", "Oscar")
    T["hasOrigin"] = init is not None and _mentions(init, "event_origin_")
    T["originFromLoader"] = init is not None and _mentions(init, "loaded_event_indices_")
    keep = []
    for nm in ("multiplicity_cut", "lower_event_energy_cut"):
        f = pyexpr.find_function(tree, nm, "Oscar")
        keep.append(f is not None and _mentions(f, "_keep_metadata_of_remaining_events"))
    if keep[0] != keep[1]:
        raise Untranslatable("only one of the two event-removing cuts keeps the metadata")
    T["cutsKeepMetadata"] = keep[0]
    # _particle_as_list
    pal = pyexpr.find_function(tree, "_particle_as_list", "Oscar")
    if pal is None:
        raise Untranslatable("Oscar._particle_as_list not found")
    outer = [st for st in pal.body if isinstance(st, ast.If)]
    if len(outer) != 1 or not outer[0].orelse:
        raise Untranslatable("_particle_as_list: expected `if ASCII: … else: …`")
    body = outer[0].orelse
    T["colsBase"] = _as_list_cols(body, "particle_list")
    ext_if = [st for st in body if isinstance(st, ast.If)]
    if len(ext_if) != 1:
        raise Untranslatable("_particle_as_list: expected one extended-format branch")
    T["colsExt"] = _as_list_cols(ext_if[0].body, "particle_list")
    opt = []
    for st in ext_if[0].body:
        if isinstance(st, ast.If) and _mentions(st.test, "oscar_format_"):
            for g in st.body:
                if isinstance(g, ast.If) and _mentions(g.test, "isnan"):
                    opt += _as_list_cols(g.body, "particle_list")
    T["colsOpt"] = opt
    regions = [dict(file="Oscar.py", region=f.name, sha=pyexpr.src_hash(source, f))
               for f in (wr, pal, init, ef) if f is not None]
    return T, regions


# ----------------------------------------------------------------------------- Jetscape
def extract_jetscape(source):
    tree = ast.parse(source)
    T = {}
    wr = pyexpr.find_function(tree, "print_particle_lists_to_file", "Jetscape")
    pal = pyexpr.find_function(tree, "_particle_as_list", "Jetscape")
    if wr is None or pal is None:
        raise Untranslatable("Jetscape writer functions not found")
    cols = {}
    for st in pal.body:
        if isinstance(st, ast.Assign) and isinstance(st.targets[0], ast.Subscript) \
                and isinstance(st.targets[0].value, ast.Name) and st.targets[0].value.id == "particle_list" \
                and isinstance(st.targets[0].slice, ast.Constant):
            cols[st.targets[0].slice.value] = _cast_attr(st.value)
    if sorted(cols) != list(range(len(cols))) or not cols:
        raise Untranslatable("Jetscape._particle_as_list: column indices not 0..n-1")
    T["cols"] = [cols[i] for i in range(len(cols))]
    fmts = set()
    for n in ast.walk(wr):
        if isinstance(n, ast.Call) and isinstance(n.func, ast.Attribute) and n.func.attr == "savetxt":
            for kw in n.keywords:
                if kw.arg == "fmt":
                    fmts.add(_const_str(kw.value))
    if len(fmts) != 1:
        raise Untranslatable(f"savetxt formats {fmts}")
    T["fmt"] = _specs(fmts.pop())
    chain = None
    for n in ast.walk(wr):
        if isinstance(n, ast.If) and isinstance(n.test, ast.Compare) and _mentions(n.test, "num_events_") \
                and isinstance(n.test.ops[0], ast.Eq) and isinstance(n.test.comparators[0], ast.Constant) \
                and n.test.comparators[0].value == 0 and n.orelse:
            chain = pyexpr.if_chain(n)
    if chain is None or len(chain) != 4 or chain[3][0] is not None:
        raise Untranslatable("the `== 0 / is None / > 1 / else` chain was not found")
    multi, single = chain[2][1], chain[3][1]
    loops = [st for st in multi if isinstance(st, ast.For)]
    if len(loops) != 1:
        raise Untranslatable("multi-event branch is not one for loop")
    lv = loops[0].target.id
    T["labelMulti"] = _label_rule(_find_assign_in(loops[0].body, "event"), lv)
    T["labelSingle"] = _label_rule(_find_assign_in(single, "event"), None)
    h1 = _fstring_pieces(_find_assign_in(loops[0].body, "header"))
    h2 = _fstring_pieces(_find_assign_in(single, "header"))
    if h1 != h2:
        raise Untranslatable("event header f-strings of the two branches differ")
    T["header"] = h1
    ll = None
    for st in ast.walk(wr):
        if isinstance(st, ast.Assign) and isinstance(st.targets[0], ast.Name) and st.targets[0].id == "last_line":
            ll = st.value
    if not (isinstance(ll, ast.BinOp) and isinstance(ll.op, ast.Add) and _is_self_attr(ll.left, "last_line_")
            and isinstance(ll.right, ast.Constant) and ll.right.value == "\n"):
        raise Untranslatable("trailer is not `self.last_line_ + '\\n'`")
    regions = [dict(file="Jetscape.py", region=f.name, sha=pyexpr.src_hash(source, f)) for f in (wr, pal)]
    return T, regions


# ----------------------------------------------------------------------------- Particle / loader
def extract_particle(source):
    tree = ast.parse(source)
    f = pyexpr.find_function(tree, "__initialize_from_array", "Particle")
    if f is None:
        raise Untranslatable("Particle.__initialize_from_array not found")
    am = _assign_value(f, "attribute_mapping")
    if not isinstance(am, ast.Dict):
        raise Untranslatable("attribute_mapping is not a dict literal")
    maps = {}
    for k, v in zip(am.keys, am.values):
        name = _const_str(k)
        if not isinstance(v, ast.Dict):
            raise Untranslatable("attribute_mapping entry is not a dict")
        ent = []
        for kk, vv in zip(v.keys, v.values):
            if not (isinstance(vv, ast.List) and len(vv.elts) == 2 and all(isinstance(e, ast.Constant) for e in vv.elts)):
                raise Untranslatable("attribute_mapping value is not [slot, column]")
            ent.append((_const_str(kk).rstrip("_"), vv.elts[0].value, vv.elts[1].value))
        maps[name] = ent
    for need in ("Oscar2013", "Oscar2013Extended", "JETSCAPE"):
        if need not in maps:
            raise Untranslatable(f"attribute_mapping lacks {need}")
    casts = []
    for n in ast.walk(f):
        if isinstance(n, ast.Compare) and isinstance(n.left, ast.Name) and n.left.id == "attribute" \
                and isinstance(n.ops[0], ast.In) and isinstance(n.comparators[0], ast.List):
            casts.append([_const_str(e).rstrip("_") for e in n.comparators[0].elts])
    if len(casts) != 2:
        raise Untranslatable("expected two cast lists (float, int)")
    T = dict(maps=maps, floatAttrs=casts[0], intAttrs=casts[1])
    return T, [dict(file="Particle.py", region=f.name, sha=pyexpr.src_hash(source, f))]


def extract_loader(source):
    tree = ast.parse(source)
    f = pyexpr.find_function(tree, "_set_custom_attr_list", "OscarLoader")
    if f is None:
        raise Untranslatable("OscarLoader._set_custom_attr_list not found")
    am = _assign_value(f, "attr_map")
    if not isinstance(am, ast.Dict):
        raise Untranslatable("attr_map is not a dict literal")
    T = dict(attrMap=[(_const_str(k), _const_str(v)) for k, v in zip(am.keys, am.values)])
    ip = pyexpr.find_function(tree, "impact_parameter", "OscarLoader")
    if ip is None:
        raise Untranslatable("OscarLoader.impact_parameter not found")
    T["impactFromLoader"] = _mentions(ip, "loaded_event_indices_")
    if not T["impactFromLoader"] and not _mentions(ip, "num_output_per_event_"):
        raise Untranslatable("impact_parameter(): neither labels nor loaded_event_indices_ select the events")
    return T, [dict(file="loader/OscarLoader.py", region=f.name, sha=pyexpr.src_hash(source, f)),
               dict(file="loader/OscarLoader.py", region=ip.name, sha=pyexpr.src_hash(source, ip))]


# ----------------------------------------------------------------------------- rendering
def _s(x):
    return '"' + x.replace("\\", "\\\\").replace('"', '\\"').replace("\n", "\\n").replace("\t", "\\t") + '"'


def _specl(xs):
    return "[" + ", ".join("." + x for x in xs) + "]"


def _cols(xs):
    return "[" + ", ".join(f"(.{'float' if c == 'float' else 'int'}, {_s(a)})" for c, a in xs) + "]"


def _rule(r):
    return ".stored" if r[0] == "stored" else f".pos {r[1]}"


def _pieces(ps, varmap):
    """the header is a line: its final newline is dropped here (and required to be there)"""
    ps = list(ps)
    if not ps or ps[-1][0] != "lit" or not ps[-1][1].endswith("\n") or any("\n" in v for k, v in ps[:-1] if k == "lit") \
            or "\n" in ps[-1][1][:-1]:
        raise Untranslatable("event header does not end with exactly one newline")
    ps[-1] = ("lit", ps[-1][1][:-1])
    if ps[-1][1] == "":
        ps.pop()
    out = []
    for k, v in ps:
        if k == "lit":
            out.append(f".lit {_s(v)}")
        else:
            if v not in varmap:
                raise Untranslatable(f"header variable {v!r} not understood")
            out.append("." + varmap[v])
    return "[" + ", ".join(out) + "]"


def render(oscar_src, jetscape_src, particle_src, loader_src):
    O, r1 = extract_oscar(oscar_src)
    J, r2 = extract_jetscape(jetscape_src)
    P, r3 = extract_particle(particle_src)
    A, r4 = extract_loader(loader_src)
    L_ = A
    if A["impactFromLoader"] != O["originFromLoader"]:
        raise Untranslatable("impact_parameter() and Oscar.event_origin_ use different event positions")
    L = ["-- GENERATED by harness/translate/writer.py from src/sparkx/{Oscar,Jetscape,Particle}.py, loader/OscarLoader.py -- do not edit",
         "namespace SparkxVerif.Gen.WriterTables", "",
         "/-- conversions of the savetxt format strings: `%g`, `%.9g`, `%d` -/",
         "inductive Spec | g | g9 | d", "deriving DecidableEq, Repr", "",
         "/-- the wrapper of a column in `_particle_as_list` / the cast of `Particle.__initialize_from_array` -/",
         "inductive Cast | float | int", "deriving DecidableEq, Repr", "",
         "/-- the event number written into an event header: the stored label, or position + constant -/",
         "inductive LabelRule | stored | pos (c : Nat)", "deriving DecidableEq, Repr", "",
         "/-- the end line written after an event: `event_end_lines_[label]`, or the event's own end line -/",
         "inductive FooterRule | byLabel | own", "deriving DecidableEq, Repr", "",
         "/-- pieces of an event header string -/",
         "inductive Piece | lit (s : String) | event | numOut | defStr", "deriving DecidableEq, Repr", "",
         "/-! ### Oscar.print_particle_lists_to_file -/",
         f"def fmtOscar2013 : List Spec := {_specl(O['fmt2013'])}",
         f"def fmtExtended20 : List Spec := {_specl(O['fmtExt'])}",
         f"def fmtExtensionSpec : Spec := .{O['extSpec']}",
         "/-- is the 20-column format widened only while event 0 is handled (`i == 0 and …`)? -/",
         f"def extFirstEventOnly : Bool := {'true' if O['extFirstEventOnly'] else 'false'}",
         "def formatMap : List (String × Spec) :=\n  [" + ", ".join(f"({_s(k)}, .{v})" for k, v in O["formatMap"]) + "]",
         f"def oscarLabelMulti : LabelRule := {_rule(O['labelMulti'])}",
         f"def oscarLabelSingle : LabelRule := {_rule(O['labelSingle'])}",
         f"def oscarFooterRule : FooterRule := .{O['footerRule']}",
         "/-- `_event_footer`: index (in `split(' ')`) of the piece replaced by the event number -/",
         f"def footerSubstIndex : Option Nat := {'none' if O['footerSubstIndex'] is None else 'some ' + str(O['footerSubstIndex'])}",
         "/-- does the \"number of events is zero\" test also require an empty `event_origin_`? -/",
         f"def zeroNeedsNoOrigin : Bool := {'true' if O['zeroNeedsNoOrigin'] else 'false'}",
         "/-- does `num_events_ == 0` (nothing held) take the \"number of events is zero\" path as well? -/",
         f"def zeroWhenNoEvents : Bool := {'true' if O['zeroWhenNoEvents'] else 'false'}",
         f"def oscarHasOrigin : Bool := {'true' if O['hasOrigin'] else 'false'}",
         "/-- are `event_origin_` / `impact_parameters_` taken from the loader's record of the events it kept (not the labels)? -/",
         f"def originFromLoader : Bool := {'true' if L_['impactFromLoader'] and O['originFromLoader'] else 'false'}",
         "/-- do `multiplicity_cut` / `lower_event_energy_cut` drop the origins / impact parameters of removed events? -/",
         f"def cutsKeepMetadata : Bool := {'true' if O['cutsKeepMetadata'] else 'false'}",
         f"def oscarOutHeader : List Piece := {_pieces(O['outHeader'], {'event': 'event', 'num_out': 'numOut'})}",
         "", "/-! ### Oscar._particle_as_list -/",
         f"def oscarColsBase : List (Cast × String) := {_cols(O['colsBase'])}",
         f"def oscarColsExt : List (Cast × String) := {_cols(O['colsExt'])}",
         f"def oscarColsOpt : List (Cast × String) := {_cols(O['colsOpt'])}",
         "", "/-! ### Jetscape -/",
         f"def jetscapeCols : List (Cast × String) := {_cols(J['cols'])}",
         f"def fmtJetscape : List Spec := {_specl(J['fmt'])}",
         f"def jetscapeLabelMulti : LabelRule := {_rule(J['labelMulti'])}",
         f"def jetscapeLabelSingle : LabelRule := {_rule(J['labelSingle'])}",
         f"def jetscapeHeader : List Piece := {_pieces(J['header'], {'event': 'event', 'num_out': 'numOut', 'defstr': 'defStr'})}",
         "", "/-! ### Particle.__initialize_from_array : attribute -> column of the line -/"]
    for nm, key in (("readMapOscar2013", "Oscar2013"), ("readMapExtended", "Oscar2013Extended"), ("readMapJetscape", "JETSCAPE")):
        L.append(f"def {nm} : List (String × Nat) :=\n  [" + ", ".join(f"({_s(a)}, {c})" for a, _, c in P["maps"][key]) + "]")
    L += [f"def floatAttrs : List String := [" + ", ".join(_s(a) for a in P["floatAttrs"]) + "]",
          f"def intAttrs : List String := [" + ", ".join(_s(a) for a in P["intAttrs"]) + "]",
          "", "/-! ### OscarLoader._set_custom_attr_list : header name -> attribute -/",
          "def attrMap : List (String × String) :=\n  [" + ", ".join(f"({_s(k)}, {_s(v)})" for k, v in A["attrMap"]) + "]",
          "", "end SparkxVerif.Gen.WriterTables"]
    return "\n".join(L) + "\n", r1 + r2 + r3 + r4
