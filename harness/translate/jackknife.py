"""Tie T for C15: src/sparkx/Jackknife.py -> Gen/Jackknife.lean.

Extracted on every run from the tree under test:
  * `_helper_unpack`: is the worker's generator reseeded before the task draws its sample, and with which
    seed expression (`rd.seed(instance.seed + index)`)  -> `reseedPerTask`, `taskSeed`;
  * `_randomly_delete_data`: `rd.sample(range(len(data)), int(self.delete_fraction * len(data)))` followed by
    `np.delete(data, delete_indices, axis=0)`; the sample size must be the same expression as
    `delete_n_points` in `compute_jackknife_estimates` (checked, not rendered: d is an input of the model);
  * `_compute_jackknife_samples`: `pool.starmap(self._helper_unpack, [(self, index, ...) for index in
    range(self.number_samples)])` (results indexed by task) (checked);
  * `compute_jackknife_estimates`: the probe call on `data[: max(1, len(data) // 100)]` (-> `probeLen`), `np.mean`, the accumulation loop body (-> `term`), the variance-scaling
    statements (-> `scale`, an if-chain on `delete_n_points == <const>` or one unconditional statement), `np.sqrt`.

Integer-typed sub-expressions (`len(data)`, `delete_n_points`, `len(jackknife_samples)`, integer literals,
`+ - *`) are rendered in `Nat` and cast where Python's true division converts them to float.  Python's `int - int`
can be negative where `Nat` truncates; the model is used only with d <= n, N >= 1 (checked per case).
"""
import ast

from . import pyexpr
from .pyexpr import Untranslatable

CLS = "Jackknife"
INT_NAMES = {"delete_n_points": "d"}
INT_LENS = {"data": "n", "jackknife_samples": "N"}


def _is_len(node):
    return (isinstance(node, ast.Call) and isinstance(node.func, ast.Name) and node.func.id == "len"
            and len(node.args) == 1 and not node.keywords and isinstance(node.args[0], ast.Name)
            and node.args[0].id in INT_LENS)


def _nat(node):
    """Lean Nat term for an integer-typed Python expression, or None."""
    if isinstance(node, ast.Constant) and isinstance(node.value, int) and not isinstance(node.value, bool) \
            and node.value >= 0:
        return str(node.value)
    if isinstance(node, ast.Name) and node.id in INT_NAMES:
        return INT_NAMES[node.id]
    if _is_len(node):
        return INT_LENS[node.args[0].id]
    if isinstance(node, ast.BinOp) and isinstance(node.op, (ast.Add, ast.Sub, ast.Mult)):
        a, b = _nat(node.left), _nat(node.right)
        if a is None or b is None:
            return None
        op = {ast.Add: "+", ast.Sub: "-", ast.Mult: "*"}[type(node.op)]
        return f"({a} {op} {b})"
    if isinstance(node, ast.BinOp) and isinstance(node.op, ast.FloorDiv):
        a, b = _nat(node.left), _nat(node.right)
        return None if a is None or b is None else f"({a} / {b})"
    if isinstance(node, ast.Call) and isinstance(node.func, ast.Name) and node.func.id in ("max", "min") \
            and len(node.args) == 2 and not node.keywords:
        a, b = _nat(node.args[0]), _nat(node.args[1])
        return None if a is None or b is None else f"(Nat.{node.func.id} {a} {b})"
    return None


def _env(float_names):
    def env(node, pr):
        t = _nat(node)
        if t is not None:
            return f"((({t}) : Nat) : α)"
        if isinstance(node, ast.Name) and node.id in float_names:
            return float_names[node.id]
        if isinstance(node, ast.Subscript) and isinstance(node.value, ast.Name) \
                and node.value.id == "jackknife_samples" and isinstance(node.slice, ast.Name) \
                and "jackknife_samples[]" in float_names:
            return float_names["jackknife_samples[]"]
        if isinstance(node, (ast.Name, ast.Subscript, ast.Call, ast.Attribute)):
            raise Untranslatable("unexpected operand " + ast.dump(node)[:100])
        return None
    return env


def _call_name(node):
    """'rd.seed' for Call(Attribute(Name rd, seed)) etc."""
    if isinstance(node, ast.Call):
        f = node.func
        if isinstance(f, ast.Attribute) and isinstance(f.value, ast.Name):
            return f"{f.value.id}.{f.attr}"
        if isinstance(f, ast.Name):
            return f.id
    return None


def _body(f):
    """function body without the docstring"""
    b = list(f.body)
    if b and isinstance(b[0], ast.Expr) and isinstance(b[0].value, ast.Constant) and isinstance(b[0].value.value, str):
        b = b[1:]
    return b


def _aug(st, op):
    return (isinstance(st, ast.AugAssign) and isinstance(st.op, op) and isinstance(st.target, ast.Name)
            and st.target.id == "variance_samples")


def extract(source: str):
    tree = ast.parse(source)
    out = {}
    # ---- per-task reseed
    f = pyexpr.find_function(tree, "_helper_unpack", CLS)
    if f is None:
        raise Untranslatable("_helper_unpack not found")
    body = _body(f)
    if not body or not isinstance(body[-1], ast.Return) or _call_name(body[-1].value) != "instance._compute_one_jackknife_sample":
        raise Untranslatable("_helper_unpack does not end with `return instance._compute_one_jackknife_sample(...)`")
    pre = body[:-1]
    if len(pre) == 0:
        out["reseed"] = None
    elif len(pre) == 1 and isinstance(pre[0], ast.Expr) and _call_name(pre[0].value) == "rd.seed" \
            and len(pre[0].value.args) == 1 and not pre[0].value.keywords:
        out["reseed"] = pre[0].value.args[0]
    else:
        raise Untranslatable("_helper_unpack: statements before the return are not a single `rd.seed(<expr>)`")
    # ---- one sample: copy, draw, delete, apply
    g = pyexpr.find_function(tree, "_randomly_delete_data", CLS)
    if g is None:
        raise Untranslatable("_randomly_delete_data not found")
    draws = [n for n in ast.walk(g) if _call_name(n) == "rd.sample"]
    dels = [n for n in ast.walk(g) if _call_name(n) == "np.delete"]
    if len(draws) != 1 or len(dels) != 1 or len(draws[0].args) != 2:
        raise Untranslatable("_randomly_delete_data: expected one rd.sample(population, k) and one np.delete")
    pop, k = draws[0].args
    if ast.dump(pop) != ast.dump(ast.parse("range(len(data))", mode="eval").body):
        raise Untranslatable("rd.sample population is not range(len(data))")
    dl = dels[0]
    if not (len(dl.args) == 2 and isinstance(dl.args[0], ast.Name) and dl.args[0].id == "data"
            and isinstance(dl.args[1], ast.Name) and dl.args[1].id == "delete_indices"
            and [(kw.arg, getattr(kw.value, "value", None)) for kw in dl.keywords] == [("axis", 0)]):
        raise Untranslatable("np.delete call is not np.delete(data, delete_indices, axis=0)")
    one = pyexpr.find_function(tree, "_compute_one_jackknife_sample", CLS)
    if one is None or not any(_call_name(n) == "self._randomly_delete_data" for n in ast.walk(one)) \
            or not any(_call_name(n) == "self._apply_function_to_reduced_data" for n in ast.walk(one)):
        raise Untranslatable("_compute_one_jackknife_sample: delete / apply calls not found")
    # ---- pool
    h = pyexpr.find_function(tree, "_compute_jackknife_samples", CLS)
    if h is None:
        raise Untranslatable("_compute_jackknife_samples not found")
    sm = [n for n in ast.walk(h) if _call_name(n) == "pool.starmap"]
    if len(sm) != 1 or len(sm[0].args) != 2:
        raise Untranslatable("expected exactly one pool.starmap(func, tasks) (results indexed by task)")
    fn, tasks = sm[0].args
    if not (isinstance(fn, ast.Attribute) and fn.attr == "_helper_unpack"):
        raise Untranslatable("starmap target is not self._helper_unpack")
    if not (isinstance(tasks, ast.ListComp) and len(tasks.generators) == 1
            and isinstance(tasks.generators[0].target, ast.Name) and tasks.generators[0].target.id == "index"
            and ast.dump(tasks.generators[0].iter) == ast.dump(ast.parse("range(self.number_samples)", mode="eval").body)
            and not tasks.generators[0].ifs
            and isinstance(tasks.elt, ast.Tuple)
            and [getattr(e, "id", None) for e in tasks.elt.elts] == ["self", "index", "data", "function", "args", "kwargs"]):
        raise Untranslatable("starmap task list is not [(self, index, data, function, args, kwargs) for index in range(self.number_samples)]")
    # ---- estimate
    c = pyexpr.find_function(tree, "compute_jackknife_estimates", CLS)
    if c is None:
        raise Untranslatable("compute_jackknife_estimates not found")
    body = _body(c)
    dn = [s for s in body if isinstance(s, ast.Assign) and len(s.targets) == 1
          and isinstance(s.targets[0], ast.Name) and s.targets[0].id == "delete_n_points"]
    if len(dn) != 1:
        raise Untranslatable("delete_n_points assignment not found")
    if ast.dump(dn[0].value) != ast.dump(k):
        raise Untranslatable("delete_n_points and the rd.sample size are different expressions")
    out["d_expr"] = ast.get_source_segment(source, dn[0].value)
    # the probe call `test_result = function(data[: <m>], *args, **kwargs)` (a VIEW of the caller's array)
    pr = [s for s in body if isinstance(s, ast.Assign) and isinstance(s.targets[0], ast.Name)
          and s.targets[0].id == "test_result"]
    if len(pr) == 0:
        out["probe"] = None
    else:
        v = pr[0].value
        ok = (len(pr) == 1 and isinstance(v, ast.Call) and isinstance(v.func, ast.Name) and v.func.id == "function"
              and len(v.args) >= 1 and isinstance(v.args[0], ast.Subscript) and isinstance(v.args[0].value, ast.Name)
              and v.args[0].value.id == "data" and isinstance(v.args[0].slice, ast.Slice)
              and v.args[0].slice.lower is None and v.args[0].slice.step is None
              and v.args[0].slice.upper is not None and _nat(v.args[0].slice.upper) is not None)
        if not ok:
            raise Untranslatable("probe call is not `test_result = function(data[: <int expr>], ...)`")
        out["probe"] = v.args[0].slice.upper
    # statements from `mean_samples = ...` to the return
    idx = [i for i, s in enumerate(body) if isinstance(s, ast.Assign) and isinstance(s.targets[0], ast.Name)
           and s.targets[0].id == "mean_samples"]
    if len(idx) != 1:
        raise Untranslatable("mean_samples assignment not found")
    tail = body[idx[0]:]
    if ast.dump(tail[0].value) != ast.dump(ast.parse("np.mean(jackknife_samples)", mode="eval").body):
        raise Untranslatable("mean_samples is not np.mean(jackknife_samples)")
    if not (len(tail) >= 4 and isinstance(tail[1], ast.Assign) and isinstance(tail[1].targets[0], ast.Name)
            and tail[1].targets[0].id == "variance_samples" and isinstance(tail[1].value, ast.Constant)
            and tail[1].value.value == 0.0):
        raise Untranslatable("variance_samples = 0.0 not found after mean_samples")
    loop = tail[2]
    if not (isinstance(loop, ast.For) and isinstance(loop.target, ast.Name)
            and ast.dump(loop.iter) == ast.dump(ast.parse("range(len(jackknife_samples))", mode="eval").body)
            and len(loop.body) == 1 and _aug(loop.body[0], ast.Add) and not loop.orelse):
        raise Untranslatable("accumulation loop is not `for i in range(len(jackknife_samples)): variance_samples += <expr>`")
    out["term"] = loop.body[0].value
    out["loopvar"] = loop.target.id
    if not (isinstance(tail[-1], ast.Return)
            and ast.dump(tail[-1].value) == ast.dump(ast.parse("np.sqrt(variance_samples)", mode="eval").body)):
        raise Untranslatable("return is not np.sqrt(variance_samples)")
    scal = tail[3:-1]
    factors = []  # list of list of (const | None, expr): each statement multiplies
    for st in scal:
        if _aug(st, ast.Mult):
            factors.append([(None, st.value)])
        elif isinstance(st, ast.If):
            chain = []
            for test, b in pyexpr.if_chain(st):
                if not (len(b) == 1 and _aug(b[0], ast.Mult)):
                    raise Untranslatable("scaling branch is not a single `variance_samples *= <expr>`")
                if test is None:
                    chain.append((None, b[0].value))
                else:
                    if not (isinstance(test, ast.Compare) and isinstance(test.left, ast.Name)
                            and test.left.id == "delete_n_points" and len(test.ops) == 1
                            and isinstance(test.ops[0], ast.Eq) and isinstance(test.comparators[0], ast.Constant)
                            and isinstance(test.comparators[0].value, int)):
                        raise Untranslatable("scaling test is not `delete_n_points == <int>`")
                    chain.append((test.comparators[0].value, b[0].value))
            if chain[-1][0] is not None:
                raise Untranslatable("scaling if-chain without else (some d would stay unscaled)")
            factors.append(chain)
        else:
            raise Untranslatable("unexpected statement between the loop and the return: " + ast.dump(st)[:80])
    if not factors:
        raise Untranslatable("no variance-scaling statement found")
    out["factors"] = factors
    regions = [dict(file="Jackknife.py", region=fn_.name, sha=pyexpr.src_hash(source, fn_)) for fn_ in (f, g, one, h)]
    import hashlib
    seg = "\n".join(ast.get_source_segment(source, s) or "" for s in [dn[0]] + tail)
    regions.append(dict(file="Jackknife.py", region="compute_jackknife_estimates: delete_n_points, mean .. return",
                        sha=hashlib.sha256(seg.encode()).hexdigest()[:16]))
    return out, regions


def render(source: str):
    ex, regions = extract(source)
    L = ["-- GENERATED by harness/translate/jackknife.py from src/sparkx/Jackknife.py -- do not edit",
         "import SparkxVerif.Core.Num", "", "namespace SparkxVerif.Gen.Jackknife", "",
         "variable {α : Type} [Add α] [Sub α] [Mul α] [Neg α] [Div α] [NatCast α]", ""]
    # reseed
    if ex["reseed"] is None:
        L += ["/-- `_helper_unpack` does NOT reseed the worker's generator before the task draws -/",
              "def reseedPerTask : Bool := false",
              "def taskSeed (seed : Int) (index : Nat) : Int := seed", ""]
    else:
        def seedexpr(n):
            if isinstance(n, ast.Attribute) and isinstance(n.value, ast.Name) and n.value.id == "instance" and n.attr == "seed":
                return "seed"
            if isinstance(n, ast.Name) and n.id == "index":
                return "(index : Int)"
            if isinstance(n, ast.Constant) and isinstance(n.value, int) and not isinstance(n.value, bool):
                return f"({n.value} : Int)"
            if isinstance(n, ast.BinOp) and isinstance(n.op, (ast.Add, ast.Sub, ast.Mult)):
                op = {ast.Add: "+", ast.Sub: "-", ast.Mult: "*"}[type(n.op)]
                return f"({seedexpr(n.left)} {op} {seedexpr(n.right)})"
            raise Untranslatable("seed expression: " + ast.dump(n)[:80])
        L += ["/-- `_helper_unpack` starts with `rd.seed(%s)` -/" % ast.unparse(ex["reseed"]),
              "def reseedPerTask : Bool := true",
              f"def taskSeed (seed : Int) (index : Nat) : Int := {seedexpr(ex['reseed'])}", ""]
    # term
    pT = pyexpr.Printer("generic", _env({"mean_samples": "mean", "jackknife_samples[]": "x"}))
    L += ["/-- loop body `variance_samples += %s` -/" % ast.unparse(ex["term"]),
          f"def term (x mean : α) : α :=\n  {pT.p(ex['term'])}", ""]
    # scale
    pS = pyexpr.Printer("generic", _env({}))
    fs = []
    for chain in ex["factors"]:
        t = None
        for const, expr in reversed(chain):
            e = pS.p(expr)
            t = e if const is None else f"(if d = {const} then {e} else {t})"
        fs.append(t)
    scale = fs[0]
    for t in fs[1:]:
        scale = f"({scale} * {t})"
    L += ["/-- the variance-scaling statements (`variance_samples *= ...`); n = len(data), d = delete_n_points =",
          f"    `{ex['d_expr']}`, N = len(jackknife_samples) -/",
          f"def scale (n d N : Nat) : α :=\n  {scale}", ""]
    if ex["probe"] is None:
        L += ["/-- no probe call of the statistic on a slice of the caller's array -/",
              "def probeLen (n : Nat) : Nat := 0", ""]
    else:
        L += ["/-- the statistic is first called on the view `data[: %s]` of the caller's array -/" % ast.unparse(ex["probe"]),
              f"def probeLen (n : Nat) : Nat := {_nat(ex['probe'])}", ""]
    L.append("end SparkxVerif.Gen.Jackknife")
    return "\n".join(L) + "\n", regions
