"""Tie T for C10: Histogram.write_to_file -> Gen/HistWrite.lean.

Extracted on every run from the tree under test:
  * the string lists assigned inside `write_to_file` and the `if columns is None:` default,
  * the `data = [...]` list of the bin loop, slot by slot (which getter / array each slot reads),
  * the selection comprehension `[data[L.index(col)] for col in columns]` — which list `L` is indexed,
  * the label lookup of the header row (`hist_labels[idx]` or the single-dictionary conditional),
  * whether unknown column names are rejected before the file is opened.
"""
import ast

from . import pyexpr
from .pyexpr import Untranslatable

QTY = {
    "bin_centers": "center",
    "bin_bounds_left": "low",
    "bin_bounds_right": "high",
    "histograms_": "dist",
    "error_": "stat",
    "systematic_error_": "sys",
}


def _str_list(node):
    if isinstance(node, ast.List) and node.elts and all(isinstance(e, ast.Constant) and isinstance(e.value, str)
                                                       for e in node.elts):
        return [e.value for e in node.elts]
    return None


def _is_name(node, name):
    return isinstance(node, ast.Name) and node.id == name


def _slot(node):
    """self.bin_centers()[i] | self.bin_bounds_left()[i] | self.bin_bounds_right()[i] | self.<arr>[idx][i]"""
    if not (isinstance(node, ast.Subscript) and _is_name(node.slice, "i")):
        raise Untranslatable("data slot is not indexed by the bin counter i: " + ast.dump(node)[:80])
    v = node.value
    if isinstance(v, ast.Call) and not v.args and isinstance(v.func, ast.Attribute) \
            and _is_name(v.func.value, "self") and v.func.attr in QTY:
        return QTY[v.func.attr]
    if isinstance(v, ast.Subscript) and _is_name(v.slice, "idx") and isinstance(v.value, ast.Attribute) \
            and _is_name(v.value.value, "self") and v.value.attr in QTY:
        return QTY[v.value.attr]
    raise Untranslatable("unknown data slot " + ast.dump(node)[:100])


def _single_comp(node, var):
    """[<elt> for <var> in columns] -> elt"""
    if isinstance(node, ast.ListComp) and len(node.generators) == 1:
        g = node.generators[0]
        if _is_name(g.target, var) and _is_name(g.iter, "columns") and not g.ifs:
            return node.elt
    raise Untranslatable("expected a comprehension over `columns`: " + ast.dump(node)[:80])


def _is_labels_idx(node, i):
    """hist_labels[<i>]"""
    return isinstance(node, ast.Subscript) and _is_name(node.value, "hist_labels") and (
        _is_name(node.slice, i) if isinstance(i, str) else
        (isinstance(node.slice, ast.Constant) and node.slice.value == i))


def extract(source: str):
    tree = ast.parse(source)
    f = pyexpr.find_function(tree, "write_to_file", "Histogram")
    if f is None:
        raise Untranslatable("Histogram.write_to_file not found")
    lists = {}          # name -> list of strings assigned at function level (or inside `if columns is None`)
    default = None
    rejects = False
    for st in f.body:
        if isinstance(st, ast.Assign) and len(st.targets) == 1 and isinstance(st.targets[0], ast.Name):
            sl = _str_list(st.value)
            if sl is not None:
                lists[st.targets[0].id] = sl
        if isinstance(st, ast.If) and isinstance(st.test, ast.Compare) and _is_name(st.test.left, "columns") \
                and len(st.test.ops) == 1 and isinstance(st.test.ops[0], ast.Is) \
                and isinstance(st.test.comparators[0], ast.Constant) and st.test.comparators[0].value is None:
            # if columns is None: columns = <list | name>   [elif not all(col in <name> for col in columns): raise]
            body = st.body
            if len(body) != 1 or not (isinstance(body[0], ast.Assign) and _is_name(body[0].targets[0], "columns")):
                raise Untranslatable("`if columns is None` does not just assign the default")
            val = body[0].value
            default = _str_list(val)
            if default is None:
                if isinstance(val, ast.Name) and val.id in lists:
                    default = lists[val.id]
                else:
                    raise Untranslatable("default columns are not a literal list of strings")
            for test, br in pyexpr.if_chain(st)[1:]:
                if test is None:
                    raise Untranslatable("unexpected else after `if columns is None`")
                ok = isinstance(test, ast.UnaryOp) and isinstance(test.op, ast.Not) and isinstance(test.operand, ast.Call) \
                    and _is_name(test.operand.func, "all") and len(test.operand.args) == 1 \
                    and isinstance(test.operand.args[0], ast.GeneratorExp)
                if ok:
                    g = test.operand.args[0]
                    ok = len(g.generators) == 1 and _is_name(g.generators[0].iter, "columns") \
                        and isinstance(g.elt, ast.Compare) and len(g.elt.ops) == 1 and isinstance(g.elt.ops[0], ast.In) \
                        and isinstance(g.elt.comparators[0], ast.Name) and g.elt.comparators[0].id in lists \
                        and len(br) == 1 and isinstance(br[0], ast.Raise)
                if not ok:
                    raise Untranslatable("unrecognised branch after `if columns is None`")
                rejects = g.elt.comparators[0].id
    if default is None:
        raise Untranslatable("no `if columns is None:` default found")
    # the writing loops
    with_ = [n for n in f.body if isinstance(n, ast.With)]
    if len(with_) != 1:
        raise Untranslatable("expected exactly one `with open(...)` block")
    outer = [n for n in with_[0].body if isinstance(n, ast.For)]
    if len(outer) != 1 or not _is_name(outer[0].target, "idx"):
        raise Untranslatable("expected one `for idx in range(number_of_histograms_)` loop")
    shared = None
    header_seen = False
    inner = None
    label_var = None
    for st in outer[0].body:
        if isinstance(st, ast.Assign) and len(st.targets) == 1 and isinstance(st.targets[0], ast.Name):
            tgt = st.targets[0].id
            if tgt == "header":
                elt = _single_comp(st.value, "col")
                if not (isinstance(elt, ast.Subscript) and _is_name(elt.slice, "col")):
                    raise Untranslatable("header element is not <dict>[col]")
                if _is_labels_idx(elt.value, "idx"):
                    shared = False
                elif label_var is not None and _is_name(elt.value, label_var):
                    shared = True
                else:
                    raise Untranslatable("header does not read hist_labels[idx] or the selected dictionary")
                header_seen = True
            else:
                # labels = hist_labels[idx] if len(hist_labels) > 1 else hist_labels[0]
                v = st.value
                ok = isinstance(v, ast.IfExp) and _is_labels_idx(v.body, "idx") and _is_labels_idx(v.orelse, 0) \
                    and isinstance(v.test, ast.Compare) and len(v.test.ops) == 1 and isinstance(v.test.ops[0], ast.Gt) \
                    and isinstance(v.test.left, ast.Call) and _is_name(v.test.left.func, "len") \
                    and _is_name(v.test.left.args[0], "hist_labels") \
                    and isinstance(v.test.comparators[0], ast.Constant) and v.test.comparators[0].value == 1
                if not ok:
                    raise Untranslatable("unrecognised assignment in the histogram loop: " + ast.dump(st)[:100])
                label_var = tgt
        elif isinstance(st, ast.For):
            if inner is not None or not _is_name(st.target, "i"):
                raise Untranslatable("expected one `for i in range(number_of_bins_)` loop")
            inner = st
    if not header_seen or inner is None:
        raise Untranslatable("header row or bin loop not found")
    data = None
    select = None
    for st in inner.body:
        if isinstance(st, ast.Assign) and _is_name(st.targets[0], "data"):
            if isinstance(st.value, ast.List):
                data = [_slot(e) for e in st.value.elts]
            else:
                elt = _single_comp(st.value, "col")
                # data[L.index(col)]
                ok = isinstance(elt, ast.Subscript) and _is_name(elt.value, "data") and isinstance(elt.slice, ast.Call) \
                    and isinstance(elt.slice.func, ast.Attribute) and elt.slice.func.attr == "index" \
                    and isinstance(elt.slice.func.value, ast.Name) and len(elt.slice.args) == 1 \
                    and _is_name(elt.slice.args[0], "col")
                if not ok:
                    raise Untranslatable("selection is not [data[L.index(col)] for col in columns]")
                select = elt.slice.func.value.id
    if data is None or select is None:
        raise Untranslatable("`data = [...]` or the selection comprehension not found")
    if select == "columns":
        by_name = False
        allc = default
    elif select in lists:
        by_name = True
        allc = lists[select]
    else:
        raise Untranslatable(f"selection indexes an unknown list `{select}`")
    if len(allc) != len(data):
        raise Untranslatable(f"{len(allc)} column names but {len(data)} data slots")
    regions = [dict(file="src/sparkx/Histogram.py", what="Histogram.write_to_file", hash=pyexpr.src_hash(source, f))]
    return dict(allc=allc, default=default, data=data, by_name=by_name, shared=bool(shared),
                rejects=bool(rejects) and rejects == select), regions


def _lean_strs(xs):
    return "[" + ", ".join('"' + x.replace("\\", "\\\\").replace('"', '\\"') + '"' for x in xs) + "]"


def render(source: str):
    d, regions = extract(source)
    b = {True: "true", False: "false"}
    text = f"""/-
GENERATED by harness/translate/histogram.py from src/sparkx/Histogram.py (`Histogram.write_to_file`).
Do not edit: regenerated on every check run; the golden copy is lean/golden/Gen/HistWrite.lean.
-/
namespace SparkxVerif.Gen.HistWrite

/-- what one slot of the `data = [...]` list of `write_to_file` holds -/
inductive Qty where
  | center | low | high | dist | stat | sys
  deriving DecidableEq, Repr

/-- the list of column names the code selects from (`all_columns`, or the default `columns` list) -/
def allColumns : List String :=
  {_lean_strs(d['allc'])}

/-- `columns` when the caller passes `None` -/
def defaultColumns : List String :=
  {_lean_strs(d['default'])}

/-- the `data = [...]` list, slot by slot -/
def dataOrder : List Qty :=
  [{", ".join("Qty." + q for q in d['data'])}]

/-- selection `[data[L.index(col)] for col in columns]`: `true` when `L` is the list of all column
names (selection by name), `false` when `L` is the requested list itself (selection by position) -/
def selectByName : Bool := {b[d['by_name']]}

/-- label dictionary of histogram `idx`: `true` for `hist_labels[idx] if len(hist_labels) > 1 else hist_labels[0]`,
`false` for plain `hist_labels[idx]` -/
def singleLabelShared : Bool := {b[d['shared']]}

/-- requested names outside `allColumns` are rejected (`ValueError`) before the file is opened -/
def rejectsUnknown : Bool := {b[d['rejects']]}

end SparkxVerif.Gen.HistWrite
"""
    return text, regions
