"""Entry point: ./check Cxx [--tier quick|thorough] [--replay file]"""
import argparse
import importlib
import os
import sys
from pathlib import Path

sys.path.insert(0, str(Path(__file__).resolve().parent))
import common  # noqa: E402

# the real code is imported from the tree under test (default /repo; SPARKX_REPO for scratch worktrees)
sys.path.insert(0, str(common.REPO / "src"))


def main():
    ap = argparse.ArgumentParser()
    ap.add_argument("prop")
    ap.add_argument("--tier", default=os.environ.get("VERIF_TIER", "quick"), choices=["quick", "thorough"])
    ap.add_argument("--replay", default=None)
    a = ap.parse_args()
    try:
        seed = int(os.environ.get("VERIF_SEED", "0"))
    except ValueError:
        seed = 0
    os.environ.setdefault("OMP_NUM_THREADS", "1")
    os.environ.setdefault("OPENBLAS_NUM_THREADS", "1")
    ctx = common.Ctx(a.prop, a.tier, seed)
    mod = importlib.import_module(f"props.{a.prop}")
    if a.replay:
        rc = mod.replay(ctx, a.replay)
        sys.exit(rc)
    common.standard_flow(ctx, mod)
    sys.exit(common.finish(ctx))


if __name__ == "__main__":
    main()
