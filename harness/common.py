"""Shared plumbing of the sparkx verification checks.

One check run = translate (tie T) -> lake build of the property's theorems -> axiom audit
-> forbidden-token grep -> correspondence (tie C) -> oracle search on the real code -> decide
-> evidence.  See DESIGN.md section 2.
"""
from __future__ import annotations

import fcntl
import hashlib
import json
import os
import random
import re
import struct
import subprocess
import sys
import time
import traceback
from pathlib import Path

VERIF = Path(__file__).resolve().parent.parent
LEAN = VERIF / "lean"
REPO = Path(os.environ.get("SPARKX_REPO", "/repo"))
SRC = REPO / "src" / "sparkx"
EVIDENCE = VERIF / "evidence"
REPLAYS = VERIF / "replays"
ALLOWED_AXIOMS = {"propext", "Classical.choice", "Quot.sound"}
FORBIDDEN = re.compile(
    r"\bsorry\b|\badmit\b|^\s*axiom\s|native_decide|bv_decide|implemented_by|\bunsafe\s|maxHeartbeats\s+0\b",
    re.M,
)

TRUSTED_BASE = [
    "Lean 4.33.0 kernel; axioms limited to propext, Classical.choice, Quot.sound (audited with #print axioms on every run)",
    "no sorry/admit/own axiom/native_decide/bv_decide (grep on every run)",
    "translator harness/translate (Python ast -> Lean text) where tie T is used",
    "correspondence harness (differential testing of the executable model against /repo's code)",
    "Python/numpy semantics, IEEE-754 evaluation of real-number formulas (theorems are over exact rings/fields)",
]


# ----------------------------------------------------------------------------- floats
def f2h(x: float) -> str:
    return "%016x" % struct.unpack("<Q", struct.pack("<d", float(x)))[0]


def h2f(s: str) -> float:
    return struct.unpack("<d", struct.pack("<Q", int(s, 16)))[0]


def fl(xs) -> str:
    return ";".join(f2h(x) for x in xs)


def parse_fl(s: str):
    return [h2f(t) for t in s.split(";")] if s else []


def hexs(s: str) -> str:
    return s.encode().hex()


def close(a: float, b: float, rel=1e-9, abs_=0.0) -> bool:
    if a != a and b != b:
        return True
    if a != a or b != b:
        return False
    if a == b:
        return True
    if a in (float("inf"), float("-inf")) or b in (float("inf"), float("-inf")):
        return False
    return abs(a - b) <= max(abs_, rel * max(abs(a), abs(b)))


# ----------------------------------------------------------------------------- context
class Ctx:
    def __init__(self, prop: str, tier: str, seed: int):
        self.prop = prop
        self.tier = tier
        self.seed = seed
        self.rng = random.Random(f"{prop}/{seed}")
        self.t0 = time.time()
        self.broken: list[dict] = []  # proof / translator / correspondence breakages
        self.violations: list[dict] = []  # property failures on the real code
        self.notes: list[str] = []
        self.cov: dict = {}
        self.assumptions: list[str] = []
        self.samples: list = []
        self.evaluations = 0
        self.nontrivial: set = set()
        self.hist: dict[str, int] = {}

    @property
    def thorough(self) -> bool:
        return self.tier == "thorough"

    def n(self, quick: int, thorough: int) -> int:
        # when the translator could not re-derive the model (fallback to the golden model), the correspondence
        # carries the whole tie and runs with the thorough case counts
        return thorough if (self.thorough or getattr(self, "fallback", False)) else quick

    def count(self, tag: str, k: int = 1):
        self.hist[tag] = self.hist.get(tag, 0) + k

    def case(self, canon, nontrivial: bool, sample=None):
        """Register one explored case (canonical hashable form)."""
        self.evaluations += 1
        if nontrivial:
            self.nontrivial.add(hashlib.sha1(repr(canon).encode()).hexdigest())
        if sample is not None and len(self.samples) < 4:
            self.samples.append(sample)

    def brk(self, kind: str, what: str, **kw):
        d = dict(kind=kind, what=what)
        d.update(kw)
        self.broken.append(d)

    def violation(self, key: str, what: str, replay: dict):
        self.violations.append(dict(key=key, what=what, replay=replay))


# ----------------------------------------------------------------------------- lean
class _Lock:
    def __enter__(self):
        self.f = open(LEAN / ".lake.lock.verif", "w")
        fcntl.flock(self.f, fcntl.LOCK_EX)
        return self

    def __exit__(self, *a):
        fcntl.flock(self.f, fcntl.LOCK_UN)
        self.f.close()


def write_if_changed(path: Path, text: str) -> bool:
    path.parent.mkdir(parents=True, exist_ok=True)
    if path.exists() and path.read_text() == text:
        return False
    path.write_text(text)
    return True


def lake_build(targets: list[str], timeout=900) -> tuple[bool, str]:
    """`lake build` under the lock; a build that does not finish within `timeout` counts as failed
    (a proof script that no longer closes can make `simp`/`ring` run very long)."""
    with _Lock():
        p = subprocess.Popen(["lake", "build", *targets], cwd=LEAN, stdout=subprocess.PIPE,
                             stderr=subprocess.STDOUT, text=True, start_new_session=True)
        try:
            out, _ = p.communicate(timeout=timeout)
        except subprocess.TimeoutExpired:
            import signal
            os.killpg(p.pid, signal.SIGKILL)
            out, _ = p.communicate()
            return False, (out or "") + f"\nerror: lake build timed out after {timeout}s"
    return p.returncode == 0, out


def lake_clean_modules(mods: list[str]):
    """Remove the build products of the given modules so that they are re-elaborated."""
    for m in mods:
        rel = m.replace(".", "/")
        for ext in ("olean", "ilean", "trace", "olean.hash", "ilean.hash", "c", "c.hash",
                    "olean.server", "olean.private", "olean.server.hash", "olean.private.hash"):
            for base in (LEAN / ".lake/build/lib/lean", LEAN / ".lake/build/ir"):
                f = base / f"{rel}.{ext}"
                if f.exists():
                    f.unlink()


def lean_run_file(path: Path, stdin: str | None = None, timeout=3000) -> tuple[int, str, str]:
    p = subprocess.run(
        ["lake", "env", "lean", "--run", str(path)] if stdin is not None else ["lake", "env", "lean", str(path)],
        cwd=LEAN, input=stdin, capture_output=True, text=True, timeout=timeout,
    )
    return p.returncode, p.stdout, p.stderr


def restore_golden(prop: str) -> list[str]:
    """copy lean/golden/Gen/X.lean over lean/SparkxVerif/Gen/X.lean for every Gen module the property imports"""
    ob = obligations(prop)
    out = []
    for f in import_closure(list(ob["modules"]) + list(ob.get("driver_modules", []))):
        if f.parent.name == "Gen":
            g = LEAN / "golden" / "Gen" / f.name
            if g.exists():
                write_if_changed(f, g.read_text())
                out.append(f.name)
    return out


def obligations(prop: str) -> dict:
    return json.loads((LEAN / "obligations" / f"{prop}.json").read_text())


def audit_axioms(prop: str) -> tuple[dict, list[str]]:
    """#print axioms for every registered theorem. Returns ({thm: [axioms]|None}, problems)."""
    ob = obligations(prop)
    names = [t["name"] for t in ob["theorems"]]
    audit = LEAN / ".audit"
    audit.mkdir(exist_ok=True)
    f = audit / f"{prop}.lean"
    body = "".join(f"import {m}\n" for m in ob["modules"]) + "".join(f"#print axioms {n}\n" for n in names)
    f.write_text(body)
    rc, out, err = lean_run_file(f)
    text = out + err
    res: dict = {}
    problems = []
    for n in names:
        m = re.search(r"'" + re.escape(n) + r"' depends on axioms: \[([^\]]*)\]", text, re.S)
        if m:
            axs = [a.strip() for a in m.group(1).replace("\n", " ").split(",") if a.strip()]
            res[n] = axs
            bad = [a for a in axs if a not in ALLOWED_AXIOMS]
            if bad:
                problems.append(f"{n}: disallowed axioms {bad}")
        elif re.search(r"'" + re.escape(n) + r"' does not depend on any axioms", text):
            res[n] = []
        else:
            res[n] = None
            problems.append(f"{n}: theorem not found / not checked")
    return res, problems


def strip_lean_comments(s: str) -> str:
    # nested block comments
    out = []
    i = 0
    depth = 0
    n = len(s)
    while i < n:
        if s.startswith("/-", i):
            depth += 1
            i += 2
            continue
        if depth and s.startswith("-/", i):
            depth -= 1
            i += 2
            continue
        if depth:
            i += 1
            continue
        if s.startswith("--", i):
            j = s.find("\n", i)
            i = n if j < 0 else j
            continue
        out.append(s[i])
        i += 1
    return "".join(out)


def import_closure(mods: list[str]) -> list[Path]:
    """source files of the given modules and of everything they import inside this project"""
    seen: dict[str, Path] = {}
    todo = list(mods)
    while todo:
        m = todo.pop()
        if m in seen or not m.startswith("SparkxVerif"):
            continue
        f = LEAN / (m.replace(".", "/") + ".lean")
        if not f.exists():
            continue
        seen[m] = f
        for line in f.read_text().splitlines():
            mm = re.match(r"\s*(?:public\s+)?import\s+([A-Za-z0-9_.]+)", line)
            if mm:
                todo.append(mm.group(1))
    return list(seen.values())


def forbidden_tokens(prop: str | None = None) -> list[str]:
    """grep (comments stripped) over the import closure of the property's modules and its driver"""
    hits = []
    if prop is None:
        files = list((LEAN / "SparkxVerif").rglob("*.lean")) + list((LEAN / "drivers").glob("*.lean"))
    else:
        ob = obligations(prop)
        files = import_closure(list(ob["modules"]) + list(ob.get("driver_modules", [])))
        d = LEAN / "drivers" / f"{prop}.lean"
        if d.exists():
            files.append(d)
    for f in files:
        txt = strip_lean_comments(f.read_text())
        for m in FORBIDDEN.finditer(txt):
            hits.append(f"{f.relative_to(LEAN)}: {m.group(0).strip()}")
    return hits


def run_driver(prop: str, lines: list[str], timeout=3000) -> list[str]:
    """Feed `lines` to the property's Lean driver, return its answer lines."""
    drv = LEAN / "drivers" / f"{prop}.lean"
    rc, out, err = lean_run_file(drv, stdin="".join(l + "\n" for l in lines), timeout=timeout)
    outs = out.split("\n")
    if outs and outs[-1] == "":
        outs.pop()
    if rc != 0 or len(outs) != len(lines):
        raise DriverError(f"driver rc={rc}, {len(outs)} answers for {len(lines)} cases\n{err[-2000:]}")
    return outs


class DriverError(Exception):
    pass


# ----------------------------------------------------------------------------- source regions
def region_hash(text: str) -> str:
    return hashlib.sha256(text.encode()).hexdigest()[:16]


def read_src(rel: str) -> str:
    return (SRC / rel).read_text()


# ----------------------------------------------------------------------------- known findings
def known_findings() -> dict:
    p = VERIF / "known_findings.json"
    if not p.exists():
        return {"open": [], "fixed": []}
    return json.loads(p.read_text())


# ----------------------------------------------------------------------------- generic flow
def standard_flow(ctx: Ctx, mod):
    """translate -> build -> audit -> grep -> correspond -> search; fills ctx."""
    prop = ctx.prop
    ob = obligations(prop)
    regions = []
    # 1. translator
    if hasattr(mod, "translate"):
        try:
            regions = mod.translate(ctx) or []
        except Exception as e:  # extractor could not understand the source
            # DESIGN 2.1 (i): the committed golden model takes over; if it still corresponds to the code on the
            # (enlarged) correspondence run and the oracle finds nothing, the theorems about it still speak about
            # the code and the run passes with tie = correspondence-only.
            restored = restore_golden(prop)
            ctx.fallback = True
            ctx.cov["tie"] = "correspondence-only (translator could not re-derive: %s: %s)" % (type(e).__name__, str(e)[:300])
            ctx.cov["golden_restored"] = restored
            ctx.notes.append("translator could not parse the source; golden model used: " + ", ".join(restored))
            if not restored:
                ctx.brk("translator-broken", f"{type(e).__name__}: {e} (no golden model to fall back to)",
                        trace=traceback.format_exc()[-1500:])
    ctx.cov["translator_regions"] = regions
    # 2. proofs
    targets = list(ob["modules"]) + list(ob.get("driver_modules", []))
    if ctx.thorough:
        lake_clean_modules(list(ob["modules"]) + list(ob.get("clean_modules", [])))
    t = time.time()
    ok, log = lake_build(targets)
    ctx.cov["lake_build_s"] = round(time.time() - t, 1)
    names = [t_["name"] for t_ in ob["theorems"]]
    discharged = 0
    axioms = {}
    if not ok:
        errs = [l for l in log.splitlines() if "error" in l.lower()][:12]
        ctx.brk("proof-broken", "lake build failed: " + " | ".join(errs), log=log[-4000:])
    else:
        axioms, problems = audit_axioms(prop)
        for p_ in problems:
            ctx.brk("proof-broken", "axiom audit: " + p_)
        discharged = sum(1 for n in names if axioms.get(n) is not None and set(axioms[n]) <= ALLOWED_AXIOMS)
        hits = forbidden_tokens(prop)
        ctx.cov["files_in_closure"] = len(import_closure(list(ob["modules"]) + list(ob.get("driver_modules", []))))
        for h in hits:
            ctx.brk("proof-broken", "forbidden token " + h)
        if ctx.thorough and ob.get("leanchecker", True):
            t = time.time()
            with _Lock():
                p = subprocess.run(["lake", "env", "leanchecker", *ob["modules"]], cwd=LEAN,
                                   capture_output=True, text=True, timeout=3000)
            ctx.cov["leanchecker_s"] = round(time.time() - t, 1)
            ctx.cov["leanchecker_rc"] = p.returncode
            if p.returncode != 0:
                ctx.brk("proof-broken", "leanchecker rejected: " + (p.stdout + p.stderr)[-500:])
    ctx.cov["obligations"] = len(names)
    ctx.cov["discharged"] = discharged
    ctx.cov["axioms"] = axioms
    ctx.cov["theorems"] = ob["theorems"]
    ctx.cov["checker_cmd"] = "cd lean && lake build " + " ".join(ob["modules"]) + \
        " && lake env lean .audit/%s.lean  (#print axioms)" % prop + \
        (" && lake env leanchecker " + " ".join(ob["modules"]) if ctx.thorough else "")
    # 3. correspondence (also when a proof module no longer builds, as long as the executable model itself does:
    #    where model and code part ways tells the search where to look)
    drv_ok = ok
    if not ok and ob.get("driver_modules"):
        drv_ok, _ = lake_build(list(ob["driver_modules"]))
        ctx.cov["driver_built_after_proof_failure"] = drv_ok
    if drv_ok and hasattr(mod, "correspond"):
        try:
            mod.correspond(ctx)
        except DriverError as e:
            ctx.brk("correspondence-broken", "driver failed: " + str(e)[:1500])
        except Exception as e:
            ctx.brk("correspondence-broken", f"harness exception {type(e).__name__}: {e}",
                    trace=traceback.format_exc()[-2500:])
    # 4. oracle search on the real code (always; deeper when something broke)
    if hasattr(mod, "search"):
        budget = (300 if ctx.thorough else 30) if ctx.broken else (60 if ctx.thorough else 8)
        try:
            mod.search(ctx, budget)
        except Exception as e:
            ctx.brk("search-broken", f"{type(e).__name__}: {e}", trace=traceback.format_exc()[-2500:])


def finish(ctx: Ctx) -> int:
    prop = ctx.prop
    kf = known_findings()
    open_keys = {f["key"]: f for f in kf.get("open", []) if f["property"] == prop}
    REPLAYS.mkdir(exist_ok=True)
    lines = []
    nviol = 0
    seen_known = set()
    reported = set()
    for v in ctx.violations:
        if v["key"] in open_keys:
            if v["key"] not in seen_known:
                seen_known.add(v["key"])
                lines.append(f"KNOWN-FINDING: property={prop} {open_keys[v['key']]['what']} [{v['key']}]")
            continue
        if v["key"] in reported:
            continue
        reported.add(v["key"])
        nviol += 1
        rp = REPLAYS / f"{prop}_{ctx.tier}_{ctx.seed}_{nviol}.json"
        rp.write_text(json.dumps(dict(property=prop, tier=ctx.tier, seed=ctx.seed, kind="property-violation",
                                      key=v["key"], what=v["what"], **v["replay"]), indent=1, default=str))
        lines.append(f"VIOLATION property={prop} replay={rp.relative_to(VERIF)}")
    if ctx.broken and nviol == 0:
        # the property is no longer shown to hold, and no failing input was found
        nviol += 1
        rp = REPLAYS / f"{prop}_{ctx.tier}_{ctx.seed}_unproved.json"
        rp.write_text(json.dumps(dict(property=prop, tier=ctx.tier, seed=ctx.seed,
                                      kind=ctx.broken[0]["kind"], broken=ctx.broken,
                                      note="a proof obligation / translator / correspondence no longer checks; "
                                           "the oracle search on the real code found no failing input"),
                                 indent=1, default=str))
        lines.append(f"VIOLATION property={prop} replay={rp.relative_to(VERIF)} no-failing-input-found")
    cov = dict(ctx.cov)
    cov.update(
        evaluations=ctx.evaluations,
        distinct_nontrivial=len(ctx.nontrivial),
        samples=ctx.samples or ["(no cases generated)"],
        histogram=ctx.hist,
        trusted_base=TRUSTED_BASE + ctx.assumptions,
        broken=[{k: (v if k != "log" else v[-600:]) for k, v in b.items()} for b in ctx.broken],
        known_findings_seen=sorted(seen_known),
        notes=ctx.notes,
    )
    cov.setdefault("rule", getattr(ctx, "rule", "see DESIGN.md section 5 for this property"))
    ev = dict(property_id=prop, tier=ctx.tier, seed=ctx.seed, level="proof", coverage=cov,
              assumptions=TRUSTED_BASE + ctx.assumptions, wall_s=round(time.time() - ctx.t0, 2),
              violations=nviol)
    EVIDENCE.mkdir(exist_ok=True)
    (EVIDENCE / f"{prop}.json").write_text(json.dumps(ev, indent=1, default=str))
    for l in lines:
        print(l)
    for b in ctx.broken:
        print(f"[{prop}] BROKEN {b['kind']}: {b['what'][:400]}", file=sys.stderr)
    print(f"[{prop}] tier={ctx.tier} seed={ctx.seed} obligations={cov.get('obligations')} "
          f"discharged={cov.get('discharged')} cases={ctx.evaluations} nontrivial={len(ctx.nontrivial)} "
          f"violations={nviol} wall={ev['wall_s']}s")
    sys.stdout.flush()
    return 1 if nviol else 0
