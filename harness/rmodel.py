"""Files, readers and their encodings for the reader-family drivers (C01, C02, C05, C06, C07).

`FileSpec` is the grammar of well-formed Oscar2013 / Oscar2013Extended (20 or 22 columns) / ASCII / JETSCAPE
(hadron, parton; tab- or space-separated event headers) files; `render` writes the text; `run_real` opens the text
with the real `Oscar` / `Jetscape` class and canonicalises the result exactly like `Rd.Proto.showLoaded` on the Lean
side (`ok ne=… counts=… fmt=… attrs=… foot=… ev=<file line numbers per event>` or `err <kind>`).
Loaded particles are mapped back to file lines through the first column, which the generator keeps unique.
"""
import os
import tempfile
import warnings

import numpy as np

import pmodel
from common import hexs

warnings.filterwarnings("ignore")

OSCAR2013_COLS = ["t", "x", "y", "z", "mass", "p0", "px", "py", "pz", "pdg", "ID", "charge"]
EXT_COLS = OSCAR2013_COLS + ["ncoll", "form_time", "xsecfac", "proc_id_origin", "proc_type_origin", "time_last_coll",
                             "pdg_mother1", "pdg_mother2", "baryon_number", "strangeness"]
INT_COLS = {"pdg", "ID", "charge", "ncoll", "proc_id_origin", "proc_type_origin", "pdg_mother1", "pdg_mother2",
            "baryon_number", "strangeness", "status"}
# header name -> Particle attribute
ATTR_OF = {c: c for c in EXT_COLS}
ATTR_OF.update({"p0": "E", "time_last_coll": "t_last_coll"})
JETSCAPE_COLS = ["ID", "pdg", "status", "E", "px", "py", "pz"]

ERRMAP = [(FileNotFoundError, "err notfound"), (TypeError, "err type"), (ValueError, "err value"), (IndexError, "err index"),
          (KeyError, "err key"), (OSError, "err os")]


class FileSpec:
    def __init__(self, kind, cols, events, labels=None, impacts=None, tab_headers=True, trailing_nl=True,
                 sigma=("0.000314633", "6.06164e-07"), footer_style="smash"):
        self.kind = kind          # oscar2013 | extended | ascii | jetscape | jetscapeP
        self.cols = cols          # column names
        self.events = events      # list of events, event = list of rows, row = list of token strings
        self.labels = labels if labels is not None else list(range(len(events))) if not kind.startswith("jetscape") \
            else list(range(1, len(events) + 1))
        self.impacts = impacts if impacts is not None else ["%.3f" % (0.5 * i) for i in range(len(events))]
        self.tab_headers = tab_headers
        self.trailing_nl = trailing_nl
        self.sigma = sigma
        self.footer_style = footer_style

    def is_jetscape(self):
        return self.kind.startswith("jetscape")

    def lines(self):
        L = []
        if self.is_jetscape():
            L.append("#\tJETSCAPE_FINAL_STATE\tv2\t|\tN\tpid\tstatus\tE\tPx\tPy\tPz")
            key = "N_partons" if self.kind == "jetscapeP" else "N_hadrons"
            for lab, ev in zip(self.labels, self.events):
                h = ["#", "Event", str(lab), "weight", "1", "EPangle", "0", key, str(len(ev))]
                L.append(("\t" if self.tab_headers else " ").join(h))
                for row in ev:
                    L.append(" ".join(row))
            L.append(("\t" if self.tab_headers else " ").join(["#", "sigmaGen", self.sigma[0], "sigmaErr", self.sigma[1]]))
            return L
        if self.kind == "oscar2013":
            L.append("#!OSCAR2013 particle_lists " + " ".join(self.cols))
            L.append("# Units: fm fm fm fm GeV GeV GeV GeV GeV none none e")
        elif self.kind == "extended":
            L.append("#!OSCAR2013Extended particle_lists " + " ".join(EXT_COLS))
            L.append("# Units: fm fm fm fm GeV GeV GeV GeV GeV none none e none fm none none none fm none none none none")
        else:
            L.append("#!ASCII particle_lists " + " ".join(self.cols))
            L.append("# Units: " + " ".join("none" for _ in self.cols))
        L.append("# SMASH-3.1")
        for lab, ev, b in zip(self.labels, self.events, self.impacts):
            L.append(f"# event {lab} out {len(ev)}")
            for row in ev:
                L.append(" ".join(row))
            L.append(f"# event {lab} end 0 impact   {b} scattering_projectile_target yes")
        return L

    def text(self):
        t = "\n".join(self.lines())
        return t + ("\n" if self.trailing_nl else "")

    def suffix(self):
        return ".dat" if self.is_jetscape() else ".oscar"

    def particle_line_numbers(self):
        """file line number (0-based) of every particle row, per event"""
        out = []
        n = 1 if self.is_jetscape() else 3
        for ev in self.events:
            n += 1
            out.append(list(range(n, n + len(ev))))
            n += len(ev) + (0 if self.is_jetscape() else 1)
        return out


# ----------------------------------------------------------------------------- generators
def gen_float_token(rng, unique):
    """a real-number token in one of the styles the text formats carry; `unique` is folded into the value"""
    style = rng.choice(["plain", "exp", "neg", "integral", "small"])
    if style == "plain":
        return "%d.%03d" % (rng.randint(0, 30), unique % 1000) if unique is not None else "%.4f" % rng.uniform(0, 30)
    if style == "exp":
        return ("%d.%03de-0%d" % (rng.randint(1, 9), (unique or rng.randint(0, 999)) % 1000, rng.randint(1, 3)))
    if style == "neg":
        return "-%d.%03d" % (rng.randint(0, 9), (unique if unique is not None else rng.randint(0, 999)) % 1000)
    if style == "integral":
        return str(100 + unique) if unique is not None else str(rng.randint(0, 9))
    return "0.%04d" % ((unique if unique is not None else rng.randint(0, 9999)) % 10000)


def gen_token(rng, col, unique=None):
    if col in ("pdg",):
        return str(rng.choice(pmodel.VALID_PDGS + pmodel.INVALID_PDGS[:1]))
    if col == "ID":
        return str(unique if unique is not None else rng.randint(0, 9999))
    if col == "charge":
        return str(rng.choice([-1, 0, 1, 2]))
    if col == "status":
        return str(rng.choice([0, 11, 27, -1]))
    if col in INT_COLS:
        return str(unique if unique is not None else rng.choice([0, 1, 2, 5, -3]))
    return gen_float_token(rng, unique)


def gen_row(rng, cols, uid):
    """first column carries the unique id so loaded particles can be mapped back to lines"""
    row = []
    for j, c in enumerate(cols):
        if j == 0:
            row.append(str(uid) if c in INT_COLS else "%d.5" % uid)
        else:
            row.append(gen_token(rng, c))
    return row


def gen_spec(rng, kinds=None, nev=None, maxpart=5, two_digit=True):
    kind = rng.choice(kinds or ["oscar2013", "extended", "extended", "ascii", "jetscape", "jetscapeP"])
    ncols = None
    if kind == "oscar2013":
        cols = OSCAR2013_COLS
    elif kind == "extended":
        cols = EXT_COLS[:rng.choice([20, 22, 22])]
    elif kind == "ascii":
        k = rng.randint(1, len(EXT_COLS))
        cols = rng.sample(EXT_COLS, k)
    else:
        cols = JETSCAPE_COLS
    nev = nev or rng.randint(1, 6)
    events = []
    uid = 1
    big = rng.randrange(nev) if (two_digit and rng.random() < 0.3) else -1
    for e in range(nev):
        m = 0 if rng.random() < 0.2 else rng.randint(1, maxpart)
        if e == big:
            m = rng.randint(10, 13)
        ev = []
        for _ in range(m):
            ev.append(gen_row(rng, cols, uid))
            uid += 1
        events.append(ev)
    return FileSpec(kind, cols, events, tab_headers=rng.random() < 0.6)


# ----------------------------------------------------------------------------- real code
def classify(e):
    for k, v in ERRMAP:
        if isinstance(e, k):
            return v
    return "err other:" + type(e).__name__


def counts_repr(c):
    if c is None:
        return "none"
    if isinstance(c, list):
        return "list:" + ",".join(str(x) for x in c)
    a = np.asarray(c)
    if a.ndim == 2:
        return "2d:" + ",".join(f"{int(r[0])}.{int(r[1])}" for r in a) if a.shape[1] == 2 else f"2d-odd:{a.shape}"
    if a.ndim == 1 and a.shape[0] == 2:
        return f"1d:{int(a[0])}.{int(a[1])}"
    if a.ndim == 1 and a.shape[0] == 0:
        return "empty"
    return f"shape:{a.shape}"


def first_col_key(spec, p):
    c = spec.cols[0]
    v = getattr(p, ATTR_OF.get(c, c))
    return float(v)


def open_real(spec, text=None, **kw):
    """returns (object, path); caller removes the file"""
    from sparkx.Oscar import Oscar
    from sparkx.Jetscape import Jetscape
    fd, path = tempfile.mkstemp(suffix=spec.suffix(), prefix="verif_", dir=os.environ.get("VERIF_TMP", "/tmp"))
    with os.fdopen(fd, "w", newline="") as f:
        f.write(spec.text() if text is None else text)
    if spec.is_jetscape():
        if spec.kind == "jetscapeP":
            kw = dict(kw, particletype="parton")
        return (lambda: Jetscape(path, **kw)), path
    return (lambda: Oscar(path, **kw)), path


def run_real(spec, text=None, keep=False, **kw):
    """canonical result string (and the object when keep=True)"""
    ctor, path = open_real(spec, text, **kw)
    try:
        try:
            with np.errstate(all="ignore"):
                obj = ctor()
        except Exception as e:
            return (classify(e), None) if keep else classify(e)
        key2line = {}
        for ev, lns in zip(spec.events, spec.particle_line_numbers()):
            for row, ln in zip(ev, lns):
                key2line[float(row[0])] = ln
        evs = obj.particle_objects_list()
        ev_s = "|".join("." if not ev else ",".join(str(key2line.get(first_col_key(spec, p), -1)) for p in ev) for ev in evs)
        fmt = obj.oscar_format() if not spec.is_jetscape() else "-"
        attrs = ",".join(obj.custom_attr_list) if not spec.is_jetscape() else ""
        foot = len(obj.event_end_lines_) if not spec.is_jetscape() else 0
        s = f"ok ne={obj.num_events()} counts={counts_repr(obj.num_output_per_event())} fmt={fmt} attrs={attrs} foot={foot} ev={ev_s}"
        return (s, obj) if keep else s
    finally:
        if not keep:
            os.unlink(path)


# ----------------------------------------------------------------------------- driver encoding
def sel_enc(events):
    if events is None:
        return "all"
    if isinstance(events, tuple):
        return f"range:{events[0]}:{events[1]}"
    return f"one:{events}"


def filters_enc(calls):
    """calls: None | list of (name, args)"""
    if calls is None:
        return "-"
    if not calls:
        return "="
    return "+".join(pmodel.encode_call(n, a) for n, a in calls)


def filters_dict(calls):
    d = {}
    for name, args in calls:
        if name in pmodel.NOARG:
            d[name] = True
        elif name == "spacetime_cut":
            d[name] = [args[0], args[1]]
        else:
            d[name] = args[0]
    return d


def views_enc(spec):
    """filter view of every particle line, built like the loader builds the particle"""
    from sparkx.Particle import Particle
    out = []
    fmt = {"oscar2013": "Oscar2013", "extended": "Oscar2013Extended", "ascii": "ASCII"}.get(spec.kind, "JETSCAPE")
    attrs = [ATTR_OF[c] for c in spec.cols] if spec.kind == "ascii" else None
    for ev, lns in zip(spec.events, spec.particle_line_numbers()):
        for row, ln in zip(ev, lns):
            with np.errstate(all="ignore"):
                p = Particle(fmt, np.asarray(row), attrs) if attrs is not None else Particle(fmt, np.asarray(row))
            out.append(f"{ln}=" + pmodel.encode_particle(p, ln))
    return "~".join(out) if out else "-"


def read_line(spec, events=None, calls=None, text=None, with_views=None):
    kind = "oscar" if not spec.is_jetscape() else spec.kind
    need_views = (calls is not None) if with_views is None else with_views
    return "\t".join(["read", kind, sel_enc(events), filters_enc(calls), views_enc(spec) if need_views else "-",
                      hexs(spec.text() if text is None else text)])
