"""C03 — every filter keeps exactly what its predicate selects. Tie T (loop shapes + conditions) + tie C."""
import copy
import json
import time
import warnings

import numpy as np

import common
import pmodel
from translate import filters as tfilters

warnings.filterwarnings("ignore")
np.seterr(all="ignore")

ERRMAP = {TypeError: "err type", ValueError: "err value", NameError: "err name", UnboundLocalError: "err name"}


def translate(ctx):
    text, regions, index, extra = tfilters.render(common.read_src("Filter.py"))
    common.write_if_changed(common.LEAN / "SparkxVerif/Gen/Filters.lean", text)
    golden = common.LEAN / "golden/Gen/Filters.lean"
    ctx.cov["gen_equals_golden"] = golden.exists() and golden.read_text() == text
    # hand-modelled parts: compare skeleton hashes with the recorded template
    tpl_path = common.VERIF / "harness/translate/filters_skeleton.json"
    if tpl_path.exists():
        tpl = json.loads(tpl_path.read_text())
        changed = [r["region"] for r in regions if tpl.get(r["region"]) != r["skeleton_sha"]]
        if changed:
            ctx.notes.append("hand-modelled argument handling / event-level code changed in: " + ", ".join(changed) +
                             " (tie C decides for these parts)")
            ctx.cov["skeleton_changed"] = changed
    if extra:
        ctx.notes.append("functions in Filter.py not covered by the model: " + ", ".join(extra))
    return regions


# ------------------------------------------------------------------ running the real filters
def build_events(rng, nev_max=4, npart_max=6, unset_prob=0.15, need_pdg=False):
    nev = rng.randint(0, nev_max) if rng.random() < 0.1 else rng.randint(1, nev_max)
    evs, ids, specs = [], {}, []
    n = 0
    for _ in range(nev):
        m = 0 if rng.random() < 0.15 else rng.randint(1, npart_max)
        ev, sp = [], []
        for _ in range(m):
            s = pmodel.gen_spec(rng, unset_prob)
            if need_pdg and "pdg" not in s:
                s["pdg"] = rng.choice(pmodel.VALID_PDGS)
            p = pmodel.make_particle(s)
            ids[id(p)] = n
            n += 1
            ev.append(p)
            sp.append(s)
        evs.append(ev)
        specs.append(sp)
    return evs, ids, specs


def run_real(name, args, evs):
    import sparkx.Filter as F
    work = [list(ev) for ev in evs]
    try:
        return getattr(F, name)(work, *args), None
    except tuple(ERRMAP) as e:
        for k, v in ERRMAP.items():
            if isinstance(e, k):
                return None, v
    except Exception as e:  # anything else
        return None, "err other:" + type(e).__name__


def canon_args(args):
    return tuple(a.tolist() if isinstance(a, np.ndarray) else a for a in args)


def shape_tag(name, args):
    if not args:
        return "noarg"
    a = args[-1]
    if isinstance(a, tuple) and name not in pmodel.SPECIES and name != "particle_status":
        return "window" + ("-None" if None in a else ("-swapped" if a[0] > a[1] else ("-equal" if a[0] == a[1] else "")))
    return type(a).__name__


# ------------------------------------------------------------------ correspondence
def correspond(ctx):
    rng = ctx.rng
    ctx.rule = ("random nested particle lists (0-4 events, empty events, 0-6 particles, ~15% unset attributes, valid and invalid "
                "PDG codes, values on a small grid) x all 27 filters with boundary-biased arguments (cut values equal to particle "
                "values, swapped limits, None, scalar/list/tuple/ndarray); non-trivial = at least one particle kept and one dropped, "
                "or an event removed; distinct by (filter, args, particle table)")
    N = ctx.n(400, 12000)
    cases, lines = [], []
    for i in range(N):
        name, args = pmodel.gen_call(rng)
        if rng.random() < 0.04:  # malformed stream
            name, args = rng.choice([("pT_cut", ((None, None),)), ("pT_cut", ((-1.0, 2.0),)), ("rapidity_cut", ((None, 1.0),)),
                                     ("spacetime_cut", ("x", (None, None))), ("pT_cut", ([0.0, 1.0],)), ("rapidity_cut", ("a",)),
                                     ("spacetime_cut", ("w", (0.0, 1.0))), ("mT_cut", ((0.0, 1.0, 2.0),)),
                                     ("lower_event_energy_cut", (-1.0,)), ("multiplicity_cut", ((-1, 3),))])
        evs, ids, specs = build_events(rng)  # unset PDG ids included: every filter must drop such particles, none may raise
        lines.append(f"f\t{pmodel.encode_call(name, args)}\t{pmodel.encode_events(evs, ids)}")
        cases.append((name, args, evs, ids, specs))
    outs = common.run_driver("C03", lines)
    broken_seen = []
    for (name, args, evs, ids, specs), out, line in zip(cases, outs, lines):
        res, err = run_real(name, args, evs)
        real = err if err else "ok " + pmodel.ids_of(res, ids)
        nin = sum(len(e) for e in evs)
        nout = sum(len(e) for e in res) if res is not None else -1
        nontriv = res is not None and ((0 < nout < nin) or (len(res) != len(evs)))
        ctx.case((name, canon_args(args), line.split("\t")[2]), nontriv,
                 sample=dict(filter=name, args=canon_args(args), events=specs, code=real, model=out))
        ctx.count(f"{name}/{shape_tag(name, args)}" + ("/err" if err else ""))
        if real != out:
            ctx.brk("correspondence-broken", f"{name}{canon_args(args)}: code `{real}` vs model `{out}`",
                    case=dict(filter=name, args=canon_args(args), events=specs, line=line))
            # where model and code part ways is the first place to look for a failing input of the property itself
            if len(broken_seen) < 12:
                broken_seen.append(1)
                r = oracle_one(name, args, evs, ids)
                if r:
                    _, specs2 = shrink(name, args, specs, r[0])
                    ctx.violation(r[0], r[1], dict(input=dict(filter=name, args=canon_args(args),
                                                               arg_type=type(args[-1]).__name__ if args else None, events=specs2),
                                                   how_to_replay="./check C03 --replay <this file>"))


# ------------------------------------------------------------------ oracle
def oracle_one(name, args, evs, ids):
    """None or (key, what). Checks the property's clauses on the real filter."""
    import random as _random
    import sparkx.Filter  # noqa: F401  (the first import of sparkx itself advances `random`)
    before = {id(p): p.data_.copy() for ev in evs for p in ev}
    env0 = (_random.getstate(), np.random.get_state()[1].tobytes(), np.geterr(), np.get_printoptions())
    res, err = run_real(name, args, evs)
    env1 = (_random.getstate(), np.random.get_state()[1].tobytes(), np.geterr(), np.get_printoptions())
    if env1 != env0:
        what = [n for n, a, b in zip(("random-state", "numpy-random-state", "numpy-error-state", "print-options"), env0, env1) if a != b]
        return (f"{name}-environment-changed", f"{name}{canon_args(args)} left {', '.join(what)} changed")
    if err:
        if name == "spacetime_rapidity_cut" and err == "err value" and any(pmodel.spacelike(p) for ev in evs for p in ev):
            return None  # documented ValueError of Particle.spacetime_rapidity for |z| >= t (C08): outside C03's inputs
        return (f"{name}-raises", f"{name}{canon_args(args)} raised ({err}) on an admissible input")
    exp = pmodel.ref_filter(name, args, evs)
    got = [[ids.get(id(p), -1) for p in ev] for ev in res]
    want = [[ids[id(p)] for p in ev] for ev in exp]
    if got != want:
        tag = shape_tag(name, args)
        return (f"{name}-{tag}", f"{name}{canon_args(args)}: kept {got}, documented predicate selects {want}")
    for ev in res:
        for p in ev:
            b = before.get(id(p))
            if b is None or not np.array_equal(b, p.data_, equal_nan=True):
                return (f"{name}-altered", f"{name}: a surviving particle was altered or is not an input object")
    return None


def search(ctx, budget_s):
    rng = ctx.rng
    t0 = time.time()
    n = 0
    limit = 20000 if ctx.thorough else 1500
    names = list(pmodel.ALL_FILTERS)
    history = []  # every call of this search, in order: a failure may depend on what the process did before
    while time.time() - t0 < budget_s and n < limit:
        name = names[n % len(names)]
        _, args = pmodel.gen_call(rng, [name])
        evs, ids, specs = build_events(rng, unset_prob=0.12)
        n += 1
        r = oracle_one(name, args, evs, ids)
        history.append((name, args, specs))
        ctx.case(("oracle", name, canon_args(args), tuple(tuple(sorted(s.items())) for sp in specs for s in sp)), True)
        if r is None and (name in pmodel.SPECIES or name == "particle_status"):
            # same answer for scalar / list / tuple / array
            a = args[0]
            vals = [int(v) for v in (a if isinstance(a, (list, tuple, np.ndarray)) else [a])]
            if len(vals) == 1:
                outs = []
                for alt in (vals[0], [vals[0]], (vals[0],), np.array([vals[0]])):
                    res, err = run_real(name, (alt,), evs)
                    outs.append(err if err else [[ids[id(p)] for p in ev] for ev in res])
                if any(o != outs[0] for o in outs):
                    r = (f"{name}-arg-shape", f"{name}: scalar/list/tuple/ndarray give different answers for {vals[0]}: {outs}")
        if r:
            evs2, specs2 = shrink(name, args, specs, r[0])
            inp = dict(filter=name, args=canon_args(args), arg_type=type(args[-1]).__name__ if args else None, events=specs2)
            key, what = r
            if not fresh_process_fails(inp):
                # the shrunk input alone is handled correctly by a fresh interpreter: the answer depends on what the
                # process saw before (module-level state), so in-process shrinking was misleading.
                if fresh_process_fails(dict(inp, events=specs)):
                    inp["events"] = specs  # the unshrunk input fails on its own (state built up within the call)
                    what += " (fails in a fresh process only with all of these particles: the answer depends on the other particles seen)"
                else:
                    # find a short run of earlier calls after which it fails in a fresh process too
                    hist = minimal_history(history[:-1], inp)
                    if hist is None:
                        inp["events"] = specs
                        hist = minimal_history(history[:-1], inp)
                    inp["history"] = hist if hist is not None else [enc_hist(h) for h in history[:-1]]
                    key = f"history-dependent-{key}"
                    what = (f"after {len(inp['history'])} earlier filter call(s) in the same process: " + what +
                            " -- the same call in a fresh process is answered correctly")
            ctx.violation(key, what, dict(input=inp, how_to_replay="./check C03 --replay <this file>"))
            names.remove(name)
            if not names:
                break
    ctx.cov["oracle_cases"] = n
    ctx.count("oracle", n)


def enc_hist(h):
    name, args, specs = h
    return dict(filter=name, args=canon_args(args), arg_type=type(args[-1]).__name__ if args else None, events=specs)


def fresh_process_fails(inp):
    """does `inp` (optionally with inp['history']) violate the property in a NEW interpreter?"""
    import os
    import subprocess
    import sys
    import tempfile
    with tempfile.NamedTemporaryFile("w", suffix=".json", delete=False) as f:
        json.dump(dict(input=inp), f)
    try:
        p = subprocess.run([sys.executable, str(common.VERIF / "harness/main.py"), "C03", "--replay", f.name],
                           capture_output=True, text=True, timeout=300, env=dict(os.environ))
        return p.returncode == 1 and "VIOLATION" in p.stdout
    finally:
        os.unlink(f.name)


def minimal_history(history, inp):
    """shortest suffix (then thinned) of the earlier calls after which `inp` fails in a fresh process; None if none does"""
    hs = [enc_hist(h) for h in history]
    k, found = 1, None
    while True:
        cand = hs[-k:] if k < len(hs) else hs
        if fresh_process_fails(dict(inp, history=cand)):
            found = cand
            break
        if k >= len(hs):
            return None
        k *= 4
    # thin out: drop blocks, then single calls (bounded effort)
    tries = 0
    block = max(1, len(found) // 2)
    while block >= 1 and tries < 40:
        i, changed = 0, False
        while i < len(found) and tries < 40:
            cand = found[:i] + found[i + block:]
            tries += 1
            if fresh_process_fails(dict(inp, history=cand)):
                found, changed = cand, True
            else:
                i += block
        if not changed or block == 1:
            block //= 2
    return found


def _args_of(inp):
    args = inp["args"]
    conv = {"ndarray": np.array, "tuple": tuple, "list": list}.get(inp.get("arg_type"))

    def fix(a):
        return tuple(a) if isinstance(a, list) and conv is None else a
    args = [fix(a) for a in args]
    if conv and args:
        args[-1] = conv(args[-1])
    return tuple(args)


def materialise(specs):
    evs, ids = [], {}
    n = 0
    for sp in specs:
        ev = []
        for s in sp:
            p = pmodel.make_particle(s)
            ids[id(p)] = n
            n += 1
            ev.append(p)
        evs.append(ev)
    return evs, ids


def fails_with(name, args, specs, key):
    evs, ids = materialise(specs)
    r = oracle_one(name, args, evs, ids)
    return r is not None and r[0] == key


def shrink(name, args, specs, key):
    cur = copy.deepcopy(specs)
    if not fails_with(name, args, cur, key):
        return None, cur
    changed = True
    while changed:
        changed = False
        for i in range(len(cur)):
            cand = cur[:i] + cur[i + 1:]
            if cand and fails_with(name, args, cand, key):
                cur, changed = cand, True
                break
        if changed:
            continue
        for i in range(len(cur)):
            for j in range(len(cur[i])):
                cand = copy.deepcopy(cur)
                del cand[i][j]
                if fails_with(name, args, cand, key):
                    cur, changed = cand, True
                    break
            if changed:
                break
    return None, cur


def replay(ctx, path):
    d = json.loads(open(path).read())
    inp = d.get("input")
    if not inp:
        print(f"[C03] replay file names a broken obligation, not an input: {d.get('broken')}")
        return 1
    for h in inp.get("history") or []:  # earlier calls of the same process, replayed first
        hevs, _ = materialise(h["events"])
        run_real(h["filter"], _args_of(h), hevs)
    evs, ids = materialise(inp["events"])
    r = oracle_one(inp["filter"], _args_of(inp), evs, ids)
    if r:
        print(f"VIOLATION property=C03 replay={path}")
        print(r[1])
        return 1
    print("[C03] replay: property holds on this input now")
    return 0
