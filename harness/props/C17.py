"""C17 — Lattice3D addressing, arithmetic and CSV persistence.  Tie T + tie C (exact, Float driver).

Tie T: `harness/translate/lattice.py` regenerates `Gen/Lattice.lean` from the current text of Lattice3D.py
(constructor, index searches, by-index / point / nearest-neighbour access, coordinates, closest indices, range
test, interpolation guard, operators, average, rescale, reset); `Lemmas/LatticeGen.lean` proves every generated
definition equal to the hand-written model, `Props/C17/Gen.lean` restates the property theorems about them.
Tie C: the hand-written model (`seq`) AND the generated functions (`gseq`) are run by the driver at Float on
every scenario and compared with the real class.  CSV save/load stays a hand mirror (tie C only).

A *scenario* is a handful of lattices (real `np.linspace` node arrays = the `lin` parameter of the model)
plus a sequence of public calls on them.  `run_real` executes it on the real class and records one canonical
answer per call and a dump of every live object; the Lean driver does the same on the model
(`Core/Lattice.lean`); the texts must be equal.  `oracle` re-computes what the *property* demands with an
independent reference (linear scans, a dict keyed by index triples, scalar arithmetic) and is what `search`
applies to the real code.
"""
import json
import math
import os
import tempfile
import time
import warnings
from fractions import Fraction

import numpy as np

import common
from common import f2h, h2f

warnings.filterwarnings("ignore")
INF = float("inf")
NAN = float("nan")


# ------------------------------------------------------------------ translator (tie T)
def translate(ctx):
    from translate import lattice
    src = common.read_src("Lattice3D.py")
    text, regions, info = lattice.render(src)
    common.write_if_changed(common.LEAN / "SparkxVerif/Gen/Lattice.lean", text)
    golden = common.LEAN / "golden/Gen/Lattice.lean"
    ctx.cov["gen_equals_golden"] = golden.exists() and golden.read_text() == text
    ctx.cov["translated_methods"] = sorted(k for k in info)
    ctx.cov["tie"] = ("T+C: Gen/Lattice.lean regenerated from the current source, proved equal to the model "
                      "(Lemmas/LatticeGen), executed at Float against the real class (gseq); CSV save/load: C only")
    return regions


# ------------------------------------------------------------------ canonical text
def fx(x) -> str:
    x = float(x)
    return "nan" if x != x else f2h(x)


def fx0(x) -> str:
    """a number with the sign of a zero removed (driver: `fhex0`)"""
    x = float(x)
    return fx(0.0) if x == 0 else fx(x)


def fxs(xs) -> str:
    return ";".join(fx(x) for x in xs)


def unfx(s):
    return NAN if s == "nan" else h2f(s)


EXC = {ValueError: "value", TypeError: "type", IndexError: "index"}


def exc_name(e) -> str:
    for k, v in EXC.items():
        if type(e) is k:
            return "err:" + v
    return "exc:" + type(e).__name__


import re
_NEG0 = re.compile(r"(?<![0-9a-f])8000000000000000(?![0-9a-f])")


def canon0(s: str) -> str:
    """answers as the property sees them: the sign of a zero is not observable"""
    return _NEG0.sub("0000000000000000", s)


def same(a: float, b) -> bool:
    """value equality as the property sees it (NaN = NaN, sign of zero ignored); `b is None` = the reference
    does not judge this entry (it descends from a division by a zero, whose sign decides between +inf and -inf)"""
    return b is None or (a != a and b != b) or a == b


# ------------------------------------------------------------------ generators
def _coord(rng):
    m = rng.random()
    if m < 0.35:
        return rng.randint(-24, 24) / 4.0
    if m < 0.6:
        return rng.uniform(-10, 10)
    if m < 0.8:
        return rng.uniform(-1, 1) * 10 ** rng.randint(-3, 3)
    return float(rng.randint(-5, 5))


def gen_axis(rng, maxn):
    r = rng.random()
    n = 2 if r < 0.3 else (1 if r < 0.34 else rng.randint(3, maxn))
    lo = _coord(rng)
    w = rng.choice([0.25, 0.5, 1.0, 1.5, 3.0, rng.uniform(0.01, 20), rng.uniform(1e-3, 1e3)])
    hi = lo + w
    if rng.random() < 0.08:       # reversed extent: every point access must be rejected
        lo, hi = hi, lo
    if rng.random() < 0.15:       # extents given as Python ints
        lo, hi = int(math.floor(lo)), int(math.floor(lo)) + max(1, int(w)) * (1 if lo <= hi else -1)
    return lo, hi, n


SPECIALS = [0.0, -0.0, 1.0, -1.0, INF, -INF, NAN, 5e-324, -5e-324, 2.2250738585072014e-308,
            1.7976931348623157e308, 1e-310, 0.1, 1 / 3.0, 1e16, -1e16, 123456.789e-300]


def gen_value(rng, wild=True):
    r = rng.random()
    if wild and r < 0.12:
        return rng.choice(SPECIALS)
    if wild and r < 0.2:                              # arbitrary bit pattern
        x = h2f("%016x" % rng.getrandbits(64))
        return x
    if r < 0.6:
        return rng.randint(-64, 64) / 8.0
    return rng.uniform(-100, 100)


def linspace_ok(lo, hi, n, xs) -> bool:
    """the contract assumed of np.linspace (LinContract in Lean) for n >= 2, lo < hi; plus 'no repeated node'
    for reversed extents"""
    if len(xs) != n:
        return False
    if n == 1:
        return xs[0] == lo
    if xs[0] != lo or xs[-1] != hi:
        return False
    if lo < hi:
        return all(a < b for a, b in zip(xs, xs[1:]))
    return all(a > b for a, b in zip(xs, xs[1:]))


def gen_geom(rng, maxn):
    while True:
        g = [gen_axis(rng, maxn) for _ in range(3)]
        ok = True
        nodes = []
        for lo, hi, n in g:
            xs = [float(v) for v in np.linspace(lo, hi, n)]
            ok = ok and linspace_ok(lo, hi, n, xs)
            nodes.append(xs)
        if ok:
            return dict(ext=[g[0][0], g[0][1], g[1][0], g[1][1], g[2][0], g[2][1]],
                        n=[g[0][2], g[1][2], g[2][2]], nodes=nodes)


def gen_geom_shape(rng, shape):
    """a geometry with the given node counts and fresh extents"""
    while True:
        cand = gen_geom(rng, 3)
        ext, nodes, ok = cand["ext"], [], True
        for a in range(3):
            xs = [float(v) for v in np.linspace(ext[2 * a], ext[2 * a + 1], shape[a])]
            ok = ok and linspace_ok(ext[2 * a], ext[2 * a + 1], shape[a], xs)
            nodes.append(xs)
        if ok:
            return dict(ext=ext, n=list(shape), nodes=nodes)


def gen_point_axis(rng, xs):
    """(value, class) for one axis, boundary-biased"""
    n = len(xs)
    lo, hi = min(xs), max(xs)
    r = rng.random()
    if r < 0.22:
        return xs[rng.randrange(n)], "node"
    if r < 0.30:
        i = rng.randrange(n)
        return float(np.nextafter(xs[i], rng.choice([-INF, INF]))), "node±ulp"
    if r < 0.36:
        return xs[-1], "upper-edge"
    if r < 0.42:
        return xs[0], "lower-edge"
    if r < 0.50 and n >= 2:
        i = rng.randrange(n - 1)
        return (xs[i] + xs[i + 1]) / 2.0, "midpoint"
    if r < 0.58:
        return rng.choice([float(np.nextafter(lo, -INF)), float(np.nextafter(hi, INF))]), "just-outside"
    if r < 0.64:
        return rng.choice([lo - rng.uniform(0.1, 50), hi + rng.uniform(0.1, 50)]), "outside"
    if r < 0.67:
        return rng.choice([INF, -INF]), "inf"
    if r < 0.71:
        return NAN, "nan"
    return rng.uniform(lo, hi), "inside"


def gen_index(rng, n):
    r = rng.random()
    if r < 0.6:
        return rng.randrange(n)
    if r < 0.8:
        return rng.choice([-1, -2, -n, -n - 1, n, n + 1])
    if r < 0.85:
        return rng.choice([2 ** 70, -2 ** 70, 10 ** 6])
    return rng.randint(-n - 2, n + 2)


# ---- file names for the CSV round trip: every suffix numpy treats specially (compressed streams), ordinary and
# odd names, neighbours of other targets (what a temp-file scheme might use), str / pathlib, relative / absolute,
# an existing file that is overwritten, the same path saved again with another lattice (path re-use)
STEMS = ["l", "lattice", "my lattice", "gitter_\u00e4", "\u30c7\u30fc\u30bf", "a.b.c", ".hidden", "x-1"]
SUFFIXES = ["", ".csv", ".txt", ".dat", ".CSV", ".csv.gz", ".gz", ".csv.bz2", ".bz2", ".txt.xz", ".xz", ".gz.csv",
            ".csv.tmp", ".tmp", ".csv~", ".npy", ".GZ", ".csv.gz", ".csv.bz2", ".csv.xz"]
NEIGHBOURS = [".tmp", "~", ".bak", ".gz", ".part", ".new"]
SUBDIRS = [("s", ""), ("s", ""), ("dir with space", ""), ("donn\u00e9es", ""), ("d", ".gz"), ("d", ".tmp")]
DEFAULT_FN = dict(name="l.csv", kind="str", rel=False, pre="none")


def gen_fn(rng, saved):
    r = rng.random()
    names = sorted(saved)
    if names and r < 0.3:
        name = rng.choice(names)                                   # path re-use
    elif names and r < 0.42:
        name = rng.choice(names) + rng.choice(NEIGHBOURS)          # a neighbour of an existing target
    else:
        name = rng.choice(STEMS) + rng.choice(SUFFIXES)
    return dict(name=name, kind="path" if rng.random() < 0.25 else "str", rel=rng.random() < 0.25,
                pre="garbage" if (name not in saved and rng.random() < 0.15) else "none")


def fn_class(fn, reuse=False) -> str:
    """class of a target name (keeps violation keys specific but few)"""
    n = fn["name"]
    for ext in (".gz", ".bz2", ".xz"):
        if n.endswith(ext):
            return "compressed-suffix" + ext
    if reuse:
        return "path-reused"
    if fn.get("pre") == "garbage":
        return "overwrite-existing"
    if fn.get("kind") == "path":
        return "pathlib"
    if fn.get("rel"):
        return "relative-path"
    if not n.isascii() or " " in n:
        return "odd-name"
    if "." not in n.strip("."):
        return "no-suffix"
    return "plain"


# ---- call forms: the DOCUMENTED parameter order of every public call (docstrings / signatures at HEAD).  A call is
# issued with its first `form` arguments positional and the rest by keyword (form = n: all positional, 0: all keywords)
DOC = {
    "Lattice3D": ["x_min", "x_max", "y_min", "y_max", "z_min", "z_max", "num_points_x", "num_points_y", "num_points_z",
                  "n_sigma_x", "n_sigma_y", "n_sigma_z"],
    "set_value_by_index": ["i", "j", "k", "value"], "get_value_by_index": ["i", "j", "k"],
    "set_value": ["x", "y", "z", "value"], "set_value_nearest_neighbor": ["x", "y", "z", "value"],
    "get_value": ["x", "y", "z"], "get_value_nearest_neighbor": ["x", "y", "z"],
    "get_coordinates": ["i", "j", "k"], "find_closest_indices": ["x", "y", "z"],
    "interpolate_value": ["x", "y", "z", "method"], "rescale": ["factor"], "save_to_csv": ["filename"],
    "load_from_csv": ["filename"], "reset": [],
    "__add__": ["other"], "__sub__": ["other"], "__mul__": ["other"], "__truediv__": ["other"],
}
METHOD = {"si": "set_value_by_index", "sp": "set_value", "sn": "set_value_nearest_neighbor", "rs": "rescale",
          "rz": "reset", "gi": "get_value_by_index", "gp": "get_value", "gn": "get_value_nearest_neighbor",
          "co": "get_coordinates", "fc": "find_closest_indices", "iv": "interpolate_value", "bo": "operator",
          "av": "average", "sv": "save_to_csv", "ld": "load_from_csv", "at": "attributes",
          "xi": "__get_index", "xn": "__get_index_nearest_neighbor"}
DUNDER = {"add": "__add__", "sub": "__sub__", "mul": "__mul__", "div": "__truediv__"}


def gen_form(rng, n):
    return rng.choice([n, n, 0, 0, rng.randint(0, n)])


def call(target, meth, args, form=None):
    """target.meth(...) with the first `form` arguments positional, the others by their documented names"""
    names = DOC[meth]
    form = len(args) if form is None else min(form, len(args))
    return getattr(target, meth)(*args[:form], **{names[form + t]: a for t, a in enumerate(args[form:])})


# ---- error-path steps (harness-only: the model never sees them).  Each is a call that must fail — wrong type at
# the first / a middle / the last position, a bad value after the address has been worked out, an operand that is no
# lattice at any position of `average`, a file that cannot be read / written, or a warning turned into an error — and
# must leave every live object (and every saved file) exactly as it was.
BAD_INDEX = ["1", None, 1.5, [0]]
BAD_COORD = [None, "a", {"$obj": 1}]
BAD_VALUE = ["abc", [1.0, 2.0]]
BAD_OPERAND = [3, None, "x", {"$obj": 1}]


def gen_ex(rng, l, live, saved):
    L = live[l]
    idx = [rng.randrange(n) for n in L["n"]]
    pt = [L["nodes"][a][idx[a]] for a in range(3)]
    pos = rng.randrange(3)                              # first / middle / last argument
    same = [t for t, o in enumerate(live) if o["n"] == L["n"]]
    kind = rng.choice(["index", "index", "coord", "coord", "value", "value", "operand", "average", "rescale", "reset",
                       "interp", "load", "save", "warn", "warn", "warn-div"])
    if kind == "index":
        m = rng.choice(["set_value_by_index", "get_value_by_index", "get_coordinates"])
        a = list(idx)
        a[pos] = rng.choice(BAD_INDEX)
        return dict(k="ex", l=l, m=m, args=a + ([gen_value(rng, False)] if m == "set_value_by_index" else []),
                    form=gen_form(rng, len(DOC[m])), why=f"bad-index@{pos}")
    if kind == "coord":
        m = rng.choice(["set_value", "set_value_nearest_neighbor", "get_value", "get_value_nearest_neighbor",
                        "find_closest_indices", "interpolate_value"])
        a = list(pt)
        a[pos] = rng.choice(BAD_COORD)
        if m.startswith("set_"):
            a.append(gen_value(rng, False))
        return dict(k="ex", l=l, m=m, args=a, form=gen_form(rng, len(a)), why=f"bad-coordinate@{pos}")
    if kind == "value":
        m = rng.choice(["set_value_by_index", "set_value", "set_value_nearest_neighbor"])
        a = (list(idx) if m == "set_value_by_index" else list(pt)) + [rng.choice(BAD_VALUE)]
        return dict(k="ex", l=l, m=m, args=a, form=gen_form(rng, 4), why="bad-value-after-addressing")
    if kind == "operand":
        o = rng.choice(["add", "sub", "mul", "div"])
        return dict(k="ex", l=l, m=DUNDER[o], args=[rng.choice(BAD_OPERAND)], form=rng.choice(["op", 1, 0]), why="operand-not-a-lattice")
    if kind == "average":
        ops = [{"$lat": rng.choice(same)} for _ in range(rng.randint(0, 3))]
        at = rng.choice([0, len(ops) // 2, len(ops)])
        ops.insert(at, rng.choice(BAD_OPERAND))
        return dict(k="ex", l=l, m="average", args=ops, why=f"operand-not-a-lattice@{at}/{len(ops) - 1}")
    if kind == "rescale":
        return dict(k="ex", l=l, m="rescale", args=[rng.choice(["x", None, [1.0] * (L["n"][2] + 1), {"$obj": 1}])],
                    form=rng.choice([0, 1]), why="bad-factor")
    if kind == "reset":
        return dict(k="ex", l=l, m="reset", args=[1], form=1, why="extra-argument")
    if kind == "interp":
        return dict(k="ex", l=l, m="interpolate_value", args=list(pt) + ["no-such-method"], form=gen_form(rng, 4), why="bad-method")
    if kind == "load":
        bad = rng.choice(["missing", "empty", "directory", "token@0", "token@mid", "token@last"])
        return dict(k="ex", l=l, m="load_from_csv", args=[{"$badfile": bad}], form=rng.choice([0, 1]), why="unreadable:" + bad)
    if kind == "save":
        where = rng.choice(["no-such-dir/l.csv", "no-such-dir/l.csv.gz", ".", "no-such-dir/x.bz2"])
        return dict(k="ex", l=l, m="save_to_csv", args=[{"$path": where}], form=rng.choice([0, 1]), why="unwritable:" + where)
    if kind == "warn":                                # a call that only warns, with warnings turned into errors
        m = rng.choice(["set_value_by_index", "get_value_by_index", "find_closest_indices"])
        if m == "find_closest_indices":
            a = list(pt)
            a[pos] = max(L["nodes"][pos]) + 7.5
        else:
            a = list(idx)
            a[pos] = rng.choice([-1, L["n"][pos], L["n"][pos] + 3])
            if m == "set_value_by_index":
                a.append(gen_value(rng, False))
        return dict(k="ex", l=l, m=m, args=a, form=gen_form(rng, len(a)), wae=True, why="warning-as-error")
    # a / b with warnings as errors: a zero in the divisor makes numpy warn in the middle of the operator
    return dict(k="ex", l=l, m="__truediv__", args=[{"$lat": rng.choice(same)}], form="op", wae=True, why="warning-as-error:division")


COPIES = ["copy", "deepcopy", "pickle"]
# file contents np.loadtxt reads as the same row (probed on HEAD; a UTF-8 byte-order mark is NOT among them: numpy
# rejects it, so it is not generated)
TEXT_FLAVOURS = ["crlf", "trailing-blank", "spaces-after-commas", "comment-line-non-ascii", "blank-lines",
                 "no-final-newline", "tabs-around-commas", "trailing-comment"]


def text_flavour(row, how) -> bytes:
    toks = ["%.18e" % v for v in row]               # numpy's default format: every double survives it
    t = ",".join(toks)
    return {"crlf": t + "\r\n", "trailing-blank": t + "   \n", "spaces-after-commas": ", ".join(toks) + "\n",
            "comment-line-non-ascii": "# Gitter \u2013 donn\u00e9es \u00e4\n" + t + "\n", "blank-lines": "\n" + t + "\n\n",
            "no-final-newline": t, "tabs-around-commas": " ,\t".join(toks) + "\n",
            "trailing-comment": t + "  # fin \u00e4\n"}[how].encode("utf-8")


def make_copy(o, how):
    import copy
    import pickle
    return {"copy": copy.copy, "deepcopy": copy.deepcopy, "pickle": lambda x: pickle.loads(pickle.dumps(x))}[how](o)


def flavour(x, fl):
    """the same number as another admissible Python / numpy scalar type"""
    if fl == "np":
        if isinstance(x, bool):
            return x
        if isinstance(x, int):
            return np.int64(x) if -2 ** 62 < x < 2 ** 62 else x
        if isinstance(x, float):
            return np.float64(x)
    if fl == "int" and isinstance(x, float) and x == x and abs(x) < 2 ** 53 and x == int(x) and (x != 0 or str(x)[0] != "-"):
        return int(x)
    return x


def gen_scenario(rng, ncmd=(6, 22), maxn=6, wild=True):
    """abstract scenario: lattices + commands (operands are indices into the list of live objects)"""
    g0 = gen_geom(rng, maxn)
    lats = []
    nl = rng.choice([1, 2, 2, 3])
    for t in range(nl):
        r = rng.random()
        if t > 0 and r < 0.15:
            g = gen_geom(rng, maxn)               # a lattice of (most likely) another shape
        elif t > 0 and r < 0.4:                   # same shape, other extents
            g = gen_geom_shape(rng, g0["n"])
        else:
            g = g0
        size = g["n"][0] * g["n"][1] * g["n"][2]
        mode = rng.random()
        if mode < 0.25:
            grid = [0.0] * size
        elif mode < 0.6:
            grid = [gen_value(rng, False) for _ in range(size)]
        else:
            grid = [gen_value(rng, wild) for _ in range(size)]
        lats.append(dict(ext=g["ext"], n=g["n"], nodes=g["nodes"], grid=grid, form=gen_form(rng, 9),
                         copy=rng.choice([None, None, None] + COPIES),
                         nsig=rng.choice(["omitted", "omitted", "None-by-keyword", "None-positional"])))
    cmds = []
    live = [dict(n=l["n"], nodes=l["nodes"]) for l in lats]
    saved = {}            # target name -> geometry of the lattice last saved there
    for _ in range(rng.randint(*ncmd)):
        l = rng.randrange(len(live))
        L = live[l]
        k = rng.choice(["si", "sp", "sp", "sn", "rs", "gi", "gp", "gp", "gn", "co", "fc", "xi", "xi", "xn",
                        "iv", "bo", "av", "sv", "ld", "nodept", "rz", "at", "ex", "ex", "cp", "cp"])
        if k == "cp":        # the object is replaced by a copy of itself; nothing observable may change
            cmds.append(dict(k="cp", l=l, how=rng.choice(COPIES)))
            continue
        if k == "ex":
            cmds.append(gen_ex(rng, l, live, saved))
            continue
        if k in ("sp", "sn", "gp", "gn", "fc", "iv"):
            pt = [gen_point_axis(rng, L["nodes"][a]) for a in range(3)]
            cls = [c for _, c in pt]
            p = [v for v, _ in pt]
            if k in ("sp", "sn"):
                cmds.append(dict(k=k, l=l, p=p, v=gen_value(rng, wild), cls=cls))
            elif k == "iv":
                cmds.append(dict(k=k, l=l, p=p, m=rng.choice(["nearest", "linear"]), cls=cls))
            else:
                cmds.append(dict(k=k, l=l, p=p, cls=cls))
        elif k == "nodept":          # a node: coordinates -> closest -> get_value -> interpolate
            idx = [rng.randrange(n) for n in L["n"]]
            p = [L["nodes"][a][idx[a]] for a in range(3)]
            cmds.append(dict(k="co", l=l, i=idx))
            cmds.append(dict(k="fc", l=l, p=p, cls=["node"] * 3))
            cmds.append(dict(k=rng.choice(["gp", "gn"]), l=l, p=p, cls=["node"] * 3))
            cmds.append(dict(k="iv", l=l, p=p, m=rng.choice(["nearest", "linear"]), cls=["node"] * 3))
        elif k in ("si", "gi", "co"):
            idx = [gen_index(rng, n) for n in L["n"]]
            if k == "si":
                cmds.append(dict(k=k, l=l, i=idx, v=gen_value(rng, wild)))
            else:
                cmds.append(dict(k=k, l=l, i=idx))
        elif k in ("xi", "xn"):
            a = rng.randrange(3)
            v, c = gen_point_axis(rng, L["nodes"][a])
            cmds.append(dict(k=k, l=l, ax=a, x=v, cls=[c]))
        elif k == "rs":
            cmds.append(dict(k=k, l=l, f=rng.choice([2.0, 0.5, -1.0, 0.0, 1 / 3.0, gen_value(rng, wild)])))
        elif k == "rz":
            if rng.random() < 0.35:          # reset is rare: it wipes the history the other calls build up
                cmds.append(dict(k=k, l=l))
        elif k == "at":
            cmds.append(dict(k=k, l=l))
        elif k == "bo":
            b = rng.randrange(len(live))
            cmds.append(dict(k=k, o=rng.choice(["add", "sub", "mul", "div"]), a=l, b=b))
            if live[l]["n"] == live[b]["n"]:
                live.append(dict(n=live[l]["n"], nodes=live[l]["nodes"]))
        elif k == "av":
            bs = [rng.randrange(len(live)) for _ in range(rng.randint(0, 3))]
            cmds.append(dict(k=k, a=l, bs=bs))
            if all(live[b]["n"] == live[l]["n"] for b in bs):
                live.append(dict(n=live[l]["n"], nodes=live[l]["nodes"]))
        elif k == "sv":
            fn = gen_fn(rng, saved)
            cmds.append(dict(k=k, l=l, fn=fn))
            saved[fn["name"]] = dict(n=live[l]["n"], nodes=live[l]["nodes"])
        elif k == "ld":
            if not saved:
                fn = gen_fn(rng, saved)
                cmds.append(dict(k="sv", l=l, fn=fn))
                saved[fn["name"]] = dict(n=live[l]["n"], nodes=live[l]["nodes"])
            names = list(saved)
            name = names[-1] if rng.random() < 0.5 else rng.choice(names)     # the last target, or an earlier one
            mut = rng.random()
            cmds.append(dict(k=k, mut="drop-last" if mut < 0.12 else ("short" if mut < 0.18 else
                                                                    ("extra" if mut < 0.24 else
                                                                     ("none" if mut < 0.7 else "text:" + rng.choice(TEXT_FLAVOURS)))),
                             fn=dict(name=name, kind="path" if rng.random() < 0.25 else "str", rel=rng.random() < 0.25)))
            if mut >= 0.24:
                live.append(dict(n=saved[name]["n"], nodes=saved[name]["nodes"]))
    for c in cmds:                                   # the form in which each public call is issued
        if "form" in c or c["k"] == "ex":
            continue
        if c["k"] == "bo":
            c["form"] = rng.choice(["op", "op", 1, 0])
        elif c["k"] == "iv":
            c["form"] = gen_form(rng, 4)
            c["mdef"] = rng.random() < 0.5          # leave `method` out when it is the documented default
        elif METHOD.get(c["k"]) in DOC:
            c["form"] = gen_form(rng, len(DOC[METHOD[c["k"]]]))
        if c["k"] in ("si", "sp", "sn", "gi", "gp", "gn", "co", "fc", "iv", "rs"):
            c["fl"] = rng.choice(["py", "py", "np", "int"])       # Python / numpy scalar flavour of the numbers
        if c["k"] == "av":
            c["unpack"] = rng.choice(["list", "tuple", "generator", "iter"])
    env = dict(chdir=rng.random() < 0.2, printopts=rng.random() < 0.3, seterr=rng.random() < 0.3, rnd=rng.random() < 0.5)
    return dict(lats=lats, cmds=cmds, subdir=list(rng.choice(SUBDIRS)), env=env)


# ------------------------------------------------------------------ the real code
def _mk(lat):
    from sparkx.Lattice3D import Lattice3D
    e, n = lat["ext"], lat["n"]
    args = [e[0], e[1], e[2], e[3], e[4], e[5], n[0], n[1], n[2]]
    form = lat.get("form")
    if lat.get("nsig") == "None-positional" and (form is None or form >= 9):
        args += [None, None, None]                   # the documented defaults given explicitly, by position
    names = DOC["Lattice3D"]
    f = len(args) if (form is None or len(args) == 12) else min(form, len(args))
    kw = {names[f + t]: a for t, a in enumerate(args[f:])}
    if lat.get("nsig") in ("None-by-keyword", "None-positional") and len(args) == 9:
        kw.update(n_sigma_x=None, n_sigma_y=None, n_sigma_z=None)
    L = Lattice3D(*args[:f], **kw)
    L.grid_[...] = np.array(lat["grid"], dtype=float).reshape(n[0], n[1], n[2])
    if lat.get("copy"):
        L = make_copy(L, lat["copy"])               # the object under test is a copy of the one that was built
    return L


def dump_real(L) -> str:
    g = L.grid_
    shape_ok = tuple(g.shape) == (L.num_points_x_, L.num_points_y_, L.num_points_z_)
    return ",".join([fx(L.x_min_), fx(L.x_max_), fx(L.y_min_), fx(L.y_max_), fx(L.z_min_), fx(L.z_max_),
                     str(int(L.num_points_x_)), str(int(L.num_points_y_)), str(int(L.num_points_z_)),
                     fxs(L.x_values_), fxs(L.y_values_), fxs(L.z_values_),
                     fxs(np.asarray(g, dtype=float).flatten()) if shape_ok else "shape" + str(tuple(g.shape))])


def spec_lat(lat) -> str:
    e, n = lat["ext"], lat["n"]
    return ",".join([fx(v) for v in e] + [str(v) for v in n] + [fxs(xs) for xs in lat["nodes"]] + [fxs(lat["grid"])])


def _warned(w):
    return any("outside the lattice range" in str(x.message) for x in w)


class _cwd:
    """run a call with another working directory (relative file names)"""

    def __init__(self, d):
        self.d = d

    def __enter__(self):
        self.old = os.getcwd()
        if self.d is not None:
            os.chdir(self.d)

    def __exit__(self, *a):
        os.chdir(self.old)


def _target(sub, fn, bare=False):
    """(argument handed to save_to_csv / load_from_csv, absolute path of the file)"""
    import pathlib
    ap = os.path.join(sub, fn["name"])
    arg = fn["name"] if (fn.get("rel") or bare) else ap
    return (pathlib.Path(arg) if fn.get("kind") == "path" else arg), ap


def observe(objs, sub):
    """everything a caller can observe of the live objects and of the files written so far"""
    import hashlib
    out = []
    for o in objs:
        out.append(dump_real(o) + "|" + ";".join("none" if v is None else fx(v) for v in (
            o.cell_volume_, o.spacing_x_, o.spacing_y_, o.spacing_z_, o.density_x_, o.density_y_, o.density_z_,
            o.n_sigma_x_, o.n_sigma_y_, o.n_sigma_z_)))
    files = []
    for name in sorted(os.listdir(sub)):
        fp = os.path.join(sub, name)
        files.append(name + ":" + (hashlib.sha1(open(fp, "rb").read()).hexdigest() if os.path.isfile(fp) else "dir"))
    return out, files, gstate()


def _materialise(a, objs, sub, tmpdir):
    """JSON-able argument of an error step -> the Python value handed to the call"""
    if isinstance(a, dict):
        if "$obj" in a:
            return object()
        if "$lat" in a:
            return objs[a["$lat"]] if a["$lat"] < len(objs) else object()
        if "$path" in a:
            return sub if a["$path"] == "." else os.path.join(sub, a["$path"])
        if "$badfile" in a:
            kind = a["$badfile"]
            fp = os.path.join(tmpdir, "bad_" + kind.replace("@", "_") + ".csv")
            if kind == "missing":
                return os.path.join(tmpdir, "no-such-file.csv")
            if kind == "directory":
                return tmpdir
            toks = ["0", "1", "0", "1", "0", "1", "2", "2", "2"] + ["1.5"] * 8
            if kind.startswith("token@"):
                toks[{"0": 0, "mid": 8, "last": len(toks) - 1}[kind[6:]]] = "abc"
            with open(fp, "w") as fh:
                fh.write("" if kind == "empty" else ",".join(toks) + "\n")
            return fp
    return a


def run_error_step(c, objs, sub, tmpdir):
    """one call that is expected to fail, caught the way a caller would.  Returns "raised:<class>" or "returned"."""
    from sparkx.Lattice3D import Lattice3D
    L = objs[c["l"]]
    args = [_materialise(a, objs, sub, tmpdir) for a in c["args"]]
    with warnings.catch_warnings(), np.errstate(all=("warn" if c.get("wae") else "ignore")):
        warnings.simplefilter("error" if c.get("wae") else "ignore")
        try:
            m = c["m"]
            if m == "average":
                L.average(*args)
            elif m == "load_from_csv":
                call(Lattice3D, m, args, c.get("form"))
            elif m in DUNDER.values() and c.get("form", "op") == "op":
                {"__add__": lambda: L + args[0], "__sub__": lambda: L - args[0], "__mul__": lambda: L * args[0],
                 "__truediv__": lambda: L / args[0]}[m]()
            else:
                call(L, m, args, c.get("form"))
        except Exception as e:  # noqa: BLE001 — any exception is "the call failed"
            return "raised:" + type(e).__name__
    return "returned"


def gstate():
    """process-wide state no call of the class has any business changing"""
    import hashlib
    import random
    st = np.random.get_state()
    return dict(random=hash(random.getstate()), np_random=(hashlib.sha1(st[1].tobytes()).hexdigest(),) + tuple(st[2:]),
                cwd=os.getcwd(), geterr=tuple(sorted(np.geterr().items())),
                printoptions=repr(sorted(np.get_printoptions().items())))


def run_real(scn, tmpdir, hook=None):
    """execute on the real class.  Returns (driver command strings, answers, dump strings, objects).
    `hook(cmd, answer, objs, last_saved)` is called after every executed command.
    `scn["env"]`: the whole run happens in another working directory (all file names then bare and relative), with
    non-default numpy print options, with np.seterr(all="warn"), with advanced `random` / `np.random` states."""
    import random
    env = scn.get("env") or {}
    sd = scn.get("subdir") or ["s", ""]
    sub = tempfile.mkdtemp(prefix=sd[0] + "_", suffix=sd[1], dir=tmpdir)   # one fresh directory per run
    keep = (os.getcwd(), np.geterr(), np.get_printoptions(), random.getstate(), np.random.get_state())
    try:
        if env.get("chdir"):
            os.chdir(sub)
        if env.get("printopts"):
            np.set_printoptions(precision=3, threshold=5, suppress=True, linewidth=40)
        if env.get("seterr"):
            np.seterr(all="warn")
        if env.get("rnd"):
            random.seed(987654321)
            [random.random() for _ in range(17)]
            np.random.seed(1234567)
            np.random.random(11)
        return _run_real(scn, tmpdir, sub, hook)
    finally:
        os.chdir(keep[0])
        np.seterr(**keep[1])
        np.set_printoptions(**{k: v for k, v in keep[2].items() if k != "override_repr"})
        random.setstate(keep[3])
        np.random.set_state(keep[4])


def _run_real(scn, tmpdir, sub, hook=None):
    import contextlib
    from sparkx.Lattice3D import Lattice3D
    from scipy.interpolate import interpn
    env = scn.get("env") or {}
    objs = [_mk(l) for l in scn["lats"]]
    dcmds, answers = [], []
    rows = {}             # target name -> the row of numbers np.loadtxt reads from the file save_to_csv wrote
    last_saved = None
    aborted = None
    if hook is not None:                     # a lattice that starts its life as a copy: observably the built one?
        for t, l in enumerate(scn["lats"]):
            if l.get("copy"):
                hook(dict(k="cp", l=t, how=l["copy"], initial=True, _changed=None), "copied", objs, last_saved)
    for c in scn["cmds"]:
        k = c["k"]
        if k == "cp":
            if c["l"] >= len(objs):
                continue
            before = observe(objs, sub)
            try:
                objs[c["l"]] = make_copy(objs[c["l"]], c["how"])
                outcome = "copied"
            except Exception as e:  # noqa: BLE001
                outcome = "raised:" + type(e).__name__
            c["_outcome"], c["_changed"] = outcome, (None if observe(objs, sub) == before else f"lattice #{c['l']}")
            if hook is not None:
                hook(c, outcome, objs, last_saved)
            continue
        if k == "ex":
            if c["l"] >= len(objs):
                continue
            before = observe(objs, sub)
            outcome = run_error_step(c, objs, sub, tmpdir)
            after = observe(objs, sub)
            c["_outcome"] = outcome
            c["_changed"] = None
            if after != before:
                which = [f"lattice #{t}" for t, (a, b) in enumerate(zip(before[0], after[0])) if a != b] + \
                    (["files " + str(sorted(set(after[1]) ^ set(before[1]))[:3])] if after[1] != before[1] else []) + \
                    ([f"process state {[x for x in after[2] if after[2][x] != before[2][x]]}"] if after[2] != before[2] else []) + \
                    ([f"{len(after[0])} objects instead of {len(before[0])}"] if len(after[0]) != len(before[0]) else [])
                c["_changed"] = ", ".join(which)
            if hook is not None:
                hook(c, outcome, objs, last_saved)
            if outcome == "returned" and c["_changed"]:
                aborted = before[0]          # the call was accepted and did something: the model cannot follow
                break
            continue
        if k in ("bo",):
            if c["a"] >= len(objs) or c["b"] >= len(objs):
                continue
        elif k == "av":
            if c["a"] >= len(objs) or any(b >= len(objs) for b in c["bs"]):
                continue
        elif k == "ld":
            if c.get("fn", DEFAULT_FN)["name"] not in rows:
                continue
        elif c["l"] >= len(objs):
            continue
        F = lambda xs_: [flavour(x_, c.get("fl", "py")) for x_ in xs_]      # noqa: E731
        with warnings.catch_warnings(record=True) as w, \
                (contextlib.nullcontext() if env.get("seterr") else np.errstate(all="ignore")):
            warnings.simplefilter("always")
            g0 = gstate()
            try:
                if k == "si":
                    L = objs[c["l"]]
                    i, j, kk = c["i"]
                    dcmds.append(f"si,{c['l']},{i},{j},{kk},{fx(c['v'])}")
                    call(L, "set_value_by_index", F([i, j, kk, c["v"]]), c.get("form"))
                    ans = "w1" if _warned(w) else "w0"
                elif k in ("sp", "sn"):
                    L = objs[c["l"]]
                    x, y, z = c["p"]
                    dcmds.append(f"{k},{c['l']},{fx(x)},{fx(y)},{fx(z)},{fx(c['v'])}")
                    call(L, METHOD[k], F([x, y, z, c["v"]]), c.get("form"))
                    ans = "w1" if _warned(w) else "w0"
                elif k == "rs":
                    dcmds.append(f"rs,{c['l']},{fx(c['f'])}")
                    call(objs[c["l"]], "rescale", F([c["f"]]), c.get("form"))
                    ans = "-"
                elif k == "rz":
                    dcmds.append(f"rz,{c['l']}")
                    objs[c["l"]].reset()
                    ans = "-"
                elif k == "at":
                    dcmds.append(f"at,{c['l']}")
                    L = objs[c["l"]]
                    ans = "a" + ";".join("none" if v is None else fx0(v) for v in (
                        L.cell_volume_, L.spacing_x_, L.spacing_y_, L.spacing_z_,
                        L.density_x_, L.density_y_, L.density_z_))
                elif k == "gi":
                    i, j, kk = c["i"]
                    dcmds.append(f"gi,{c['l']},{i},{j},{kk}")
                    r = call(objs[c["l"]], "get_value_by_index", F([i, j, kk]), c.get("form"))
                    ans = "none" if r is None else "v" + fx(r)
                elif k in ("gp", "gn"):
                    L = objs[c["l"]]
                    x, y, z = c["p"]
                    dcmds.append(f"{k},{c['l']},{fx(x)},{fx(y)},{fx(z)}")
                    r = call(L, METHOD[k], F([x, y, z]), c.get("form"))
                    ans = "none" if r is None else "v" + fx(r)
                elif k == "co":
                    i, j, kk = c["i"]
                    dcmds.append(f"co,{c['l']},{i},{j},{kk}")
                    r = call(objs[c["l"]], "get_coordinates", F([i, j, kk]), c.get("form"))
                    ans = "c" + fxs(r)
                elif k == "fc":
                    x, y, z = c["p"]
                    dcmds.append(f"fc,{c['l']},{fx(x)},{fx(y)},{fx(z)}")
                    r = call(objs[c["l"]], "find_closest_indices", F([x, y, z]), c.get("form"))
                    ans = f"{int(r[0])};{int(r[1])};{int(r[2])};{1 if _warned(w) else 0}"
                elif k in ("xi", "xn"):
                    L = objs[c["l"]]
                    vals = (L.x_values_, L.y_values_, L.z_values_)[c["ax"]]
                    f = getattr(L, "_Lattice3D__get_index" if k == "xi" else "_Lattice3D__get_index_nearest_neighbor", None)
                    if f is None:            # private helper gone (a rewrite): the public calls carry the comparison
                        continue
                    dcmds.append(f"{k},{c['l']},{c['ax']},{fx(c['x'])}")
                    ans = f"i{int(f(c['x'], vals))}"
                elif k == "iv":
                    L = objs[c["l"]]
                    x, y, z = c["p"]
                    # the interpn parameter: what scipy answers for this very call (when it can be made)
                    try:
                        sup = fx(interpn((L.x_values_, L.y_values_, L.z_values_), L.grid_, [x, y, z], method=c["m"])[0])
                    except Exception as e:  # noqa: BLE001 — interpn itself rejects (e.g. a one-node axis)
                        sup = exc_name(e)
                    c["_sup"] = sup
                    dcmds.append(f"iv,{c['l']},{fx(x)},{fx(y)},{fx(z)},{sup}")
                    a_ = F([x, y, z]) + ([] if (c.get("mdef") and c["m"] == "nearest") else [c["m"]])
                    ans = "v" + fx(call(L, "interpolate_value", a_, c.get("form", 3)))
                elif k == "bo":
                    A, B = objs[c["a"]], objs[c["b"]]
                    dcmds.append(f"bo,{c['o']},{c['a']},{c['b']}")
                    if c.get("form", "op") == "op":
                        R = {"add": lambda: A + B, "sub": lambda: A - B, "mul": lambda: A * B, "div": lambda: A / B}[c["o"]]()
                    else:
                        R = call(A, DUNDER[c["o"]], [B], c["form"])
                    ans = f"new{len(objs)}"
                    objs.append(R)
                elif k == "av":
                    dcmds.append(f"av,{c['a']},{';'.join(str(b) for b in c['bs'])}")
                    others = [objs[b] for b in c["bs"]]
                    others = {"list": others, "tuple": tuple(others), "generator": (o_ for o_ in others),
                              "iter": iter(others)}[c.get("unpack", "list")]
                    R = objs[c["a"]].average(*others)
                    ans = f"new{len(objs)}"
                    objs.append(R)
                elif k == "sv":
                    dcmds.append(f"sv,{c['l']}")
                    fn = c.get("fn", DEFAULT_FN)
                    arg, ap = _target(sub, fn, env.get("chdir"))
                    c["_reuse"] = fn["name"] in rows
                    rows.pop(fn["name"], None)
                    if fn.get("pre") == "garbage" and not os.path.exists(ap):
                        with open(ap, "wb") as fh:                 # an existing, longer file of another kind
                            fh.write(b"# not a lattice, 1 2 3\n" * 400)
                    with _cwd(sub if fn.get("rel") else None):
                        call(objs[c["l"]], "save_to_csv", [arg], c.get("form"))
                    # files that appeared next to the targets (temp files left behind): recorded, see `correspond`
                    c["_stray"] = sorted(set(os.listdir(sub)) - set(rows) - {fn["name"]})
                    # the reading side of the text layer: numpy's own reader, which picks the stream by the suffix
                    row = [float(v) for v in np.loadtxt(ap, delimiter=",", ndmin=1)]
                    rows[fn["name"]] = row
                    c["_row"] = [fx(v) for v in row]
                    last_saved = c["l"]
                    ans = "t" + fxs(row)
                elif k == "ld":
                    fn = c.get("fn", DEFAULT_FN)
                    row = list(rows[fn["name"]])
                    if c["mut"] == "drop-last":
                        row = row[:-1]
                    elif c["mut"] == "short":
                        row = row[:5]
                    elif c["mut"] == "extra":
                        row = row + [1.0]
                    c["_row"] = [fx(v) for v in row]
                    dcmds.append("ld," + fxs(row))
                    arg, ap = _target(sub, fn, env.get("chdir"))          # the file save_to_csv wrote
                    cwd = sub if fn.get("rel") else None
                    if c["mut"].startswith("text:"):
                        arg, cwd = os.path.join(tmpdir, "m.csv"), None
                        with open(arg, "wb") as fh:
                            fh.write(text_flavour(row, c["mut"][5:]))
                    elif c["mut"] != "none":
                        arg, cwd = os.path.join(tmpdir, "m.csv"), None
                        np.savetxt(arg, np.array(row).reshape(1, -1), delimiter=",")
                    with _cwd(cwd):
                        R = call(Lattice3D, "load_from_csv", [arg], c.get("form"))
                    ans = f"new{len(objs)}"
                    objs.append(R)
                else:
                    raise AssertionError(k)
            except Exception as e:  # noqa: BLE001 — the answer IS the exception class
                if isinstance(e, AssertionError):
                    raise
                ans = exc_name(e)
            g1 = gstate()                # inside the errstate context, which would restore np.geterr on exit
        c["_env"] = [x for x in g1 if g1[x] != g0[x]] or None
        answers.append(ans)
        c["_ans"] = ans
        if hook is not None:
            hook(c, ans, objs, last_saved)
    if aborted is not None:
        return dcmds, answers, [d.split("|")[0] for d in aborted], objs
    return dcmds, answers, [dump_real(o) for o in objs], objs


# ------------------------------------------------------------------ independent reference (the property)
def ref_cell(xs, v):
    """lower corner of the cell containing v, by linear scan; None = no cell (must be reported)"""
    n = len(xs)
    if n == 0 or v != v:
        return None
    for i in range(n - 1):
        if xs[i] <= v < xs[i + 1]:
            return i
    if v == xs[n - 1] and (n == 1 or xs[0] <= v):
        return n - 1
    return None


def ref_nearest(xs, v, ranged):
    """first node of minimal |v - x| (float distances, as any IEEE implementation sees them)"""
    if ranged and not (xs[0] <= v <= xs[-1]):
        return None
    best, bi = None, 0
    for i, x in enumerate(xs):
        d = abs(v - x)
        if best is None or d < best:
            best, bi = d, i
    return bi


def exact_nearest_ok(xs, v, i) -> bool:
    """sanity of the float-distance argmin against exact rational distances (2-ulp slack on the spacing)"""
    if v != v or v in (INF, -INF):
        return True
    d = [abs(Fraction(v) - Fraction(x)) for x in xs]
    slack = Fraction(max(abs(v), max(abs(x) for x in xs), 1e-300)) * Fraction(1, 2 ** 50)
    return d[i] <= min(d) + slack


class RefLat:
    def __init__(self, ext, n, nodes, grid):
        self.ext, self.n, self.nodes = list(ext), list(n), [list(a) for a in nodes]
        self.store = {}
        p = 0
        for i in range(n[0]):
            for j in range(n[1]):
                for k in range(n[2]):
                    self.store[(i, j, k)] = None if grid[p] is None else float(grid[p])
                    p += 1

    def valid(self, idx):
        return all(isinstance(t, int) and 0 <= t < m for t, m in zip(idx, self.n))

    def within(self, p):
        return all(float(self.ext[2 * a]) <= p[a] <= float(self.ext[2 * a + 1]) for a in range(3))

    def flat(self):
        return [self.store[(i, j, k)] for i in range(self.n[0]) for j in range(self.n[1]) for k in range(self.n[2])]

    def copy_geom(self, grid):
        return RefLat(self.ext, self.n, self.nodes, grid)


def _f64(x):
    return np.float64(x)


def _arith(fn, x, y, div=False):
    """scalar reference arithmetic; None (unjudged) propagates, a division by zero is not judged"""
    if x is None or y is None or (div and y == 0):
        return None
    return float(fn(_f64(x), _f64(y)))


def _expect(c, refs, nobj, state):
    """What the property demands as the answer to command `c` given the reference objects, and the update of
    the reference.  Returns (expected answer | None = do not judge, key, new_ref | None)."""
    k = c["k"]
    if k == "si":
        R = refs[c["l"]]
        if R.valid(c["i"]):
            R.store[tuple(c["i"])] = float(c["v"])
            return "w0", "by-index:valid-write", None
        return "w1", "by-index:invalid-index-not-reported-or-wrapped", None
    if k in ("sp", "sn", "gp", "gn"):
        R = refs[c["l"]]
        cellk = k in ("sp", "gp")
        cell = [ref_cell(R.nodes[a], c["p"][a]) if cellk else ref_nearest(R.nodes[a], c["p"][a], True) for a in range(3)]
        cls = primary(c.get("cls", []))
        if any(t is None for t in cell):
            nan_only = all((t is not None) or (c["p"][a] != c["p"][a]) for a, t in enumerate(cell))
            site = "cell-search" if cellk else "nearest-search"
            return "err:value", ("nan-coordinate-accepted:" + site if nan_only else "point-not-reported:" + k), None
        if not cellk and not all(exact_nearest_ok(R.nodes[a], c["p"][a], cell[a]) for a in range(3)):
            return None, None, None
        if k in ("sp", "sn"):
            R.store[tuple(cell)] = float(c["v"])
            return "w0", f"{'cell' if cellk else 'nearest'}-write:{cls}", None
        if R.store[tuple(cell)] is None:
            return None, None, None
        return "v" + fx(R.store[tuple(cell)]), f"{'cell' if cellk else 'nearest'}-read:{cls}", None
    if k == "rs":
        R = refs[c["l"]]
        for t in R.store:
            R.store[t] = _arith(lambda x, y: x * y, R.store[t], c["f"])
        return "-", "rescale", None
    if k == "rz":
        R = refs[c["l"]]
        for t in R.store:
            R.store[t] = 0.0
        return "-", "reset", None
    if k == "at":
        return None, None, None          # derived constructor attributes are outside the statement of C17
    if k == "gi":
        R = refs[c["l"]]
        if R.valid(c["i"]):
            if R.store[tuple(c["i"])] is None:
                return None, None, None
            return "v" + fx(R.store[tuple(c["i"])]), "by-index:valid-read", None
        return "none", "by-index:invalid-index-not-reported-or-wrapped", None
    if k == "co":
        R = refs[c["l"]]
        if R.valid(c["i"]):
            return "c" + fxs([R.nodes[a][c["i"][a]] for a in range(3)]), "coordinates:valid", None
        return "err:value", "coordinates:invalid-index-not-reported-or-wrapped", None
    if k == "fc":
        R = refs[c["l"]]
        idx = [ref_nearest(R.nodes[a], c["p"][a], False) for a in range(3)]
        if not all(exact_nearest_ok(R.nodes[a], c["p"][a], idx[a]) for a in range(3)):
            return None, None, None
        return (f"{idx[0]};{idx[1]};{idx[2]};{0 if R.within(c['p']) else 1}",
                "closest-indices:" + primary(c.get("cls", [])), None)
    if k in ("xi", "xn"):
        R = refs[c["l"]]
        xs = R.nodes[c["ax"]]
        t = ref_cell(xs, c["x"]) if k == "xi" else ref_nearest(xs, c["x"], True)
        if t is None:
            site = "cell-search" if k == "xi" else "nearest-search"
            return "err:value", ("nan-coordinate-accepted:" + site if c["x"] != c["x"] else "point-not-reported:" + k), None
        if k == "xn" and not exact_nearest_ok(xs, c["x"], t):
            return None, None, None
        return f"i{t}", f"{'cell' if k == 'xi' else 'nearest'}-index:{c['cls'][0]}", None
    if k == "iv":
        R = refs[c["l"]]
        if not R.within(c["p"]):
            return "err:type", "interpolate:outside-not-reported", None
        idx = [R.nodes[a].index(c["p"][a]) if c["p"][a] in R.nodes[a] else None for a in range(3)]
        if all(t is not None for t in idx) and all(v is not None and math.isfinite(v) for v in R.store.values()) \
                and all(R.nodes[a] == sorted(R.nodes[a]) and len(R.nodes[a]) >= 2 for a in range(3)):
            return "v" + fx(R.store[tuple(idx)]), "interpolate:node-value:" + c["m"], None
        return None, None, None
    if k == "bo":
        A, B = refs[c["a"]], refs[c["b"]]
        if A.n != B.n:
            return "err:value", "operator:shape-mismatch-not-reported", None
        fn = {"add": lambda x, y: x + y, "sub": lambda x, y: x - y, "mul": lambda x, y: x * y,
              "div": lambda x, y: x / y}[c["o"]]
        return (f"new{nobj}", "operator:" + c["o"],
                A.copy_geom([_arith(fn, x, y, div=(c["o"] == "div")) for x, y in zip(A.flat(), B.flat())]))
    if k == "av":
        A = refs[c["a"]]
        Bs = [refs[b] for b in c["bs"]]
        if any(B.n != A.n for B in Bs):
            return "err:value", "average:shape-mismatch-not-reported", None
        acc = list(A.flat())
        for B in Bs:
            acc = [_arith(lambda x, y: x + y, s, y) for s, y in zip(acc, B.flat())]
        return f"new{nobj}", "average", A.copy_geom([_arith(lambda x, y: x / y, s, len(Bs) + 1) for s in acc])
    if k == "sv":
        R = refs[c["l"]]
        fn = c.get("fn", DEFAULT_FN)
        snaps = state.setdefault("snaps", {})
        cls = fn_class(fn, reuse=fn["name"] in snaps)
        snaps[fn["name"]] = (RefLat([float(v) for v in R.ext], R.n, R.nodes, R.flat()), cls)
        if any(v is None for v in R.flat()):
            return None, None, None
        return ("t" + fxs([float(v) for v in R.ext] + [float(v) for v in R.n] + R.flat()),
                "csv:saved-file-read-back:" + cls, None)
    if k == "ld":
        if c["mut"] == "none" or c["mut"].startswith("text:"):
            S, cls = state["snaps"][c.get("fn", DEFAULT_FN)["name"]]
            return (f"new{nobj}", ("csv:roundtrip:" + cls) if c["mut"] == "none" else "csv:roundtrip-" + c["mut"],
                    RefLat(S.ext, S.n, S.nodes, S.flat()))
        return "err:value", "csv:damaged-row-not-reported", None
    raise AssertionError(k)


def _objects_ok(objs, refs, c, key, tol_last=False):
    """every live object must hold exactly what the reference holds (history + operands unchanged)"""
    for t, (o, r) in enumerate(zip(objs, refs)):
        g = [float(v) for v in np.asarray(o.grid_, dtype=float).flatten()]
        rf = r.flat()
        loose = tol_last and t == len(objs) - 1
        if tuple(o.grid_.shape) != tuple(r.n) or len(g) != len(rf):
            return (key + ":shape", f"after {c['k']}: lattice #{t} has grid shape {tuple(o.grid_.shape)}, expected {tuple(r.n)}",
                    dict(cmd=c, lattice=t))
        bad = [p for p, (a, b) in enumerate(zip(g, rf))
               if not (same(a, b) or (loose and b is not None and math.isfinite(a) and math.isfinite(b)
                                      and abs(a - b) <= 1e-12 * max(abs(a), abs(b))))]
        if bad:
            own = (c["k"] in ("bo", "av", "ld") and t == len(objs) - 1) or c.get("l") == t
            return (key + (":values" if own else ":another-object-modified"),
                    f"after {c['k']}: lattice #{t} holds {[(p, g[p]) for p in bad[:3]]} where the property demands "
                    f"{[(p, rf[p]) for p in bad[:3]]} (flat C-order positions)", dict(cmd=c, lattice=t))
        if [float(v) for v in o.x_values_] != r.nodes[0] or [float(v) for v in o.y_values_] != r.nodes[1] \
                or [float(v) for v in o.z_values_] != r.nodes[2]:
            return (key + ":geometry", f"after {c['k']}: node arrays of lattice #{t} are not those of its extents", dict(cmd=c, lattice=t))
        meta = [float(v) for v in (o.x_min_, o.x_max_, o.y_min_, o.y_max_, o.z_min_, o.z_max_)]
        cnt = [int(o.num_points_x_), int(o.num_points_y_), int(o.num_points_z_)]
        if meta != [float(v) for v in r.ext] or cnt != list(r.n):
            return (key + ":metadata", f"after {c['k']}: lattice #{t} has extents/counts {meta}, {cnt}; expected {r.ext}, {r.n}",
                    dict(cmd=c, lattice=t))
    return None


def _failed(ans: str) -> bool:
    """the real call raised, or warned and did nothing"""
    return ans.startswith(("err:", "exc:")) or ans in ("w1", "none")


def oracle(scn, tmpdir):
    """`_oracle`, plus the classification of a failure that only shows after failed calls: if the same history
    without its failed calls (error steps and rejected calls) is fine, the key says so"""
    r = _oracle(scn, tmpdir)
    if r is None or r[0].startswith(("error-path:", "harness-crash")):
        return r
    bad = (r[2] or {}).get("cmd")                     # the call on which the property failed stays, whatever it answered
    valid = [c for c in scn["cmds"] if c is bad or (c["k"] != "ex" and not _failed(c.get("_ans", "")))]
    if len(valid) == len(scn["cmds"]):
        return r
    r0 = _oracle(dict(scn, cmds=[{k: v for k, v in c.items() if not k.startswith("_")} for c in valid]), tmpdir)
    if r0 is None or r0[0] != r[0]:
        return ("instance-reuse-after-error:" + r[0], r[1] + "  [the same history without its failed calls " +
                ("is fine" if r0 is None else "fails differently: " + r0[0]) + "]", r[2])
    return r


def _oracle(scn, tmpdir):
    """Runs the scenario on the real code and, in lock-step, on the reference semantics.  Returns None or
    (key, what, detail) for the first place where the REAL CODE contradicts the property."""
    refs = [RefLat(l["ext"], l["n"], l["nodes"], l["grid"]) for l in scn["lats"]]
    found = []
    state = {}

    def hook(c, got, objs, last_saved):
        if found:
            return
        if c["k"] == "cp":
            shown = json.dumps({x: y for x, y in c.items() if not x.startswith("_")}, default=str)
            if got.startswith("raised"):
                found.append((f"copy:{c['how']}:raised", f"{shown}: {got}", dict(cmd=c)))
            elif c.get("_changed"):
                r = _objects_ok(objs, refs, c, f"copy:{c['how']}:observable-changed")
                found.append((f"copy:{c['how']}:observable-changed",
                              f"{shown}: the copy is not observably equal to the object it was made from"
                              + (": " + r[1] if r else ""), dict(cmd=c)))
            else:
                r = _objects_ok(objs, refs, c, f"copy:{c['how']}:observable-changed")
                if r:
                    found.append(r)
            return
        if c["k"] == "ex":
            shown = json.dumps({x: y for x, y in c.items() if not x.startswith("_")}, default=str)
            if c.get("_changed") and got.startswith("raised"):
                found.append((f"error-path:object-changed-by-failed-call:{c['m']}",
                              f"{shown}: the call failed ({got}) and left {c['_changed']} different from what it was "
                              f"before the call", dict(cmd=c, outcome=got, changed=c["_changed"])))
            return
        if c.get("_env"):
            found.append((f"environment:global-state-changed:{'+'.join(c['_env'])}:{METHOD.get(c['k'], c['k'])}",
                          f"{json.dumps({x: y for x, y in c.items() if not x.startswith('_')}, default=str)}: the call changed "
                          f"process-wide state ({c['_env']}: random / np.random generator state, working directory, np.geterr, "
                          f"print options)", dict(cmd=c)))
            return
        nobj = len(refs)
        exp, key, newref = _expect(c, refs, nobj, state)
        if newref is not None:
            refs.append(newref)
        shown = json.dumps({x: y for x, y in c.items() if not x.startswith("_")}, default=str)
        if exp is not None and canon0(got) != canon0(exp):
            found.append((key, f"{shown}: real code answered {got[:200]!r}, the property demands {exp[:200]!r}",
                          dict(cmd=c, got=got, expected=exp)))
            return
        if len(objs) != len(refs):
            if exp is None:          # not judged and the real code raised: keep the reference aligned
                del refs[len(objs):]
            else:
                found.append((key, f"{shown}: object list has {len(objs)} entries, expected {len(refs)}", dict(cmd=c)))
                return
        r = _objects_ok(objs, refs, c, key or ("unjudged:" + c["k"]), tol_last=(c["k"] == "av"))
        if r:
            if _failed(got):
                r = (f"error-path:object-changed-by-failed-call:{METHOD.get(c['k'], c['k'])}",
                     f"the call failed / was rejected ({got}) and yet: " + r[1], r[2])
            found.append(r)

    try:
        run_real(scn, tmpdir, hook)
    except Exception as e:  # noqa: BLE001
        return ("harness-crash", f"{type(e).__name__}: {e}", {})
    if found:
        return found[0]
    # node sweep on the first lattice: get_coordinates / find_closest_indices inverse, node reads
    L0 = _mk(scn["lats"][0])
    R0 = RefLat(scn["lats"][0]["ext"], scn["lats"][0]["n"], scn["lats"][0]["nodes"], scn["lats"][0]["grid"])
    asc = all(R0.nodes[a] == sorted(R0.nodes[a]) for a in range(3))
    with warnings.catch_warnings(), np.errstate(all="ignore"):
        warnings.simplefilter("ignore")
        for (i, j, k), v in R0.store.items():
            try:
                xyz = L0.get_coordinates(i, j, k)
                back = tuple(int(t) for t in L0.find_closest_indices(*xyz))
            except Exception as e:  # noqa: BLE001
                return ("coords-closest-inverse", f"node {(i, j, k)}: {type(e).__name__}", dict(node=[i, j, k]))
            if back != (i, j, k) or [float(t) for t in xyz] != [R0.nodes[0][i], R0.nodes[1][j], R0.nodes[2][k]]:
                return ("coords-closest-inverse", f"closest(coords{(i, j, k)}) = {back}, coords = {xyz}", dict(node=[i, j, k]))
            if asc:
                try:
                    g = L0.get_value(*xyz)
                    gn = L0.get_value_nearest_neighbor(*xyz)
                except Exception as e:  # noqa: BLE001
                    return ("cell-read:node", f"get_value at node {(i, j, k)} raised {type(e).__name__}", dict(node=[i, j, k]))
                if g is None or gn is None or not same(float(g), v) or not same(float(gn), v):
                    return ("cell-read:node", f"get_value/get_value_nearest_neighbor at node {(i, j, k)} = {g}, {gn}; stored {v}",
                            dict(node=[i, j, k]))
    return None


# ------------------------------------------------------------------ correspondence (tie C)
def scn_line(scn, dcmds) -> str:
    return "seq\t" + "|".join(spec_lat(l) for l in scn["lats"]) + "\t" + "|".join(dcmds)


PRIORITY = ["nan", "inf", "just-outside", "outside", "upper-edge", "lower-edge", "node±ulp", "node", "midpoint", "inside"]


def primary(classes) -> str:
    """the most special point class of a 3-D point (keeps violation keys specific but few)"""
    for p in PRIORITY:
        if p in classes:
            return p
    return "point"


BOUNDARY = {"node", "node±ulp", "upper-edge", "lower-edge", "midpoint", "just-outside", "outside", "inf", "nan"}


def correspond(ctx):
    rng = ctx.rng
    ctx.rule = ("random scenarios: 1-3 lattices (non-cubic, 1..6(8) nodes per axis, 2-node axes 30%, negative / reversed / "
                "integer extents, arbitrary doubles incl. inf/nan/subnormals as grid content) and 6-22 public calls "
                "(set/get by index incl. negative & huge indices, set/get by point, nearest-neighbour, coordinates, closest "
                "indices, private index searches, interpolate, + - * /, average, rescale, reset, derived constructor "
                "attributes, save/load incl. damaged rows; CSV targets: compressed-stream suffixes .gz/.bz2/.xz, no suffix, several "
                "dots, spaces, unicode, neighbours of other targets (.tmp ~ .bak ...), str / pathlib.Path, relative / absolute, "
                "existing file overwritten, same path saved again and any earlier target loaded later, odd directory names); every "
                "public call issued all-positional (documented order) / all-keyword / mixed, defaults omitted or explicit; "
                "error-path steps between the valid calls (wrong type at first/middle/last argument, bad value after addressing, "
                "non-lattice operand at any position, unreadable / unwritable file, warnings as errors) after which every live "
                "object and saved file must be exactly as before and later valid calls are judged as usual; any live object (initial, "
                "operand, result) may be replaced by its copy.copy / copy.deepcopy / pickle round trip at any point and must stay "
                "observably equal; numbers passed as Python float / int / numpy scalars; average(*list|tuple|generator|iter); "
                "loaded files also as CRLF / trailing blanks / blanks and tabs around commas / non-ASCII comment lines / blank "
                "lines / no final newline; some runs inside another working directory with bare relative file names, non-default "
                "numpy print options, np.seterr(all=warn), advanced random / np.random states - which every call must leave as it "
                "found them (cwd, geterr, print options, both generator states); each run on the hand-written model AND on the functions "
                "generated from the current source; "
                "points are nodes, node±1ulp, edges, midpoints, just outside, far outside, ±inf, NaN, inside. "
                "non-trivial = scenario with at least one boundary-class point access AND one accepted write or operator; "
                "distinct by canonical driver line")
    ctx.assumptions.append("C17's public API has no list-typed parameter (average takes *lattices: the unpacking of a list, tuple, "
                           "generator or iterator is Python's), so the iterator device only varies that unpacking; a UTF-8 byte-order "
                           "mark in a CSV file is rejected by np.loadtxt on the clean code and is not generated; rescale under "
                           "warnings-as-errors (numpy raises after the in-place product) and set_value_by_index(..., None) (numpy "
                           "stores nan) are outside the statement and not generated")
    ctx.assumptions.append("np.linspace (strictly monotone, exact end points), np.searchsorted, np.argmin, np.savetxt/np.loadtxt "
                           "('%.18e' round trip), scipy interpn (exact at grid points) are parameters of the model; their "
                           "contracts are checked on every value the harness supplies")
    n = ctx.n(260, 5000)
    tmpdir = tempfile.mkdtemp(prefix="c17_")
    lines, meta = [], []
    # model-only monitor line: the pre-repair guard maps NaN to the last node (witness `unguarded_nan_wraps` at Float)
    wl = dict(ext=[0.0, 2.0, 0.0, 1.0, 0.0, 1.0], n=[3, 2, 2], nodes=[[0.0, 1.0, 2.0], [0.0, 1.0], [0.0, 1.0]], grid=[0.0] * 12)
    lines.append(scn_line(dict(lats=[wl]), ["xu,0,0,nan", "xi,0,0,nan"]))
    meta.append(None)
    contract = dict(csv_tokens=0, interp_nodes=0, linspace=0)
    for t in range(n):
        big = ctx.thorough and t % 10 == 0
        scn = gen_scenario(rng, maxn=8 if big else 6)
        dcmds, answers, dumps, objs = run_real(scn, tmpdir)
        lines.append(scn_line(scn, dcmds))
        lines.append("g" + scn_line(scn, dcmds))           # the same scenario on the GENERATED functions
        meta.append((scn, dcmds, answers, dumps))
        contract["linspace"] += 3 * len(scn["lats"])
        for k_, v_ in (scn.get("env") or {}).items():
            if v_:
                ctx.count("environment/" + k_)
        for l_ in scn["lats"]:
            if l_.get("copy"):
                ctx.count("copy/initial-object/" + l_["copy"])
        # contracts of the text layer / interpn on the values actually supplied
        for c in scn["cmds"]:
            if c["k"] == "sv" and "_row" in c:
                contract["csv_tokens"] += len(c["_row"])
            if c["k"] == "cp" and "_outcome" in c:
                ctx.count(f"copy/{c['how']}/{c['_outcome'].split(':')[0]}")
            if c["k"] == "ld" and "_ans" in c and c["mut"].startswith("text:"):
                ctx.count("csv-text/" + c["mut"][5:] + "/" + ("ok" if c["_ans"].startswith("new") else c["_ans"][:12]))
            if c.get("fl") and "_ans" in c:
                ctx.count("scalar-flavour/" + c["fl"])
            if c["k"] == "ex" and "_outcome" in c:
                ctx.count(f"error-step/{c['m']}/{c['why'].split('@')[0].split(':')[0]}/{c['_outcome'].split(':')[0]}"
                          + ("+state-changed" if c.get("_changed") else ""))
            elif "form" in c and "_ans" in c:
                n_ = len(DOC.get(METHOD.get(c["k"], ""), [])) or 1
                f_ = c["form"]
                ctx.count("call-form/" + ("operator" if f_ == "op" else "positional" if f_ >= n_ else "keywords" if f_ == 0 else "mixed"))
            if c["k"] == "sv":
                ctx.count("csv-target/" + fn_class(c.get("fn", DEFAULT_FN), c.get("_reuse", False)))
                if c.get("_stray"):
                    # not part of the statement of C17 (the round trip is judged by the later loads, which include
                    # neighbours of every target); recorded so that a temp-file scheme is visible in the evidence
                    ctx.count("csv/files-left-next-to-target")
                    if not any("left next to" in x for x in ctx.notes):
                        ctx.notes.append(f"save_to_csv left files next to its target: {c['_stray'][:4]} (target {c.get('fn', DEFAULT_FN)['name']!r})")
    outs = common.run_driver("C17", lines)
    if not outs[0].startswith("ok i2|err:value "):
        ctx.brk("correspondence-broken", f"monitor line: model answered {outs[0][:80]!r}, expected 'ok i2|err:value …'")
    ngen = 0
    for t, m in enumerate(meta[1:]):
        out, gout = outs[1 + 2 * t], outs[2 + 2 * t]
        scn, dcmds, answers, dumps = m
        want = "ok " + "|".join(answers) + " " + "|".join(dumps)
        ngen += 1
        classes = [x for c in scn["cmds"] for x in c.get("cls", [])]
        wrote = any(a in ("w0",) or a.startswith("new") for a in answers)
        nontriv = wrote and any(x in BOUNDARY for x in classes)
        ctx.case((tuple(dcmds), tuple(spec_lat(l) for l in scn["lats"])), nontriv,
                 sample=dict(lattices=[dict(ext=l["ext"], n=l["n"]) for l in scn["lats"]],
                             commands=[d[:90] for d in dcmds[:8]], answers=[a[:60] for a in answers[:8]]))
        for c, a in zip([c for c in dcmds], answers):
            kind = c.split(",")[0]
            ctx.count(f"{kind}/{a[:3] if a.startswith('err') or a.startswith('exc') else ('ok' if a not in ('w1', 'none') else a)}")
        for x in classes:
            ctx.count("point/" + x)
        for l in scn["lats"]:
            ctx.count("shape/" + "x".join(str(v) for v in sorted(l["n"])))
        if not agree(out, want, dcmds) or not agree(gout, want, dcmds):
            # where do they differ?
            what = ("hand-written model: " + _first_diff(out, want, dcmds)) if not agree(out, want, dcmds) else \
                ("functions generated from the current source: " + _first_diff(gout, want, dcmds))
            # analyse differing scenarios until the property is seen to fail on one of them (the oracle judges fewer
            # things than the model computes, e.g. interpolation only at nodes), within a bound
            analysed = ctx.hist.get("differing-scenarios-analysed", 0)
            if len({v["key"] for v in ctx.violations}) >= 4 or (len(ctx.broken) >= 6 and (ctx.violations or analysed >= 80)):
                ctx.count("further-differing-scenarios-not-analysed")
                continue
            ctx.count("differing-scenarios-analysed")
            r = oracle(_strip(scn), tmpdir)
            if r is not None:
                scn2 = shrink(_strip(scn), r[0], tmpdir)
                r2 = oracle(scn2, tmpdir) or r
                ctx.violation(r2[0], r2[1], dict(input=scn2, detail=r2[2], model_vs_code=what,
                                                 how_to_replay="./check C17 --replay <this file>"))
            elif len(ctx.broken) < 6:
                ctx.brk("correspondence-broken", what, case=dict(scenario=_strip(scn), driver_commands=dcmds))
    ctx.cov["generated_function_scenarios"] = ngen
    # interpn contract: exact at grid points (finite data), both methods
    from scipy.interpolate import interpn
    for _ in range(ctx.n(40, 400)):
        g = gen_geom(rng, 5)
        if any(a != sorted(a) or len(a) < 2 for a in g["nodes"]):
            continue
        vals = np.array([gen_value(rng, False) for _ in range(g["n"][0] * g["n"][1] * g["n"][2])]).reshape(g["n"])
        i, j, k = (rng.randrange(m) for m in g["n"])
        for mth in ("nearest", "linear"):
            r = interpn(tuple(np.array(a) for a in g["nodes"]), vals, [g["nodes"][0][i], g["nodes"][1][j], g["nodes"][2][k]], method=mth)[0]
            contract["interp_nodes"] += 1
            if float(r) != float(vals[i, j, k]):
                ctx.notes.append(f"interpn contract failed: method {mth} at node {(i, j, k)} gave {r!r} for {vals[i, j, k]!r}")
                ctx.brk("correspondence-broken", f"scipy interpn ({mth}) does not reproduce the data at a grid point: the contract "
                        f"assumed by theorem interpolate_at_node does not hold for the installed scipy", case=dict(geom=g, node=[i, j, k]))
    # text layer contract on random doubles (incl. subnormals, extremes): parse(fmt x) = x
    bad = 0
    xs = [h2f("%016x" % rng.getrandbits(64)) for _ in range(ctx.n(2000, 50000))] + SPECIALS
    xs = [x for x in xs if x == x]
    p = os.path.join(tmpdir, "t.csv")
    np.savetxt(p, np.array(xs).reshape(1, -1), delimiter=",")
    back = np.loadtxt(p, delimiter=",")
    for a, b in zip(xs, back):
        contract["csv_tokens"] += 1
        if f2h(a) != f2h(float(b)):
            bad += 1
    if bad:
        ctx.brk("correspondence-broken", f"np.savetxt/np.loadtxt did not round-trip {bad} doubles: the parse(fmt x)=x hypothesis "
                                         f"of csv_roundtrip does not hold for the installed numpy")
    ctx.cov["contract_checks"] = contract


def _attr_close(a: str, b: str) -> bool:
    """two `at` answers: the derived constructor attributes are float formulas; a re-ordered product in the source
    (or in a model that replays another order) may differ in the last bits without the property being touched"""
    if a == b:
        return True
    if not (a.startswith("a") and b.startswith("a")):
        return False
    xs, ys = a[1:].split(";"), b[1:].split(";")
    if len(xs) != len(ys):
        return False
    for x, y in zip(xs, ys):
        if x == y:
            continue
        if "none" in (x, y) or x.startswith("err") or y.startswith("err"):
            return False
        u, v = unfx(x), unfx(y)
        if not ((u != u and v != v) or u == v or abs(u - v) <= 1e-13 * max(abs(u), abs(v))):
            return False
    return True


def agree(out: str, want: str, dcmds) -> bool:
    """driver answer line = real answer line; textual, except the `at` answers (tolerance of a few ulp)"""
    if out == want:
        return True
    o, w = out.split(" "), want.split(" ")
    if len(o) != len(w) or len(o) < 2 or o[0] != w[0] or o[2:] != w[2:]:
        return False
    ro, rw = o[1].split("|"), w[1].split("|")
    if len(ro) != len(rw) or len(ro) != len(dcmds):
        return False
    return all(a == b or (d.startswith("at,") and _attr_close(a, b)) for a, b, d in zip(ro, rw, dcmds))


def _strip(scn):
    return dict(scn, cmds=[{k: v for k, v in c.items() if not k.startswith("_")} for c in scn["cmds"]])


def _first_diff(out, want, dcmds):
    if not out.startswith("ok "):
        return f"driver answered {out[:60]!r}"
    o, w = out.split(" "), want.split(" ")
    ro, rw = o[1].split("|"), w[1].split("|")
    for i, (a, b) in enumerate(zip(ro, rw)):
        if a != b:
            return f"command #{i} `{dcmds[i][:120]}`: model {a[:80]!r} vs real code {b[:80]!r}"
    if len(ro) != len(rw):
        return f"{len(ro)} model answers vs {len(rw)} real answers"
    lo, lw = (o[2].split("|") if len(o) > 2 else []), (w[2].split("|") if len(w) > 2 else [])
    for i, (a, b) in enumerate(zip(lo, lw)):
        if a != b:
            fa, fb = a.split(","), b.split(",")
            for name, x, y in zip(["xmin", "xmax", "ymin", "ymax", "zmin", "zmax", "nx", "ny", "nz", "xs", "ys", "zs", "grid"], fa, fb):
                if x != y:
                    if name == "grid":
                        ga, gb = x.split(";"), y.split(";")
                        pos = [p for p, (u, v) in enumerate(zip(ga, gb)) if u != v][:3]
                        return (f"final state of lattice #{i}: grid differs at flat positions {pos}: model "
                                f"{[ga[p] for p in pos]} vs real {[gb[p] for p in pos]} (lengths {len(ga)}/{len(gb)})")
                    return f"final state of lattice #{i}: {name} model {x[:60]!r} vs real {y[:60]!r}"
    return f"final states differ in number of objects: model {len(lo)} vs real {len(lw)}"


# ------------------------------------------------------------------ search on the real code
def shrink(scn, key, tmpdir):
    cur = dict(scn, cmds=list(scn["cmds"]))
    changed = True
    while changed and len(cur["cmds"]) > 1:
        changed = False
        for i in range(len(cur["cmds"]) - 1, -1, -1):
            cand = dict(cur, cmds=cur["cmds"][:i] + cur["cmds"][i + 1:])
            if any(c["k"] in ("bo", "av", "ld") for c in cur["cmds"][i:i + 1]):
                continue            # removing a creating command would renumber the objects
            r = oracle(cand, tmpdir)
            if r and r[0] == key:
                cur = cand
                changed = True
    # a single lattice, if the failing calls only need one
    for t in range(len(cur["lats"])):
        if len(cur["lats"]) == 1:
            break
        cmds = [dict(c, l=0) for c in cur["cmds"] if c.get("l") == t and c["k"] not in ("bo", "av", "ld")]
        cand = dict(cur, lats=[cur["lats"][t]], cmds=cmds)
        if cmds:
            r = oracle(cand, tmpdir)
            if r and r[0] == key:
                cur = cand
                break
    # the default environment, uncopied lattices, if that still fails
    for change in (lambda c_: dict(c_, env={}), lambda c_: dict(c_, lats=[dict(l, copy=None) for l in c_["lats"]])):
        cand = change(cur)
        r = oracle(cand, tmpdir)
        if r and r[0] == key:
            cur = cand
    # a zero grid if that still fails
    cand = dict(cur, lats=[dict(l, grid=[0.0] * len(l["grid"])) for l in cur["lats"]])
    r = oracle(cand, tmpdir)
    if r and r[0] == key:
        cur = cand
    return cur


def corpus():
    p = common.VERIF / "harness/corpus/C17"
    return [json.loads(f.read_text()) for f in sorted(p.glob("*.json"))] if p.exists() else []


def search(ctx, budget_s):
    rng = ctx.rng
    t0 = time.time()
    tmpdir = tempfile.mkdtemp(prefix="c17s_")
    n = 0
    for case in corpus():
        r = oracle(_revive(case["input"]), tmpdir)
        n += 1
        if r:
            ctx.violation(r[0], r[1], dict(input=case["input"], detail=r[2], how_to_replay="./check C17 --replay <this file>"))
    limit = 20000 if ctx.thorough else 1500
    while time.time() - t0 < budget_s and n < limit:
        scn = gen_scenario(rng, ncmd=(4, 16), maxn=5)
        r = oracle(scn, tmpdir)
        n += 1
        ctx.case(("oracle", json.dumps(_strip(scn), default=str)),
                 any(x in BOUNDARY for c in scn["cmds"] for x in c.get("cls", [])))
        if r:
            scn2 = shrink(_strip(scn), r[0], tmpdir)
            r2 = oracle(scn2, tmpdir) or r
            ctx.violation(r2[0], r2[1], dict(input=scn2, detail=r2[2], how_to_replay="./check C17 --replay <this file>"))
            if len({v["key"] for v in ctx.violations}) >= 3:
                break
    ctx.cov["oracle_cases"] = n
    ctx.count("oracle", n)


def _revive(scn):
    """JSON turns nan/inf into NaN/Infinity tokens that json.loads accepts; ints stay ints"""
    return scn


def replay(ctx, path):
    d = json.loads(open(path).read())
    inp = d.get("input")
    if not inp:
        print(f"[C17] replay file names a broken obligation, not an input: {str(d.get('broken'))[:1500]}")
        return 1
    tmpdir = tempfile.mkdtemp(prefix="c17r_")
    scn = _revive(inp)
    r = oracle(scn, tmpdir)
    dcmds, answers, dumps, _ = run_real(scn, tmpdir)
    try:
        out, gout = common.run_driver("C17", [scn_line(scn, dcmds), "g" + scn_line(scn, dcmds)])
        want = "ok " + "|".join(answers) + " " + "|".join(dumps)
        print("[C17] model vs real code:", "equal" if agree(out, want, dcmds) else _first_diff(out, want, dcmds))
        print("[C17] generated functions vs real code:", "equal" if agree(gout, want, dcmds) else _first_diff(gout, want, dcmds))
    except Exception as e:  # noqa: BLE001
        print(f"[C17] driver not run: {e}")
    if r:
        print(f"VIOLATION property=C17 replay={path}")
        print(r[1])
        return 1
    print("[C17] replay: property holds on this input now")
    return 0
