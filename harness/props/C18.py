"""C18 — eccentricities: formula, bound, rotation / reflection / scaling / permutation, lattice variant.

Tie C only (no translator): the generic model `Core/Ecc.lean` is run at Float (C libm) by the driver and
compared with `EventCharacteristics(...).eccentricity(...)` of the tree under test on the same inputs.
The oracle (`search`) checks the PROPERTY on the real code: an independent complex-arithmetic reference
(no arctan2/cos/sin) and the metamorphic relations (rotate, reflect, scale, permute, lattice = nodes).
"""
import cmath
import json
import math
import time
import warnings

import numpy as np

import common
from common import f2h, h2f

warnings.filterwarnings("ignore")

WQS = ["energy", "number", "charge", "baryon", "strangeness"]
WIDX = {"energy": 0, "charge": 1, "baryon": 2, "strangeness": 3}
TOL = 1e-9


# ------------------------------------------------------------------ real code access
def _particles(parts):
    """parts: list of [E, charge, baryon, strangeness, x, y] -> sparkx Particle objects"""
    from sparkx.Particle import Particle
    out = []
    for E, ch, b, s, x, y in parts:
        p = Particle()
        p.E = E
        p.charge = ch
        p.baryon_number = b
        p.strangeness = s
        p.x = x
        p.y = y
        out.append(p)
    return out


def _seen(plist):
    """what the loop reads through the getters (this is what the model is given)"""
    return [[float(p.E), float(p.charge), float(p.baryon_number), float(p.strangeness), float(p.x), float(p.y)]
            for p in plist]


def _canon(fn):
    """run `fn`, canonicalise: ('ok', complex) | ('err', kind)"""
    try:
        with np.errstate(all="ignore"):
            r = complex(fn())
    except ValueError:
        return ("err", "value")
    except ZeroDivisionError:
        return ("err", "zerodiv")
    except Exception as e:  # anything else is reported as its class name (never equal to a model answer)
        return ("err", "other:" + type(e).__name__)
    if not (math.isfinite(r.real) and math.isfinite(r.imag)):
        return ("err", "zerodiv")
    return ("ok", r)


def real_particles(parts, n, m, wq, via="eccentricity"):
    from sparkx.EventCharacteristics import EventCharacteristics
    ec = EventCharacteristics(_particles(parts))
    if via == "eccentricity":
        return _canon(lambda: ec.eccentricity(n, m, wq))
    return _canon(lambda: ec.eccentricity_from_particles(n, m, wq))


def _lattice(ext, shape, grid):
    from sparkx.Lattice3D import Lattice3D
    lat = Lattice3D(ext[0], ext[1], ext[2], ext[3], ext[4], ext[5], shape[0], shape[1], shape[2])
    lat.grid_ = np.array(grid, dtype=float).reshape(shape)
    return lat


def real_lattice(ext, shape, grid, n, m):
    from sparkx.EventCharacteristics import EventCharacteristics
    ec = EventCharacteristics(_lattice(ext, shape, grid))
    return _canon(lambda: ec.eccentricity(n, m))


# ------------------------------------------------------------------ independent reference (the property's formula)
def radial_power(n, m):
    return m if m is not None else (3 if n == 1 else n)


def weight_of(wq, part):
    return 1.0 if wq == "number" else part[WIDX[wq]]


def ref_ecc(pts, n, k):
    """-sum(w r^k u^n)/sum(w r^k), u = (x+iy)/r, by complex multiplication only.
    Returns (value | None when the denominator is zero, condition number sum|a|/|sum a|)."""
    num_re, num_im, den, sabs = [], [], [], 0.0
    for w, x, y in pts:
        r = math.hypot(x, y)
        if r == 0.0:
            continue
        u = complex(x / r, y / r)
        un = 1 + 0j
        for _ in range(n):
            un *= u
        a = w * r ** k
        num_re.append(a * un.real)
        num_im.append(a * un.imag)
        den.append(a)
        sabs += abs(a)
    d = math.fsum(den)
    if d == 0.0:
        return None, math.inf
    return -complex(math.fsum(num_re) / d, math.fsum(num_im) / d), sabs / abs(d)


def pts_of(parts, wq):
    return [(weight_of(wq, p), p[4], p[5]) for p in parts]


def cclose(a, b, tol):
    return abs(a - b) <= tol


# ------------------------------------------------------------------ generators
def gen_positions(rng, k):
    mode = rng.choice(["uniform", "uniform", "dyadic", "axes", "ring", "mixed"])
    scale = rng.choice([1.0, 1.0, 1.0, 1e-3, 1e3, 0.125, 8.0])
    out = []
    for _ in range(k):
        mm = mode if mode != "mixed" else rng.choice(["uniform", "dyadic", "axes", "origin"])
        if mm == "uniform":
            x, y = rng.uniform(-5, 5), rng.uniform(-5, 5)
        elif mm == "dyadic":
            x, y = rng.randint(-40, 40) / 8.0, rng.randint(-40, 40) / 8.0
        elif mm == "axes":
            v = rng.randint(1, 24) / 4.0
            x, y = rng.choice([(v, 0.0), (-v, 0.0), (0.0, v), (0.0, -v), (-v, -0.0)])
        elif mm == "ring":
            a = rng.uniform(-math.pi, math.pi)
            x, y = 2.5 * math.cos(a), 2.5 * math.sin(a)
        else:
            x, y = 0.0, 0.0
        out.append((x * scale, y * scale))
    return out


def gen_parts(rng, lo=0, hi=10, positive=False):
    k = rng.randint(lo, hi)
    parts = []
    for x, y in gen_positions(rng, k):
        E = rng.choice([rng.uniform(0.1, 10.0), rng.randint(1, 64) / 8.0])
        if not positive and rng.random() < 0.05:
            E = 0.0
        ch = float(rng.choice([-2, -1, 0, 1, 1, 2]))
        b = float(rng.choice([-1, 0, 0, 1, 1]))
        s = float(rng.choice([-3, -2, -1, 0, 0, 1, 2]))
        if positive:
            ch, b, s = abs(ch), abs(b), abs(s)
        parts.append([E, ch, b, s, x, y])
    return parts


def gen_neutral(rng):
    """adjacent pairs with bit-identical radial factor and opposite weight: norm is exactly 0 in any arithmetic"""
    parts = []
    for _ in range(rng.randint(1, 3)):
        x, y = rng.uniform(-4, 4), rng.uniform(-4, 4)
        sx, sy = rng.choice([1, -1]), rng.choice([1, -1])
        c = float(rng.choice([1, 2]))
        parts.append([1.0, c, 1.0, c, x, y])
        parts.append([1.0, -c, -1.0, -c, sx * x, sy * y])
    return parts


def gen_nm(rng, bad=0.0):
    n = rng.choice([1, 1, 2, 2, 3, 3, 4, 5, 6])
    m = None if rng.random() < 0.45 else rng.randint(1, 6)
    if rng.random() < bad:
        if rng.random() < 0.5:
            n = rng.choice([0, -1, -3])
        else:
            m = rng.choice([0, -1, -2])
    return n, m


def gen_lattice(rng, nonneg=None):
    shape = [rng.randint(1, 5), rng.randint(1, 5), rng.randint(1, 3)]

    def axis():
        mode = rng.choice(["sym", "pos", "neg", "gen"])
        if mode == "sym":
            a = rng.randint(1, 16) / 4.0
            return -a, a
        if mode == "pos":
            a = rng.uniform(0.0, 2.0)
            return a, a + rng.uniform(0.5, 4.0)
        if mode == "neg":
            a = rng.uniform(0.0, 2.0)
            return -a - rng.uniform(0.5, 4.0), -a
        a = rng.uniform(-4, 4)
        return a, a + rng.uniform(0.5, 5.0)
    x0, x1 = axis()
    y0, y1 = axis()
    z0, z1 = axis()
    if nonneg is None:
        nonneg = rng.random() < 0.7
    grid = [[[(rng.randint(0, 32) / 8.0 if rng.random() < 0.5 else rng.uniform(0.0, 5.0)) if nonneg
              else rng.uniform(-2.0, 5.0)
              for _ in range(shape[2])] for _ in range(shape[1])] for _ in range(shape[0])]
    return [x0, x1, y0, y1, z0, z1], shape, grid


# ------------------------------------------------------------------ driver lines
def enc_m(m):
    return "-" if m is None else str(m)


def line_particles(n, m, wq, seen):
    ps = ";".join(",".join(f2h(v) for v in p) for p in seen) if seen else "."
    return f"p\t{n}\t{enc_m(m)}\t{common.hexs(wq)}\t{ps}"


def line_lattice(n, m, xs, ys, nz, grid):
    g = "|".join("/".join(";".join(f2h(v) for v in row) for row in plane) for plane in grid)
    return f"l\t{n}\t{enc_m(m)}\t{common.fl(xs)}\t{common.fl(ys)}\t{nz}\t{g}"


def parse_model(out):
    t = out.split()
    if t[:1] == ["ok"] and len(t) == 3:
        return ("ok", complex(h2f(t[1]), h2f(t[2])))
    if t[:1] == ["err"] and len(t) == 2:
        return ("err", t[1])
    return ("bad", out)


def same(real, model, cond, exact_zero=False):
    """compare the canonical outcomes.  Returns True | False | 'ill' (not comparable: the denominator is a
    rounding residue, cond > 1e6, so 'value' vs 'value' / 'zerodiv' differences carry no information)."""
    if exact_zero:  # generated so that norm is exactly 0 in any arithmetic
        return real == model and real[0] == "err"
    if "value" in (real[1], model[1]) or real[0] == "bad" or model[0] == "bad" or str(real[1]).startswith("other"):
        return real == model
    if cond > 1e6:
        return "ill"
    if real[0] != model[0]:
        return False
    if real[0] == "err":
        return real[1] == model[1]
    return cclose(real[1], model[1], TOL * max(1.0, cond))


# ------------------------------------------------------------------ correspondence (tie C)
def correspond(ctx):
    rng = ctx.rng
    ctx.rule = ("particle lists of 0..10 particles (uniform / dyadic / on-axis incl. negative x axis / ring / origin positions, "
                "overall scales 1e-3..1e3, weights energy|number|charge|baryon|strangeness incl. zero, negative and exactly "
                "cancelling ones, unknown weight names), n in 1..6 plus invalid n<1, m omitted | 1..6 | invalid m<1; lattices up "
                "to 5x5x3 with symmetric / one-sided axes, non-negative and signed densities.  non-trivial = a value is "
                "returned from >=2 particles (or nodes) off the origin; distinct by canonical input")
    ctx.assumptions.append("C18: np.arctan2/np.cos/np.sin/float ** are compared with C libm atan2/cos/sin/pow at 1e-9 "
                           "(times the condition number sum|a|/|sum a|); theorems use exact real functions")
    ctx.assumptions.append("C18: particles with unset (NaN) attributes are outside the property and not generated")
    ncases = ctx.n(400, 12000)
    lines, meta = [], []
    for i in range(ncases):
        r = rng.random()
        if r < 0.72:
            sub = rng.random()
            neutral = sub < 0.08
            if neutral:
                parts = gen_neutral(rng)
            else:
                parts = gen_parts(rng, 0 if sub < 0.2 else 1, 10)
            n, m = gen_nm(rng, bad=0.08)
            wq = rng.choice(WQS) if rng.random() > 0.04 else rng.choice(["Energy", "pt", "", "mass"])
            if neutral:
                wq = rng.choice(["charge", "baryon", "strangeness"])
            plist = _particles(parts)
            seen = _seen(plist)
            lines.append(line_particles(n, m, wq, seen))
            meta.append(("p", n, m, wq, parts, seen, neutral))
        else:
            ext, shape, grid = gen_lattice(rng)
            if rng.random() < 0.05:
                grid = [[[0.0 for _ in row] for row in plane] for plane in grid]
            n, m = gen_nm(rng, bad=0.06)
            lat = _lattice(ext, shape, grid)
            xs = [float(v) for v in lat.x_values_]
            ys = [float(v) for v in lat.y_values_]
            g = lat.grid_.tolist()
            lines.append(line_lattice(n, m, xs, ys, shape[2], g))
            meta.append(("l", n, m, None, (ext, shape, grid), (xs, ys, g), False))
    outs = common.run_driver("C18", lines)
    for (kind, n, m, wq, inp, seen, neutral), out in zip(meta, outs):
        model = parse_model(out)
        if kind == "p":
            real = real_particles(inp, n, m, wq)
            k = radial_power(max(n, 1), m if (m is None or m >= 1) else 1)
            pts = [(1.0 if wq == "number" else p[WIDX.get(wq, 0)], p[4], p[5]) for p in seen]
            _, cond = ref_ecc(pts, max(n, 1), k)
            off = sum(1 for p in seen if p[4] != 0.0 or p[5] != 0.0)
            nontriv = real[0] == "ok" and off >= 2
            canon = ("p", n, m, wq, tuple(tuple(p) for p in seen))
            sample = dict(op="particles", n=n, m=m, weight_quantity=wq, particles=inp, code=str(real), model=out)
            tag = f"p/{wq if wq in WQS else 'unknown-wq'}/n={n if n >= 1 else '<1'}/m={'default' if m is None else ('given' if m >= 1 else '<1')}/{real[0]}{':' + real[1] if real[0] == 'err' else ''}"
        else:
            ext, shape, grid = inp
            real = real_lattice(ext, shape, grid, n, m)
            xs, ys, g = seen
            pts = [(g[i][j][l], xs[i], ys[j]) for i in range(shape[0]) for j in range(shape[1]) for l in range(shape[2])]
            _, cond = ref_ecc(pts, max(n, 1), radial_power(max(n, 1), m if (m is None or m >= 1) else 1))
            off = sum(1 for p in pts if (p[1] != 0.0 or p[2] != 0.0) and p[0] != 0.0)
            nontriv = real[0] == "ok" and off >= 2
            canon = ("l", n, m, tuple(ext), tuple(shape), repr(grid))
            sample = dict(op="lattice", n=n, m=m, extent=ext, shape=shape, grid=grid, code=str(real), model=out)
            tag = f"l/shape={'x'.join(map(str, shape))}/{real[0]}{':' + real[1] if real[0] == 'err' else ''}"
        allzero = all(w == 0.0 or (x == 0.0 and y == 0.0) for w, x, y in pts)  # every amplitude is exactly 0
        neutral = neutral or (allzero and not (kind == "p" and wq not in WQS))
        verdict = same(real, model, cond, exact_zero=neutral)
        if verdict == "ill":
            ctx.count("ill-conditioned (sum|a|/|sum a| > 1e6, outcome not compared)")
            continue
        ctx.case(canon, nontriv, sample=sample if nontriv else None)
        ctx.count(tag + ("/exact-zero-norm" if neutral else ""))
        in_domain = n >= 1 and (m is None or m >= 1) and (kind == "l" or wq in WQS) and not neutral
        if not verdict and not in_domain:
            # argument validation / the undefined quotient are not what the property talks about: report, do not gate
            ctx.count("outside-domain behaviour differs from the model (not gating)")
            ctx.notes.append(f"outside the property's domain (invalid n/m, unknown weight name or sum(w r^m) = 0): "
                             f"code {real} vs model {model} for {sample['op']} n={n} m={m} wq={wq}")
            continue
        if not verdict:
            ctx.brk("correspondence-broken",
                    f"{sample['op']} n={n} m={m} wq={wq}: code {real} vs model {model}", case=sample)
            if sum(1 for b in ctx.broken if b["kind"] == "correspondence-broken") >= 5:
                break


# ------------------------------------------------------------------ the property on the real code
def _rot(parts, a):
    c, s = math.cos(a), math.sin(a)
    return [[p[0], p[1], p[2], p[3], p[4] * c - p[5] * s, p[4] * s + p[5] * c] for p in parts]


def check_particles(case):
    """All C18 relations for one particle configuration on the REAL code.
    Returns None or (key, what, detail)."""
    parts, n, m, wq = case["particles"], case["n"], case["m"], case["wq"]
    alpha, s, c, perm = case["alpha"], case["scale"], case["wscale"], case["perm"]
    k = radial_power(n, m)
    ref, cond = ref_ecc(pts_of(parts, wq), n, k)
    if ref is None or cond > 1e4:
        return None  # the quotient does not exist / is ill-conditioned: outside the statement
    tol = 1e-9 * max(1.0, cond)
    mk = "m-given" if m is not None else ("m-default-n1" if n == 1 else "m-default")
    base = real_particles(parts, n, m, wq)
    if base[0] != "ok":
        return (f"formula:particles:{wq}:{mk}", f"eccentricity({n},{m},{wq!r}) gives {base} where the formula gives {ref!r}",
                dict(relation="formula", expected=str(ref), observed=str(base)))
    e = base[1]
    if not cclose(e, ref, tol):
        return (f"formula:particles:{wq}:{mk}",
                f"eccentricity({n},{m},{wq!r}) = {e!r} but -sum(w r^{k} e^(i{n}phi))/sum(w r^{k}) = {ref!r}",
                dict(relation="formula", expected=str(ref), observed=str(e)))
    d = real_particles(parts, n, m, wq, via="from_particles")
    if d[0] != "ok" or d[1] != e:
        return ("dispatch:particles", f"eccentricity() = {e!r} differs from eccentricity_from_particles() = {d}",
                dict(relation="dispatch", expected=str(e), observed=str(d)))
    if m is None:
        d = real_particles(parts, n, k, wq)
        if d[0] != "ok" or not cclose(d[1], e, tol):
            return (f"m-default:{'n1' if n == 1 else 'n>1'}", f"eccentricity({n}) = {e!r} but eccentricity({n}, m={k}) = {d}",
                    dict(relation="m-default", expected=str(e), observed=str(d)))
    if all(weight_of(wq, p) >= 0 for p in parts) and abs(e) > 1 + 1e-9:
        return (f"bound:{wq}", f"|eccentricity| = {abs(e)!r} > 1 with non-negative weights",
                dict(relation="bound", expected="<= 1", observed=abs(e)))
    r = real_particles(_rot(parts, alpha), n, m, wq)
    exp = cmath.exp(1j * n * alpha) * e
    if r[0] != "ok" or not cclose(r[1], exp, tol):
        return ("rotation", f"rotating positions by {alpha!r}: got {r}, expected e^(i n alpha) eps = {exp!r}",
                dict(relation="rotation", expected=str(exp), observed=str(r)))
    r = real_particles([[p[0], p[1], p[2], p[3], -p[4], p[5]] for p in parts], n, m, wq)
    exp = (-1) ** n * e.conjugate()
    if r[0] != "ok" or not cclose(r[1], exp, tol):
        return ("reflection", f"x -> -x: got {r}, expected (-1)^n conj(eps) = {exp!r}",
                dict(relation="reflection", expected=str(exp), observed=str(r)))
    r = real_particles([[p[0], p[1], p[2], p[3], s * p[4], s * p[5]] for p in parts], n, m, wq)
    if r[0] != "ok" or not cclose(r[1], e, tol):
        return ("scale-positions", f"positions scaled by {s!r}: got {r}, expected {e!r}",
                dict(relation="scale-positions", expected=str(e), observed=str(r)))
    if wq != "number":
        ci = c if wq == "energy" else float(int(c) or 2)  # charge-like getters truncate to int
        r = real_particles([[ci * p[0], ci * p[1], ci * p[2], ci * p[3], p[4], p[5]] for p in parts], n, m, wq)
        if r[0] != "ok" or not cclose(r[1], e, tol):
            return (f"scale-weights:{wq}", f"weights scaled by {ci!r}: got {r}, expected {e!r}",
                    dict(relation="scale-weights", expected=str(e), observed=str(r)))
    r = real_particles([parts[i] for i in perm], n, m, wq)
    if r[0] != "ok" or not cclose(r[1], e, tol):
        return ("permutation", f"particles reordered by {perm}: got {r}, expected {e!r}",
                dict(relation="permutation", expected=str(e), observed=str(r)))
    return None


def check_lattice(case):
    ext, shape, grid, n, m = case["extent"], case["shape"], case["grid"], case["n"], case["m"]
    k = radial_power(n, m)
    lat = _lattice(ext, shape, grid)
    xs, ys = [float(v) for v in lat.x_values_], [float(v) for v in lat.y_values_]
    pts = [(grid[i][j][l], xs[i], ys[j]) for i in range(shape[0]) for j in range(shape[1]) for l in range(shape[2])]
    ref, cond = ref_ecc(pts, n, k)
    if ref is None or cond > 1e4:
        return None
    tol = 1e-9 * max(1.0, cond)
    base = real_lattice(ext, shape, grid, n, m)
    if base[0] != "ok" or not cclose(base[1], ref, tol):
        return ("formula:lattice", f"lattice eccentricity({n},{m}) = {base} but the formula over the nodes weighted by density gives {ref!r}",
                dict(relation="lattice-formula", expected=str(ref), observed=str(base)))
    e = base[1]
    # the same nodes as particles (energy = density)
    r = real_particles([[w, 0.0, 0.0, 0.0, x, y] for w, x, y in pts], n, m, "energy")
    if r[0] != "ok" or not cclose(r[1], e, tol):
        return ("lattice-vs-particles", f"lattice gives {e!r}, the particle function on its nodes gives {r}",
                dict(relation="lattice-vs-particles", expected=str(e), observed=str(r)))
    if all(w >= 0 for w, _, _ in pts) and abs(e) > 1 + 1e-9:
        return ("bound:lattice", f"|eccentricity| = {abs(e)!r} > 1 with non-negative densities",
                dict(relation="bound", expected="<= 1", observed=abs(e)))
    # reflected lattice: x axis [-x1, -x0], planes in reverse order
    # (np.linspace with a single point yields the lower limit only)
    mext = ([-ext[1], -ext[0]] if shape[0] > 1 else [-ext[0], -ext[0] + 1.0]) + ext[2:]
    r = real_lattice(mext, shape, grid[::-1], n, m)
    exp = (-1) ** n * e.conjugate()
    if r[0] != "ok" or not cclose(r[1], exp, tol):
        return ("reflection:lattice", f"lattice mirrored in x: got {r}, expected {exp!r}",
                dict(relation="reflection", expected=str(exp), observed=str(r)))
    c = case["wscale"]
    r = real_lattice(ext, shape, [[[c * v for v in row] for row in plane] for plane in grid], n, m)
    if r[0] != "ok" or not cclose(r[1], e, tol):
        return ("scale-weights:lattice", f"densities scaled by {c!r}: got {r}, expected {e!r}",
                dict(relation="scale-weights", expected=str(e), observed=str(r)))
    s = case["scale"]
    r = real_lattice([s * v for v in ext], shape, grid, n, m)
    if r[0] != "ok" or not cclose(r[1], e, tol):
        return ("scale-positions:lattice", f"lattice extent scaled by {s!r}: got {r}, expected {e!r}",
                dict(relation="scale-positions", expected=str(e), observed=str(r)))
    return None


def check_case(case):
    return check_particles(case) if case["kind"] == "particles" else check_lattice(case)


def gen_case(rng):
    if rng.random() < 0.75:
        positive = rng.random() < 0.5
        parts = gen_parts(rng, 2, 10, positive=positive)
        n, m = gen_nm(rng)
        wq = rng.choice(WQS)
        perm = list(range(len(parts)))
        rng.shuffle(perm)
        return dict(kind="particles", particles=parts, n=n, m=m, wq=wq,
                    alpha=rng.choice([rng.uniform(-math.pi, math.pi), math.pi / 2, math.pi, -math.pi / 3, 2.0 * math.pi / 5]),
                    scale=rng.choice([0.5, 2.0, 4.0, rng.uniform(0.1, 10.0)]),
                    wscale=rng.choice([2.0, 3.0, 0.5, rng.uniform(0.2, 5.0), -2.0]), perm=perm)
    ext, shape, grid = gen_lattice(rng)
    n, m = gen_nm(rng)
    return dict(kind="lattice", extent=ext, shape=shape, grid=grid, n=n, m=m,
                scale=rng.choice([0.5, 2.0, rng.uniform(0.1, 10.0)]), wscale=rng.choice([2.0, 0.5, rng.uniform(0.2, 5.0)]))


def shrink(case, key):
    if case["kind"] != "particles":
        return case
    cur = dict(case)
    changed = True
    while changed and len(cur["particles"]) > 1:
        changed = False
        for i in range(len(cur["particles"])):
            cand = dict(cur)
            cand["particles"] = cur["particles"][:i] + cur["particles"][i + 1:]
            cand["perm"] = list(range(len(cand["particles"])))[::-1]
            r = check_case(cand)
            if r and r[0] == key:
                cur = cand
                changed = True
                break
    return cur


def corpus():
    p = common.VERIF / "harness/corpus/C18"
    return [json.loads(f.read_text()) for f in sorted(p.glob("*.json"))] if p.exists() else []


def search(ctx, budget_s):
    rng = ctx.rng
    t0 = time.time()
    nmax = 60000 if ctx.thorough else 1500
    n = 0
    found = set()
    for case in corpus():
        r = check_case(case)
        n += 1
        if r:
            found.add(r[0])
            ctx.violation(r[0], r[1], dict(input=case, detail=r[2], how_to_replay="./check C18 --replay <this file>"))
    while time.time() - t0 < budget_s and n < nmax and len(found) < 4:
        case = gen_case(rng)
        r = check_case(case)
        n += 1
        ctx.case(("oracle", json.dumps(case, sort_keys=True)), True)
        ctx.count("oracle/" + case["kind"])
        if r and r[0] not in found:
            small = shrink(case, r[0])
            r2 = check_case(small) or r
            found.add(r2[0])
            ctx.violation(r2[0], r2[1], dict(input=small, detail=r2[2], how_to_replay="./check C18 --replay <this file>"))
    ctx.cov["oracle_cases"] = n


def replay(ctx, path):
    d = json.loads(open(path).read())
    case = d.get("input")
    if not case:
        print(f"[C18] replay file names a broken obligation, not an input: {d.get('broken')}")
        return 1
    r = check_case(case)
    if r:
        print(f"VIOLATION property=C18 replay={path}")
        print(r[1])
        return 1
    print("[C18] replay: property holds on this input now")
    return 0
